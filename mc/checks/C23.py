"""C23 Linear algebra routines agree with their definitions.

Every non-static function of engine_util_solve.c / engine_util_sparse.c / engine_util_blas.c (115, listed from the
tree sources at run time), the static-inline helpers of engine_util_sparse.h (through native/drivers/c23_inline.c) and
the gather/scatter helpers are driven directly through ctypes, in TWO builds of the tree code: the regular one (AVX
paths of engine_util_*_avx.h) and a second compilation of the three files without mjUSEPLATFORMSIMD (portable loops).
Inputs are enumerated (sizes 1..9(+) = every residue of the 4-wide loops and the >8 super-node cap, every sparsity
pattern of small matrices incl. empty rows / columns and the uncompressed layout, every band layout, every active set
of the box QP, ...), the oracle is a dense numpy counterpart / the defining identity / the KKT conditions.  Output
buffers carry canaries on both sides, inputs are compared after the call.
"""
import collections
import itertools
import math

import numpy as np

from .. import alphabet as A
from .. import core, mj
from . import _c23_lib as L23

LEVEL = "exploration"
META = dict(
    category=LEVEL,
    technique="bounded exhaustive enumeration (all sizes 1..9, all small sparsity patterns / band layouts / active sets) "
              "of every exported linear-algebra utility in an AVX and a scalar build; dense numpy reference, defining "
              "identities, KKT conditions, canaries around every output",
    text="All 115 non-static functions of the three anchored files (+ the static-inline sparse helpers and the "
         "gather/scatter helpers) are called directly on enumerated inputs: vector lengths 0..13 (every residue of the "
         "4-wide AVX loops), all 3x3/3x4/4x3 sparsity patterns incl. empty rows/columns in compressed and uncompressed "
         "layouts, all symmetric patterns n<=4 (5 thorough) for the sparse Cholesky, all forests n<=5 for the sparse "
         "LU, all band layouts ntotal<=6 (8), all 3^n active sets of the box QP for n<=3, eigenvalue lattices with "
         "repeated eigenvalues.  Oracles: exact (dyadic data => bit-exact) dense numpy results, backward errors of "
         "factor/solve pairs on deterministic SPD families with condition numbers up to 1e8+, KKT conditions.  The same "
         "space is run against the AVX build and a scalar re-compilation of the same files.  Exhaustive within the "
         "bounds, which is what catches SIMD-tail and sparse-index errors that need one particular size or pattern.",
    note="Continuous data are deterministic families (dyadic integers / Hilbert-like / graded), not all reals.  Error "
         "paths (mju_error) of raw, unguarded entry points are not triggered.  Iterative routines (mju_eig3, mju_QCQP*, "
         "mju_boxQP) are judged only when they report / can be shown to have converged; the rest is counted.",
    design_ref="DESIGN.md §3 C23")

SENT = -7.25e300
ISENT = -777777
PAD = 5
CALLS = collections.Counter()


# ------------------------------------------------------------------------------------------------ plumbing

class T:
    """Per-family test context: library variant, guarded buffers, violation helper."""

    def __init__(self, part, variant):
        self.part = part
        self.variant = variant
        self.lib = L23.load(variant)
        self.g = []
        self.last = None

    def __getattr__(self, name):
        if name.startswith("mju_") or name.startswith("mj_") or name.startswith("c23_"):
            CALLS[name] += 1
            return getattr(self.lib, name)
        raise AttributeError(name)

    # guarded buffers -------------------------------------------------------
    def f(self, init, pad=PAD):
        """float64 buffer with canaries; init = length or initial values (any shape, flattened)."""
        v = np.full(init, SENT * 0 + 1234.5) if isinstance(init, (int, np.integer)) else np.array(init, float).ravel()
        full = np.full(len(v) + 2 * pad, SENT)
        full[pad:pad + len(v)] = v
        self.g.append((full, pad, len(v)))
        return full[pad:pad + len(v)]

    def i(self, init, pad=PAD):
        v = np.full(init, 4321, np.int32) if isinstance(init, (int, np.integer)) else np.array(init, np.int32).ravel()
        full = np.full(len(v) + 2 * pad, ISENT, np.int32)
        full[pad:pad + len(v)] = v
        self.g.append((full, pad, len(v)))
        return full[pad:pad + len(v)]

    def base_free(self, ptr):
        import ctypes
        f = self.lib.base.c.mju_free
        f.argtypes = [ctypes.c_void_p]
        f.restype = None
        f(ptr)

    def guards_ok(self):
        ok = True
        for full, pad, n in self.g:
            s = SENT if full.dtype == np.float64 else ISENT
            if not (np.all(full[:pad] == s) and np.all(full[pad + n:] == s)):
                ok = False
        self.g = []
        return ok

    def bad(self, fn, what, replay):
        replay = dict(replay)
        replay["variant"] = self.variant
        replay["function"] = fn
        self.part.violation("%s: %s" % (fn, what.split(" | ")[0]), "[%s build] %s: %s" % (self.variant, fn, what), replay)

    def done(self, fn, replay, n=1, nontrivial=False):
        """count an evaluation and verify the canaries of every buffer created since the last call."""
        self.part["evaluations"] += n
        if nontrivial:
            self.part["nontrivial_count"] += n
            self.last = (fn, replay)
        if not self.guards_ok():
            self.bad(fn, "wrote outside its output buffer (canary overwritten)", replay)


def dy(k):
    """deterministic dyadic value in {-1.25 .. 1.25} (multiples of 1/4, zero included)"""
    return ((7 * k + 3) % 11 - 5) / 4.0


def dyv(n, seed=0):
    return np.array([dy(seed + 3 * i) for i in range(n)])


def dym(nr, nc, seed=0):
    return np.array([[dy(seed + 5 * r + 3 * c + r * c) for c in range(nc)] for r in range(nr)]).reshape(nr, nc)


def nzv(k):
    """deterministic non-zero dyadic value"""
    v = ((5 * k + 2) % 7 + 1) / 4.0
    return v if k % 3 else -v


def eq(a, b):
    a = np.asarray(a)
    b = np.asarray(b)
    return a.shape == b.shape and bool(np.all(a == b))


def rel(a, b, floor=1e-300):
    a = np.asarray(a, float)
    b = np.asarray(b, float)
    if a.shape != b.shape or not (np.all(np.isfinite(a)) and np.all(np.isfinite(b))):
        return float("inf")
    if a.size == 0:
        return 0.0
    return float(np.max(np.abs(a - b)) / (max(np.max(np.abs(a)), np.max(np.abs(b))) + floor))


def note(part, name, v):
    v = float(v)
    if not v > 0:
        part.add("noise_%s==0" % name, 1)
    elif not math.isfinite(v):
        part.add("noise_%s=inf" % name, 1)
    else:
        part.add("noise_%s<=1e%+03d" % (name, max(int(math.ceil(math.log10(v))), -17)), 1)


# ------------------------------------------------------------------------------------------------ sparse helpers

def csr(Dn, pattern=None, layout="compressed", lower=False, extra_slots=0, lead=0):
    """CSR arrays of dense Dn restricted to `pattern` (bool; default Dn != 0).
    layout: 'compressed' | 'uncompressed' (rowadr[r] = lead + r*nc, unused slots hold canary values) ;
    extra_slots: free slots after every row (fill-in room) in the compressed layout."""
    nr, nc = Dn.shape
    pat = (Dn != 0) if pattern is None else pattern
    rownnz = np.zeros(nr, np.int32)
    rowadr = np.zeros(nr, np.int32)
    vals, cols = [], []
    adr = lead
    vals += [SENT] * lead
    cols += [ISENT] * lead
    for r in range(nr):
        cs = [c for c in range(nc) if pat[r, c] and (not lower or c <= r)]
        rownnz[r] = len(cs)
        rowadr[r] = adr
        vals += [Dn[r, c] for c in cs]
        cols += cs
        room = (nc - len(cs)) if layout == "uncompressed" else extra_slots
        vals += [SENT] * room
        cols += [ISENT] * room
        adr += len(cs) + room
    return np.array(vals + [SENT], float)[:-1].copy(), rownnz, rowadr, np.array(cols + [0], np.int32)[:-1].copy()


def csr_dense(vals, rownnz, rowadr, colind, nr, nc):
    out = np.zeros((nr, nc))
    seen = np.zeros((nr, nc), int)
    for r in range(nr):
        if rownnz[r] < 0 or rowadr[r] < 0 or rowadr[r] + rownnz[r] > len(colind) or rowadr[r] + rownnz[r] > len(vals):
            return None, "row %d (adr %d, nnz %d) exceeds the buffer of %d" % (r, rowadr[r], rownnz[r], len(colind))
        for k in range(rowadr[r], rowadr[r] + rownnz[r]):
            c = colind[k]
            if not (0 <= c < nc):
                return None, "column index %d out of range in row %d" % (c, r)
            out[r, c] += vals[k]
            seen[r, c] += 1
    if seen.max(initial=0) > 1:
        return None, "duplicate column index in a row"
    return out, None


def rows_sorted(rownnz, rowadr, colind):
    for r in range(len(rownnz)):
        c = colind[rowadr[r]:rowadr[r] + rownnz[r]]
        if np.any(np.diff(c) <= 0):
            return False
    return True


def patterns(nr, nc):
    """every 0/1 pattern of an nr x nc matrix"""
    for bits in range(1 << (nr * nc)):
        yield np.array([(bits >> k) & 1 for k in range(nr * nc)], bool).reshape(nr, nc)


def patval(pat, seed=0):
    nr, nc = pat.shape
    V = np.zeros((nr, nc))
    for r in range(nr):
        for c in range(nc):
            if pat[r, c]:
                V[r, c] = nzv(seed + 4 * r + 3 * c + r * c)
    return V


def supernodes(pat):
    """rowsuper by definition: number of following rows with an identical pattern"""
    nr = pat.shape[0]
    out = np.zeros(nr, np.int32)
    for r in range(nr - 2, -1, -1):
        if np.array_equal(pat[r], pat[r + 1]):
            out[r] = out[r + 1] + 1
    return out


def stack_data(lib):
    m = lib.load_xml('<mujoco><size memory="4M"/><worldbody><body><joint type="slide"/><geom size=".1"/></body></worldbody></mujoco>')
    d = lib.make_data(m)
    return m, d


# ================================================================================================ families
#
# Each family is   fam(t: T, thorough: bool, shard: int, nshard: int)


def spd_family(n):
    """deterministic SPD matrices of size n: (name, matrix, condition class)"""
    out = []
    idx = np.arange(n)
    # diagonally dominant, dyadic
    Ad = np.array([[dy(3 * i + 5 * j + i * j) * 0.5 for j in range(n)] for i in range(n)])
    Ad = 0.5 * (Ad + Ad.T)
    np.fill_diagonal(Ad, 0)
    Ad = Ad + np.diag(np.sum(np.abs(Ad), axis=1) + 1 + 0.25 * idx)
    out.append(("diagdom", Ad))
    out.append(("identity*4", 4.0 * np.eye(n)))
    # Hilbert-like (cond grows ~ e^{3.5 n}); shifted so that n=9 stays representable (cond ~ 1e12 at n=9)
    H = 1.0 / (idx[:, None] + idx[None, :] + 1.0)
    out.append(("hilbert", H))
    out.append(("hilbert+1e-6", H + 1e-6 * np.eye(n)))
    # graded condition numbers: Q diag(10^-k..) Q' with a fixed orthogonal Q (Householder of a fixed vector)
    v = np.array([1.0 + 0.5 * i for i in range(n)])
    Q = np.eye(n) - 2 * np.outer(v, v) / (v @ v)
    for c in (1e2, 1e4, 1e8):
        ev = c ** (-idx / max(n - 1, 1))
        out.append(("graded%g" % c, (Q * ev) @ Q.T))
    # tridiagonal / arrow patterns
    Tm = 2.5 * np.eye(n) + np.diag(-np.ones(n - 1), 1) + np.diag(-np.ones(n - 1), -1) if n > 1 else 2.5 * np.eye(1)
    out.append(("tridiag", Tm))
    return out


def backward_err(Amat, x, b):
    r = Amat @ x - b
    den = np.max(np.abs(Amat)) * max(np.max(np.abs(x)), 1e-300) * Amat.shape[0] + np.max(np.abs(b))
    return float(np.max(np.abs(r)) / (den + 1e-300))


# ---------------------------------------------------------------------------------- blas level 1

def fam_blas1(t, thorough, shard, nshard):
    ns = list(range(0, 10)) + ([12, 13, 16, 17] if thorough else [13])
    for n in ns:
        for seed in range(3 if thorough else 2):
            a, b = dyv(n, seed), dyv(n, 7 + 2 * seed)
            if seed == 2:                                  # non-dyadic data: element-wise results are still exact
                a, b = np.sin(np.arange(n) + 1.0), 1.0 / (np.arange(n) + 3.0)
            s = dy(seed + 4) or 0.75
            rp = {"n": n, "a": a, "b": b, "scl": s}
            nt = n >= 4

            def chk1(fn, got, exp, exact=True):
                if not (eq(got, exp) if exact else rel(got, exp) <= 1e-14):
                    t.bad(fn, "result differs from numpy | got %r expected %r" % (got, exp), rp)
                t.done(fn, rp, nontrivial=nt)
            for off in (0, 1):                              # off=1: outputs start at an odd (8-byte aligned only) address
                pad = PAD + off
                r = t.f(n, pad); t.mju_zero(r, n); chk1("mju_zero", r, np.zeros(n))
                r = t.f(n, pad); t.mju_fill(r, s, n); chk1("mju_fill", r, np.full(n, s))
                r = t.f(n, pad); t.mju_copy(r, a, n); chk1("mju_copy", r, a)
                r = t.f(n, pad); t.mju_scl(r, a, s, n); chk1("mju_scl", r, a * s)
                r = t.f(a, pad); t.mju_scl(r, r, s, n); chk1("mju_scl", r, a * s)            # in place
                r = t.f(n, pad); t.mju_add(r, a, b, n); chk1("mju_add", r, a + b)
                r = t.f(n, pad); t.mju_sub(r, a, b, n); chk1("mju_sub", r, a - b)
                r = t.f(a, pad); t.mju_addTo(r, b, n); chk1("mju_addTo", r, a + b)
                r = t.f(a, pad); t.mju_subFrom(r, b, n); chk1("mju_subFrom", r, a - b)
                r = t.f(a, pad); t.mju_addToScl(r, b, s, n); chk1("mju_addToScl", r, a + b * s)
                r = t.f(n, pad); t.mju_addScl(r, a, b, s, n); chk1("mju_addScl", r, a + b * s)
                r = t.f(a, pad); t.c23_addToSclScl(r, b, s, 0.5, n); chk1("mju_addToSclScl(inline)", r, a * s + b * 0.5)
            exact = seed < 2
            chk1("mju_sum", t.mju_sum(a, n), float(np.sum(a)) if n else 0.0, exact)
            chk1("mju_L1", t.mju_L1(a, n), float(np.sum(np.abs(a))) if n else 0.0, exact)
            chk1("mju_dot", t.mju_dot(a, b, n), float(a @ b) if n else 0.0, exact)
            nrm = math.sqrt(float(a @ a)) if n else 0.0
            got = t.mju_norm(a, n)
            chk1("mju_norm", got, nrm, False)
            if n:
                r = t.f(a)
                got = t.mju_normalize(r, n)
                exp = a / nrm if nrm >= 1e-15 else np.eye(n)[0]
                if rel(got, nrm) > 1e-14 or rel(r, exp) > 1e-14:
                    t.bad("mju_normalize", "wrong norm or direction | got %r %r expected %r %r" % (got, r, nrm, exp), rp)
                t.done("mju_normalize", rp, nontrivial=nt)
                z = t.f(np.full(n, 1e-17))
                got = t.mju_normalize(z, n)
                if not eq(z, np.eye(n)[0]) or not got < 1e-15:
                    t.bad("mju_normalize", "tiny vector must become (1,0,..) | got %r" % (z,), {"n": n, "a": [1e-17] * n})
                t.done("mju_normalize", rp)
            # index variants: every subset of range(n) for n <= 4, a family otherwise; both orders
            if n <= 4:
                subsets = [list(c) for k in range(n + 1) for c in itertools.combinations(range(n), k)]
                subsets += [list(reversed(c)) for c in subsets if len(c) > 1]
            else:
                subsets = [[], [n - 1], list(range(0, n, 2)), list(range(n - 1, -1, -1)), list(range(n)), [0, n - 1, 1]]
            for ind_ in subsets:
                ind = np.array(ind_, np.int32)
                k = len(ind_)
                rpi = dict(rp, ind=ind_)
                mask = np.zeros(n, bool)
                mask[ind_] = True
                base = dyv(n, 11)

                def chki(fn, got, exp):
                    if not eq(got, exp):
                        t.bad(fn, "result differs from numpy | got %r expected %r" % (got, exp), rpi)
                    t.done(fn, rpi, nontrivial=0 < k < n)
                r = t.f(base); t.mju_zeroInd(r, k, ind); chki("mju_zeroInd", r, np.where(mask, 0.0, base))
                r = t.f(base); t.mju_copyInd(r, a, ind, k); chki("mju_copyInd", r, np.where(mask, a, base))
                r = t.f(base); t.mju_addInd(r, a, b, ind, k); chki("mju_addInd", r, np.where(mask, a + b, base))
                r = t.f(base); t.mju_subInd(r, a, b, ind, k); chki("mju_subInd", r, np.where(mask, a - b, base))
                r = t.f(base); t.mju_addToInd(r, a, ind, k); chki("mju_addToInd", r, np.where(mask, base + a, base))
                r = t.f(base); t.mju_addToSclInd(r, a, ind, s, k); chki("mju_addToSclInd", r, np.where(mask, base + a * s, base))
                if seed < 2:
                    chki("mju_dotInd", t.mju_dotInd(a, b, ind, k), float(np.sum((a * b)[mask])) if k else 0.0)
                # gather / scatter (engine_util_misc.c)
                r = t.f(k); t.mju_gather(r, a, ind, k); chki("mju_gather", r, a[ind_] if k else np.zeros(0))
                r = t.f(base); t.mju_scatter(r, a[:k].copy(), ind, k)
                e = base.copy()
                e[ind_] = a[:k]
                chki("mju_scatter", r, e)
                im = np.array([(-1 if j % 2 else x) for j, x in enumerate(ind_)], np.int32)
                r = t.f(k); t.mju_gatherMasked(r, a, im, k)
                chki("mju_gatherMasked", r, np.array([0.0 if j % 2 else a[x] for j, x in enumerate(ind_)]))
                ia = np.arange(100, 100 + n, dtype=np.int32)
                r = t.i(k); t.mju_gatherInt(r, ia, ind, k); chki("mju_gatherInt", r, ia[ind_] if k else np.zeros(0, np.int32))
                r = t.i(np.full(n, 55)); t.mju_scatterInt(r, ia[:k].copy(), ind, k)
                e = np.full(n, 55, np.int32)
                e[ind_] = ia[:k]
                chki("mju_scatterInt", r, e)
            r = t.f(n); t.mju_gather(r, a, None, n)
            if not eq(r, a):
                t.bad("mju_gather", "ind == NULL must copy", rp)
            t.done("mju_gather", rp)
            r = t.f(n); t.mju_scatter(r, a, None, n)
            if not eq(r, a):
                t.bad("mju_scatter", "ind == NULL must copy", rp)
            t.done("mju_scatter", rp)


# ---------------------------------------------------------------------------------- fixed size 3 / 4

def fam_fixed(t, thorough, shard, nshard):
    vals = [-2.0, 0.0, 0.5, 3.0]
    vecs = [np.array(v) for v in itertools.product(vals, repeat=3)]
    mats = [np.eye(3), np.array([[0, 1, 0], [0, 0, 1], [1, 0, 0.]]), dym(3, 3, 1), dym(3, 3, 4) * 2, np.zeros((3, 3)),
            np.array([[1, 2, 3], [4, 5, 6], [7, 8, 9.]]), np.diag([2.0, -0.5, 4.0])]
    s = -0.75
    k = 0
    for a in vecs:
        for b in vecs:
            k += 1
            if k % nshard != shard:
                continue
            rp = {"a": a, "b": b, "scl": s}

            def c(fn, got, exp, exact=True):
                if not (eq(got, exp) if exact else rel(got, exp) <= 1e-15):
                    t.bad(fn, "result differs from numpy | got %r expected %r" % (got, exp), rp)
                t.done(fn, rp, nontrivial=bool(np.any(a != b)))
            r = t.f(3); t.mju_add3(r, a, b); c("mju_add3", r, a + b)
            r = t.f(3); t.mju_sub3(r, a, b); c("mju_sub3", r, a - b)
            r = t.f(a); t.mju_addTo3(r, b); c("mju_addTo3", r, a + b)
            r = t.f(a); t.mju_subFrom3(r, b); c("mju_subFrom3", r, a - b)
            r = t.f(a); t.mju_addToScl3(r, b, s); c("mju_addToScl3", r, a + b * s)
            r = t.f(3); t.mju_addScl3(r, a, b, s); c("mju_addScl3", r, a + b * s)
            c("mju_dot3", t.mju_dot3(a, b), float(a @ b))
            c("mju_dist3", t.mju_dist3(a, b), math.sqrt(float((a - b) @ (a - b))), False)
            c("mju_equal3", t.mju_equal3(a, b), int(np.all(a == b)))
    for a in vecs[shard::nshard]:
        rp = {"a": a}

        def c(fn, got, exp, exact=True):
            if not (eq(got, exp) if exact else rel(got, exp) <= 1e-15):
                t.bad(fn, "result differs from numpy | got %r expected %r" % (got, exp), rp)
            t.done(fn, rp, nontrivial=True)
        r = t.f(3); t.mju_zero3(r); c("mju_zero3", r, np.zeros(3))
        r = t.f(3); t.mju_copy3(r, a); c("mju_copy3", r, a)
        r = t.f(3); t.mju_scl3(r, a, s); c("mju_scl3", r, a * s)
        nrm = math.sqrt(float(a @ a))
        c("mju_norm3", t.mju_norm3(a), nrm, False)
        r = t.f(a)
        got = t.mju_normalize3(r)
        c("mju_normalize3", np.concatenate([[got], r]), np.concatenate([[nrm], a / nrm if nrm >= 1e-15 else [1.0, 0, 0]]), False)
        for M in mats:
            rp = {"a": a, "mat": M}
            r = t.f(3); t.mju_mulMatVec3(r, M.ravel().copy(), a); c("mju_mulMatVec3", r, M @ a)
            r = t.f(3); t.mju_mulMatTVec3(r, M.ravel().copy(), a); c("mju_mulMatTVec3", r, M.T @ a)
            r = t.f(a); t.mju_mulMatVec3(r, M.ravel().copy(), r); c("mju_mulMatVec3", r, M @ a)       # aliased
    if shard == 0:
        for e in (1e-16, 0.9e-15, 1.1e-15, 1e-14):                  # mjMINVAL = 1e-15 thresholds
            a = np.array([0.5, -2.0, 3.0])
            b = a + np.array([0, e, 0])
            rp = {"a": a, "b": b}
            exp = int(abs(b[1] - a[1]) < 1e-15)
            if t.mju_equal3(a, b) != exp:
                t.bad("mju_equal3", "threshold mjMINVAL | difference %g expected %d" % (abs(b[1] - a[1]), exp), rp)
            t.done("mju_equal3", rp, nontrivial=True)
            r = t.f([e, 0, 0])
            got = t.mju_normalize3(r)
            exp = np.array([1.0, 0, 0])
            if not eq(r, exp) or rel(got, e) > 1e-15:
                t.bad("mju_normalize3", "tiny/small vector | got %r" % (r,), {"a": [e, 0, 0]})
            t.done("mju_normalize3", rp, nontrivial=True)
        for M1 in mats:
            for M2 in mats:
                rp = {"mat1": M1, "mat2": M2}
                for fn, exp in (("mju_mulMatMat3", M1 @ M2), ("mju_mulMatTMat3", M1.T @ M2), ("mju_mulMatMatT3", M1 @ M2.T)):
                    r = t.f(9)
                    getattr(t, fn)(r, M1.ravel().copy(), M2.ravel().copy())
                    if not eq(r, exp.ravel()):
                        t.bad(fn, "result differs from numpy | got %r expected %r" % (r, exp.ravel()), rp)
                    t.done(fn, rp, nontrivial=True)
            r = t.f(9); t.mju_copy9(r, M1.ravel().copy())
            if not eq(r, M1.ravel()):
                t.bad("mju_copy9", "copy differs", {"mat": M1})
            t.done("mju_copy9", {"mat": M1})
        r = t.f(4); t.mju_zero4(r)
        if not eq(r, np.zeros(4)):
            t.bad("mju_zero4", "not zero", {})
        t.done("mju_zero4", {})
        r = t.f(4); t.mju_unit4(r)
        if not eq(r, [1.0, 0, 0, 0]):
            t.bad("mju_unit4", "not (1,0,0,0)", {})
        t.done("mju_unit4", {})
        for q in itertools.product([-2.0, 0.0, 0.5, 1.0], repeat=4):
            q = np.array(q)
            rp = {"q": q}
            r = t.f(4); t.mju_copy4(r, q)
            if not eq(r, q):
                t.bad("mju_copy4", "copy differs", rp)
            t.done("mju_copy4", rp)
            r = t.f(q)
            got = t.mju_normalize4(r)
            nrm = math.sqrt(float(q @ q))
            exp = np.array([1.0, 0, 0, 0]) if nrm < 1e-15 else (q if abs(nrm - 1) <= 1e-15 else q / nrm)
            if rel(got, nrm) > 1e-15 or rel(r, exp) > 1e-15:
                t.bad("mju_normalize4", "wrong norm or direction | got %r %r expected %r %r" % (got, r, nrm, exp), rp)
            t.done("mju_normalize4", rp, nontrivial=True)
        for e in (1e-16, 1e-14):       # |norm-1| <= mjMINVAL leaves the vector untouched (bit-exact)
            q = np.array([1.0 + e, 0, 0, 0])
            r = t.f(q)
            t.mju_normalize4(r)
            exp = q if abs(math.sqrt(float(q @ q)) - 1) <= 1e-15 else q / math.sqrt(float(q @ q))
            if not eq(r, exp):
                t.bad("mju_normalize4", "threshold |norm-1| <= mjMINVAL | got %r expected %r" % (r, exp), {"q": q})
            t.done("mju_normalize4", {"q": q}, nontrivial=True)


# ---------------------------------------------------------------------------------- blas level 2 / 3

def fam_blas23(t, thorough, shard, nshard):
    sizes = list(range(1, 10)) + ([13] if thorough else [])
    k = 0
    for nr in sizes:
        for nc in sizes:
            k += 1
            if k % nshard != shard:
                continue
            M = dym(nr, nc, nr + 2 * nc)
            v, w = dyv(nc, 2), dyv(nr, 5)
            w0 = w.copy()
            w0[::2] = 0                       # zero entries: the `if (tmp)` skips
            rp = {"nr": nr, "nc": nc, "mat": M}
            nt = nc >= 4 or nr >= 4

            def c(fn, got, exp):
                if not eq(got, np.asarray(exp).ravel() if isinstance(got, np.ndarray) else exp):
                    t.bad(fn, "result differs from numpy | got %r expected %r" % (got, exp), rp)
                t.done(fn, rp, nontrivial=nt)
            Mf = M.ravel().copy()
            r = t.f(nr); t.mju_mulMatVec(r, Mf, v, nr, nc); c("mju_mulMatVec", r, M @ v)
            for ww in (w, w0):
                r = t.f(nc); t.mju_mulMatTVec(r, Mf, ww, nr, nc); c("mju_mulMatTVec", r, M.T @ ww)
            r = t.f(nr * nc); t.mju_transpose(r, Mf, nr, nc); c("mju_transpose", r, M.T)
            # copyRows: selected rows
            for rows in ([], [nr - 1], list(range(0, nr, 2)), list(range(nr))):
                base = dym(nr, nc, 9)
                r = t.f(base)
                t.mju_copyRows(r, Mf, np.array(rows, np.int32), len(rows), nc)
                e = base.copy()
                e[rows] = M[rows]
                c("mju_copyRows", r, e)
            # sqrMatTD: M' diag M (diag NULL / dyadic with zeros), lower only / symmetric
            dg = dyv(nr, 3)
            for diag in (None, dg):
                G = M.T @ (M if diag is None else (M * diag[:, None]))
                r = t.f(nc * nc); t.mju_sqrMatTD(r, Mf, diag, nr, nc); c("mju_sqrMatTD", r, G)
                r = t.f(nc * nc); t.mju_sqrMatTD_impl(r, Mf, diag, nr, nc, 1); c("mju_sqrMatTD_impl", r, G)
                r = t.f(nc * nc); t.mju_sqrMatTD_impl(r, Mf, diag, nr, nc, 0); c("mju_sqrMatTD_impl", r, np.tril(G))
            for c2 in ((1, 3, 4, 5, 8, 9) if thorough else (1, 4, 5, 9)):
                B = dym(nc, c2, 7)
                rp = {"r1": nr, "c1": nc, "c2": c2, "mat1": M, "mat2": B}
                r = t.f(nr * c2); t.mju_mulMatMat(r, Mf, B.ravel().copy(), nr, nc, c2); c("mju_mulMatMat", r, M @ B)
                Bt = dym(c2, nc, 8)
                r = t.f(nr * c2); t.mju_mulMatMatT(r, Mf, Bt.ravel().copy(), nr, nc, c2); c("mju_mulMatMatT", r, M @ Bt.T)
                Bm = dym(nr, c2, 6)
                r = t.f(nc * c2); t.mju_mulMatTMat(r, Mf, Bm.ravel().copy(), nr, nc, c2); c("mju_mulMatTMat", r, M.T @ Bm)
        if shard == nr % nshard:
            n = nr
            S = dym(n, n, 3)
            rp = {"n": n, "mat": S}
            a, b = dyv(n, 1), dyv(n, 4)
            got = t.mju_mulVecMatVec(a, S.ravel().copy(), b, n)
            if got != float(a @ S @ b):
                t.bad("mju_mulVecMatVec", "result differs from numpy | got %r expected %r" % (got, float(a @ S @ b)), rp)
            t.done("mju_mulVecMatVec", rp, nontrivial=n >= 4)
            r = t.f(n * n); t.mju_symmetrize(r, S.ravel().copy(), n)
            if not eq(r, (0.5 * (S + S.T)).ravel()):
                t.bad("mju_symmetrize", "result differs from (A+A')/2", rp)
            t.done("mju_symmetrize", rp, nontrivial=n >= 2)
            r = t.f(S); t.mju_symmetrize(r, r, n)          # in place
            if not eq(r, (0.5 * (S + S.T)).ravel()):
                t.bad("mju_symmetrize", "in-place result differs from (A+A')/2", rp)
            t.done("mju_symmetrize", rp, nontrivial=n >= 2)
            r = t.f(n * n); t.mju_eye(r, n)
            if not eq(r, np.eye(n).ravel()):
                t.bad("mju_eye", "not the identity", rp)
            t.done("mju_eye", rp)


# ---------------------------------------------------------------------------------- dense Cholesky

TOL_BACK = 1e-11     # backward error of factor / solve pairs           [observed <= 4e-16]
TOL_FACT = 1e-11     # |LL' - A| / |A|                                  [observed <= 5e-16]


def fam_chol(t, thorough, shard, nshard):
    for n in range(1, 10 if not thorough else 14):
        if n % nshard != shard:
            continue
        for name, Am in spd_family(n):
            rp = {"n": n, "family": name, "A": Am}
            Lm = t.f(Am)
            rank = t.mju_cholFactor(Lm, n, 1e-15)
            Ld = np.tril(Lm.reshape(n, n))
            cond = np.linalg.cond(Am)
            if cond < 1e13:
                if rank != n:
                    t.bad("mju_cholFactor", "rank %d != n for an SPD matrix (cond %.3g)" % (rank, cond), rp)
                e = rel(Ld @ Ld.T, Am)
                note(t.part, "cholFactor", e)
                if e > TOL_FACT:
                    t.bad("mju_cholFactor", "L L' != A | rel err %.3g cond %.3g" % (e, cond), rp)
                if not eq(np.triu(Lm.reshape(n, n), 1), np.triu(Am, 1)):
                    t.bad("mju_cholFactor", "strict upper triangle was modified", rp)
            else:
                t.part.add("skipped_ill_conditioned", 1)
            t.done("mju_cholFactor", rp, nontrivial=n >= 4)
            if cond >= 1e13 or rank != n:
                continue
            for bs in range(2):
                b = dyv(n, bs) + (1.0 if bs else 0.0)
                x = t.f(n)
                t.mju_cholSolve(x, Lm, b, n)
                e = backward_err(Am, x, b)
                note(t.part, "cholSolve", e)
                if e > TOL_BACK:
                    t.bad("mju_cholSolve", "A x != b | backward err %.3g cond %.3g" % (e, cond), dict(rp, b=b))
                t.done("mju_cholSolve", rp, nontrivial=n >= 4)
                y = t.f(b)
                t.mju_cholSolve(y, Lm, y, n)                 # in place
                if not eq(x, y):
                    t.bad("mju_cholSolve", "in-place solve differs from out-of-place solve", dict(rp, b=b))
                t.done("mju_cholSolve", rp)
            # rank-one update / downdate vs refactorisation
            if cond > 1e6:
                continue
            sc = math.sqrt(np.min(np.linalg.eigvalsh(Am)))
            xs = [dyv(n, 2), np.eye(n)[n - 1] * 0.5, np.eye(n)[0] * 0.5, np.where(np.arange(n) % 2, 0.0, 0.5)]
            for xi, x0 in enumerate(xs):
                for plus in (1, 0):
                    xv = x0 * (1.0 if plus else 0.5 * sc / max(np.linalg.norm(x0), 1e-300))
                    B = Am + np.outer(xv, xv) * (1 if plus else -1)
                    L2 = t.f(Lm.copy())
                    xw = t.f(xv)
                    rank2 = t.mju_cholUpdate(L2, xw, n, plus)
                    Lu = np.tril(L2.reshape(n, n))
                    e = rel(Lu @ Lu.T, B)
                    rpu = dict(rp, x=xv, flg_plus=plus)
                    note(t.part, "cholUpdate", e / max(np.linalg.cond(B) * 1e-3, 1.0))
                    if rank2 != n or e > 1e-12 * max(np.linalg.cond(B), 100.0):
                        t.bad("mju_cholUpdate", "updated factor != chol(A %s xx') | rank %d rel err %.3g cond %.3g"
                              % ("+" if plus else "-", rank2, e, np.linalg.cond(B)), rpu)
                    t.done("mju_cholUpdate", rpu, nontrivial=bool(np.count_nonzero(xv) not in (0, n)) or n >= 4)
            # downdate that makes the matrix indefinite: rank must drop
            ev, V = np.linalg.eigh(Am)
            xv = V[:, -1] * math.sqrt(ev[-1]) * 1.5
            L2 = t.f(Lm.copy())
            xw = t.f(xv)
            rank2 = t.mju_cholUpdate(L2, xw, n, 0)
            if rank2 >= n:
                t.bad("mju_cholUpdate", "downdate to an indefinite matrix must report rank < n | rank %d" % rank2, dict(rp, x=xv, flg_plus=0))
            t.done("mju_cholUpdate", rp, nontrivial=True)
        # rank-deficient PSD: A = B B' with B = first r columns of a unit lower-triangular dyadic matrix
        U = np.tril(dym(n, n, 2), -1) + np.eye(n)
        for r_ in range(0, n):
            Bm = U[:, :r_]
            Am = Bm @ Bm.T
            rp = {"n": n, "family": "psd rank %d" % r_, "A": Am}
            Lm = t.f(Am)
            rank = t.mju_cholFactor(Lm, n, 1e-10)
            Ld = np.tril(Lm.reshape(n, n))
            exp = Am + np.diag([0.0] * r_ + [1e-10] * (n - r_))
            if rank != r_ or rel(Ld @ Ld.T, exp) > 1e-9:
                t.bad("mju_cholFactor", "rank-deficient input: rank %d expected %d, or deficient pivots not replaced by mindiag" % (rank, r_), rp)
            t.done("mju_cholFactor", rp, nontrivial=True)


# ---------------------------------------------------------------------------------- band-dense

def band_mask(nt, nb, nd):
    ns = nt - nd
    Mk = np.zeros((nt, nt), bool)
    for i in range(nt):
        for j in range(i + 1):
            if i >= ns or i - j < nb:
                Mk[i, j] = True
    return Mk | Mk.T


def fam_band(t, thorough, shard, nshard):
    NT = 8 if thorough else 6
    k = 0
    for nt in range(1, NT + 1):
        for nd in range(0, nt + 1):
            for nb in range(1 if nd < nt else 0, (nt - nd) + 1 if nd < nt else 1):
                # nband in 1..nsparse for layouts with a sparse part; nband = 0 allowed when everything is dense
                k += 1
                if k % nshard != shard:
                    continue
                ns = nt - nd
                Mk = band_mask(nt, nb, nd)
                S = np.array([[dy(2 * i + 3 * j + i * j) * 0.5 for j in range(nt)] for i in range(nt)])
                S = np.where(Mk, 0.5 * (S + S.T), 0.0)
                np.fill_diagonal(S, 0)
                S += np.diag(np.sum(np.abs(S), axis=1) + 1 + 0.25 * np.arange(nt))
                size = ns * nb + nd * nt
                rp = {"ntotal": nt, "nband": nb, "ndense": nd, "A": S}
                nt_ = nd > 0 and ns > 0
                band = t.f(np.full(size, SENT / 2))
                t.mju_dense2Band(band, S.ravel().copy(), nt, nb, nd)
                # expected band image (untouched cells keep their initial value)
                expb = np.full(size, SENT / 2)
                for i in range(ns):
                    for j in range(max(0, i - nb + 1), i + 1):
                        expb[i * nb + nb - 1 - (i - j)] = S[i, j]
                for i in range(ns, nt):
                    for j in range(i + 1):
                        expb[ns * nb + (i - ns) * nt + j] = S[i, j]
                if not eq(band, expb):
                    t.bad("mju_dense2Band", "band image differs from the documented layout (or untouched cells written)", rp)
                t.done("mju_dense2Band", rp, nontrivial=nt_)
                band = expb.copy()
                band[band == SENT / 2] = 99.0            # garbage in the never-touched cells
                for i in range(nt):
                    a = t.mju_bandDiag(i, nt, nb, nd)
                    if not (0 <= a < size) or band[a] != S[i, i]:
                        t.bad("mju_bandDiag", "address of diagonal %d is %d" % (i, a), rp)
                    t.done("mju_bandDiag", rp)
                for sym in (0, 1):
                    r = t.f(nt * nt)
                    t.mju_band2Dense(r, band, nt, nb, nd, bool(sym))
                    if not eq(r, (S if sym else np.tril(S)).ravel()):
                        t.bad("mju_band2Dense", "round trip dense->band->dense differs (flg_sym=%d)" % sym, rp)
                    t.done("mju_band2Dense", rp, nontrivial=nt_)
                    for nvec in (1, 2):
                        V = np.array([dyv(nt, 1 + 4 * q) for q in range(nvec)])
                        r = t.f(nt * nvec)
                        t.mju_bandMulMatVec(r, band, V.ravel().copy(), nt, nb, nd, nvec, bool(sym))
                        exp = ((S if sym else np.tril(S)) @ V.T).T
                        if not eq(r, exp.ravel()):
                            t.bad("mju_bandMulMatVec", "product differs from dense (flg_sym=%d nvec=%d) | got %r expected %r"
                                  % (sym, nvec, r, exp.ravel()), rp)
                        t.done("mju_bandMulMatVec", rp, nontrivial=nt_)
                for da, dm in ((0.0, 0.0), (0.5, 0.25)):
                    fb = t.f(band.copy())
                    ret = t.mju_cholFactorBand(fb, nt, nb, nd, da, dm)
                    Ld = t.f(nt * nt)
                    t.mju_band2Dense(Ld, fb, nt, nb, nd, False)
                    Ld = Ld.reshape(nt, nt)
                    B = S + da * np.eye(nt) + dm * np.diag(np.diag(S))
                    e = rel(Ld @ Ld.T, B)
                    rpf = dict(rp, diagadd=da, diagmul=dm)
                    note(t.part, "cholFactorBand", e)
                    if e > TOL_FACT:
                        t.bad("mju_cholFactorBand", "L L' != A + diagadd + diagmul*diag | rel err %.3g" % e, rpf)
                    piv = np.min(np.diag(Ld)) ** 2
                    if not (abs(ret - piv) <= 1e-12 * piv or abs(ret - math.sqrt(piv)) <= 1e-12 * math.sqrt(piv)):
                        t.bad("mju_cholFactorBand", "return value %.17g is not the minimum pivot (%.17g)" % (ret, piv), rpf)
                    if np.any(fb[expb == SENT / 2] != 99.0):
                        t.bad("mju_cholFactorBand", "wrote cells documented as never touched", rpf)
                    t.done("mju_cholFactorBand", rpf, nontrivial=nt_)
                    b = dyv(nt, 3) + 1
                    x = t.f(nt)
                    t.mju_cholSolveBand(x, fb, b, nt, nb, nd)
                    e = backward_err(B, x, b)
                    note(t.part, "cholSolveBand", e)
                    if e > TOL_BACK:
                        t.bad("mju_cholSolveBand", "A x != b | backward err %.3g" % e, rpf)
                    y = t.f(b)
                    t.mju_cholSolveBand(y, fb, y, nt, nb, nd)
                    if not eq(x, y):
                        t.bad("mju_cholSolveBand", "in-place solve differs from out-of-place solve", rpf)
                    t.done("mju_cholSolveBand", rpf, 2, nontrivial=nt_)
                # rank deficient: zero out one row/column => returns 0
                for z in sorted({0, nt - 1, ns - 1 if ns else 0}):
                    Sz = S.copy()
                    Sz[z, :] = 0
                    Sz[:, z] = 0
                    bz = t.f(size)
                    t.mju_dense2Band(bz, Sz.ravel().copy(), nt, nb, nd)
                    ret = t.mju_cholFactorBand(bz, nt, nb, nd, 0.0, 0.0)
                    if ret != 0:
                        t.bad("mju_cholFactorBand", "rank-deficient matrix (zero row %d) must return 0, got %r" % (z, ret), dict(rp, A=Sz))
                    t.done("mju_cholFactorBand", rp, 2, nontrivial=True)


# ---------------------------------------------------------------------------------- dense LU, solve3

def lu_family(n):
    out = []
    Ad = dym(n, n, 1) + np.diag(4.0 + np.arange(n))
    out.append(("diagdom", Ad))
    P = np.eye(n)[::-1]
    out.append(("antidiag", P * (1.0 + np.arange(n))[:, None]))                 # needs pivoting in every column
    out.append(("needs pivoting", (dym(n, n, 2) + np.diag(3.0 + np.arange(n)))[np.roll(np.arange(n), 1)]))
    idx = np.arange(n)
    out.append(("vandermonde", np.vander(1.0 + 0.25 * idx, n, increasing=True)))
    out.append(("hilbert+I", 1.0 / (idx[:, None] + idx[None, :] + 1.0) + np.eye(n) * 0.1 * (-1.0) ** idx))
    return out


def fam_lu(t, thorough, shard, nshard):
    for n in range(1, 10 if not thorough else 13):
        if n % nshard != shard:
            continue
        for name, Am in lu_family(n):
            rp = {"n": n, "family": name, "A": Am}
            LU = t.f(Am)
            piv = t.i(n)
            ok = t.mju_factorLU(LU, n, piv)
            cond = np.linalg.cond(Am)
            if ok != 1:
                t.bad("mju_factorLU", "nonsingular matrix reported singular (cond %.3g)" % cond, rp)
                continue
            LUm = LU.reshape(n, n)
            Lm, Um = np.tril(LUm, -1) + np.eye(n), np.triu(LUm)
            PA = Am.copy()
            for kk in range(n):
                if not (kk <= piv[kk] < n):
                    t.bad("mju_factorLU", "pivot[%d] = %d out of range" % (kk, piv[kk]), rp)
                    break
                PA[[kk, piv[kk]]] = PA[[piv[kk], kk]]
            e = rel(Lm @ Um, PA)
            note(t.part, "factorLU", e)
            if e > TOL_FACT or np.max(np.abs(Lm)) > 1 + 1e-12:
                t.bad("mju_factorLU", "L U != P A or |L| > 1 (no partial pivoting) | rel err %.3g max|L| %.3g" % (e, np.max(np.abs(Lm))), rp)
            t.done("mju_factorLU", rp, nontrivial=name != "diagdom")
            for bs in range(2):
                b = dyv(n, 3 * bs) + 0.5
                x = t.f(n)
                t.mju_solveLU(x, LU, b, piv, n)
                e = backward_err(Am, x, b)
                note(t.part, "solveLU", e)
                if e > TOL_BACK * 10:
                    t.bad("mju_solveLU", "A x != b | backward err %.3g cond %.3g" % (e, cond), dict(rp, b=b))
                t.done("mju_solveLU", rp, nontrivial=name != "diagdom")
            if n == 6:
                LU6 = t.f(Am)
                piv6 = t.i(6)
                ok6 = t.mju_factorLU6(LU6, piv6)
                x6 = t.f(6)
                t.mju_solveLU6(x6, LU6, b, piv6)
                if ok6 != ok or not eq(LU6, LU) or not eq(piv6, piv) or not eq(x6, x):
                    t.bad("mju_factorLU6", "6x6 specialisation is not bit-identical to mju_factorLU / mju_solveLU", rp)
                t.done("mju_factorLU6", rp, nontrivial=True)
                t.done("mju_solveLU6", rp, nontrivial=True)
        # singular: duplicate row, zero column
        for kind in ("zero column", "duplicate row"):
            Am = dym(n, n, 1) + np.diag(4.0 + np.arange(n))
            if kind == "zero column":
                Am[:, n // 2] = 0
            elif n > 1:
                Am[n - 1] = Am[0]
            else:
                continue
            LU = t.f(Am)
            piv = t.i(n)
            ok = t.mju_factorLU(LU, n, piv)
            if ok != 0:
                t.bad("mju_factorLU", "singular matrix (%s) must return 0" % kind, {"n": n, "A": Am})
            t.done("mju_factorLU", {"n": n, "A": Am}, nontrivial=True)
            if n == 6:
                LU = t.f(Am)
                piv = t.i(6)
                if t.mju_factorLU6(LU, piv) != 0:
                    t.bad("mju_factorLU6", "singular matrix (%s) must return 0" % kind, {"A": Am})
                t.done("mju_factorLU6", {"A": Am}, nontrivial=True)
    if shard == 0:
        # mju_solve3: "solve 3x3 linear system A*x = b"
        mats = [(nm, M) for nm, M in lu_family(3)] + [("spd", spd_family(3)[0][1]), ("identity", np.eye(3)),
                                                       ("zero leading pivot", np.array([[0, 1, 0], [1, 0, 0], [0, 0, 1.]])),
                                                       ("zero second pivot", np.array([[1, 1, 0], [1, 1, 1], [0, 1, 1.]]))]
        for name, Am in mats:
            for bs in range(3):
                b = dyv(3, bs) + 0.25
                x = t.f(3)
                t.mju_solve3(x, Am.ravel().copy(), b)
                rp = {"family": name, "A": Am, "b": b}
                needs_pivot = name in ("antidiag", "zero leading pivot", "zero second pivot")
                e = backward_err(Am, x, b) if np.all(np.isfinite(x)) else float("inf")
                if e > TOL_BACK * 100:
                    if needs_pivot:
                        t.part.violation("mju_solve3: nonsingular system with a zero pivot is not solved (no pivoting)",
                                         "[%s build] mju_solve3 returns %r for the nonsingular, perfectly conditioned system A=%s b=%s "
                                         "(Gaussian elimination without pivoting divides by the zero pivot)" % (t.variant, x, Am.tolist(), b.tolist()),
                                         dict(rp, variant=t.variant, function="mju_solve3"))
                    else:
                        t.bad("mju_solve3", "A x != b | backward err %.3g" % e, rp)
                t.done("mju_solve3", rp, nontrivial=True)


# ---------------------------------------------------------------------------------- eig3

def fam_eig3(t, thorough, shard, nshard):
    from ..mjutil import quat2mat
    lams = [(3.0, 2.0, 1.0), (1.0, 2.0, 3.0), (2.0, 2.0, 1.0), (2.0, 1.0, 1.0), (1.0, 2.0, 1.0), (1.0, 1.0, 1.0), (0.0, 0.0, 0.0),
            (1.0, 0.0, -1.0), (-1.0, -2.0, -3.0), (1.0, 1.0 + 1e-9, 1.0 - 1e-9), (5.0, 1e-3, 1e-6), (1.0, 1.0, 0.0)]
    quats = [(1.0, 0, 0, 0), (math.sqrt(.5), math.sqrt(.5), 0, 0), (math.sqrt(.5), 0, math.sqrt(.5), 0), (math.sqrt(.5), 0, 0, math.sqrt(.5)),
             (0.5, 0.5, 0.5, 0.5), (0.8, 0.2, -0.4, 0.4), (0.1, -0.7, 0.5, 0.5), (math.cos(5e-9), math.sin(5e-9), 0, 0),
             (math.cos(0.3), 0, 0, math.sin(0.3)), (0, 1.0, 0, 0), (0.3, 0.1, 0.9, -0.3)]
    scales = [1.0, 1e-6, 1e6] if thorough else [1.0, 1e-3, 1e3]
    k = 0
    for lam in lams:
        for q in quats:
            for sc in scales:
                k += 1
                if k % nshard != shard:
                    continue
                qn = np.array(q) / np.linalg.norm(q)
                R = quat2mat(qn)
                Mx = (R * (np.array(lam) * sc)) @ R.T
                Mx = 0.5 * (Mx + Mx.T)
                _eig_case(t, Mx, {"lambda": lam, "quat": q, "scale": sc, "mat": Mx}, len(set(lam)) < 3)
    if shard == 0:
        for Mx in (np.array([[0, 1, 0], [1, 0, 0], [0, 0, 0.]]), np.array([[0, 0, 1], [0, 0, 0], [1, 0, 0.]]),
                   np.array([[0, 0, 0], [0, 0, 1], [0, 1, 0.]]), np.array([[1, 1, 1], [1, 1, 1], [1, 1, 1.]]),
                   np.array([[2, -1, 0], [-1, 2, -1], [0, -1, 2.]]), np.array([[1, 1e-13, 0], [1e-13, 1, 0], [0, 0, 1.]]),
                   np.array([[2, 1e-6, 0], [1e-6, 1, 0], [0, 0, 0.]]), np.array([[2, 1.4e-6, 1.4e-6], [1.4e-6, 1, 1.4e-6], [1.4e-6, 1.4e-6, 0.]]),
                   np.array([[2e3, 1e-3, 0], [1e-3, 1e3, 0], [0, 0, 0.]]), np.array([[2, 2e-6, 0], [2e-6, 1, 0], [0, 0, 0.]])):
            _eig_case(t, Mx, {"mat": Mx}, True)


# mju_eig3 stops rotating when the off-diagonal is < 1e-12 (absolute) OR when the cosine of the next Jacobi rotation is
# within 1e-12 of 1, i.e. the rotation angle is < 1.4e-6: eigenvectors are accurate to ~1.4e-6 rad by design, eigenvalues
# to the square of that.  The lattice contains matrices sitting right at that stopping rule (observed 1.4e-6).
TOL_EIG_VEC = 2e-4     # reconstruction |V diag V' - A| / max(|A|, 1)      [observed <= 1.4e-6, by design]
TOL_EIG_VAL = 1e-9     # eigenvalues vs numpy / max(|A|, 1)                [observed <= 3e-12]


def _eig_case(t, Mx, rp, repeated):
    from ..mjutil import quat2mat
    ev, V, q = t.f(3), t.f(9), t.f(4)
    it = t.mju_eig3(ev, V, q, Mx.ravel().copy())
    Vm = V.reshape(3, 3)
    sc = max(np.max(np.abs(Mx)), 1.0)
    if it >= 500:
        # cyclic Jacobi on a symmetric 3x3 matrix converges; hitting the cap is only counted, but the returned
        # decomposition is still judged (a wrong result after 500 rotations is not a tolerance question)
        t.part.add("eig3_iteration_cap_reached", 1)
    e_orth = float(np.max(np.abs(Vm.T @ Vm - np.eye(3))))
    e_rec = float(np.max(np.abs((Vm * ev) @ Vm.T - Mx))) / sc
    e_q = float(np.max(np.abs(quat2mat(q) - Vm)))
    e_qn = abs(float(q @ q) - 1.0)
    ref = np.sort(np.linalg.eigvalsh(Mx))[::-1]
    e_val = float(np.max(np.abs(np.sort(ev)[::-1] - ref))) / sc
    note(t.part, "eig3_orth", e_orth)
    note(t.part, "eig3_recon", e_rec)
    if e_orth > 1e-12 or e_qn > 1e-12 or e_q > 1e-12 or abs(np.linalg.det(Vm) - 1) > 1e-12:
        t.bad("mju_eig3", "eigvec not orthonormal / quat not unit / quat2Mat(quat) != eigvec | %.3g %.3g %.3g" % (e_orth, e_qn, e_q), rp)
    note(t.part, "eig3_eigval", e_val)
    if e_rec > TOL_EIG_VEC or e_val > TOL_EIG_VAL:
        t.bad("mju_eig3", "eigvec diag(eigval) eigvec' != mat or eigenvalues wrong | recon %.3g eigval %.3g" % (e_rec, e_val), rp)
    if not (ev[0] >= ev[1] - 2e-12 and ev[1] >= ev[2] - 2e-12):
        t.bad("mju_eig3", "eigenvalues not in decreasing order | %r" % (ev,), rp)
    t.done("mju_eig3", rp, nontrivial=repeated)


# ---------------------------------------------------------------------------------- QCQP

def fam_qcqp(t, thorough, shard, nshard):
    k = 0
    for n in (2, 3, 4, 5):
        fams = [(nm, M) for nm, M in spd_family(n) if nm in ("diagdom", "identity*4", "graded100", "tridiag", "hilbert+1e-6")]
        for name, Am in fams:
            for bs in range(3):
                b = (dyv(n, bs) + 0.25) * (1.0, 10.0, 0.1)[bs]
                for ds in range(2):
                    dvec = np.array([1.0] * n) if ds == 0 else np.array([0.5 + 0.25 * i for i in range(n)])
                    xu = -np.linalg.solve(Am, b)
                    nu = math.sqrt(float(np.sum((xu / dvec) ** 2)))
                    for ratio in (0.5, 0.999, 1.001, 2.0, 10.0, 100.0):
                        k += 1
                        if k % nshard != shard:
                            continue
                        r = nu / ratio
                        rp = {"n": n, "family": name, "A": Am, "b": b, "d": dvec, "r": r}
                        fns = ["mju_QCQP"] + (["mju_QCQP2"] if n == 2 else []) + (["mju_QCQP3"] if n == 3 else [])
                        for fn in fns:
                            x = t.f(n)
                            if fn == "mju_QCQP":
                                flag = t.mju_QCQP(x, Am.ravel().copy(), b, dvec, r, n)
                            else:
                                flag = getattr(t, fn)(x, Am.ravel().copy(), b, dvec, r)
                            _qcqp_check(t, fn, x, flag, Am, b, dvec, r, ratio, rp)


def _qcqp_check(t, fn, x, flag, Am, b, dvec, r, ratio, rp):
    n = len(b)
    g = Am @ x + b                      # gradient of the objective
    y = x / dvec
    ny = math.sqrt(float(y @ y))
    gs = max(np.max(np.abs(b)), 1e-300)
    nontriv = ratio > 1
    if ratio < 1:                       # unconstrained minimiser strictly inside: must be returned, flag 0
        if flag != 0 or np.max(np.abs(g)) > 1e-9 * gs:
            t.bad(fn, "interior optimum: expected flag 0 and A x + b = 0 | flag %d |grad| %.3g" % (flag, np.max(np.abs(g))), rp)
        t.done(fn, rp)
        return
    # constrained: stationarity (A + la D^-2) x + b = 0 with la >= 0 ; then feasibility |x/d| = r
    Dm2 = x / (dvec * dvec)
    la = -float(g @ Dm2) / max(float(Dm2 @ Dm2), 1e-300)
    stat = float(np.max(np.abs(g + la * Dm2))) / gs
    note(t.part, "qcqp_stationarity", stat)
    if stat > 1e-8 or la < -1e-9 * gs:
        t.bad(fn, "KKT stationarity (A + la D^-2) x + b = 0, la >= 0 violated | residual %.3g la %.3g" % (stat, la), rp)
    elif ny > r * (1 + 1e-6) + 1e-9:
        # Newton on the secular equation ran out of its 20 iterations (stationary for a too small multiplier)
        t.part.add("qcqp_not_converged", 1)
    elif ny < r * (1 - 1e-4) - 1e-5 and ratio > 1.01:
        t.bad(fn, "constrained optimum must lie on the boundary | |x/d| %.9g r %.9g" % (ny, r), rp)
    elif ratio > 1.01 and flag != 1:
        t.bad(fn, "constraint active but return value 0", rp)
    t.done(fn, rp, nontrivial=nontriv)


# ---------------------------------------------------------------------------------- boxQP

def fam_boxqp(t, thorough, shard, nshard):
    k = 0
    for n in (1, 2, 3) + ((4,) if thorough else ()):
        fams = [(nm, M) for nm, M in spd_family(n) if nm in ("diagdom", "identity*4", "graded100", "graded10000", "hilbert+1e-6")]
        for name, H in fams:
            Hn = np.tril(H) + np.triu(np.full((n, n), np.nan), 1)         # only the lower triangle may be read
            for act in itertools.product((-1, 0, 1), repeat=n):            # -1 lower, 0 free, +1 upper : every active set
                for case in range(2):
                    lower = np.array([-1.0 - 0.25 * i for i in range(n)]) * (1 + case)
                    upper = np.array([0.5 + 0.5 * i for i in range(n)]) * (1 + case)
                    xs = np.array([lower[i] if a < 0 else upper[i] if a > 0 else (0.25 * lower[i] + 0.75 * upper[i] if i % 2 else 0.6 * lower[i] + 0.4 * upper[i])
                                   for i, a in enumerate(act)])
                    mu = np.array([(1.0 + 0.5 * i) * a for i, a in enumerate(act)], float) * (1.0 if case == 0 else 0.01)
                    # optimum: H x* + g = mu with mu_i > 0 at the lower bound (gradient pushes down), < 0 at the upper bound
                    g = -H @ xs - np.where(np.array(act) < 0, -np.abs(mu), np.abs(mu)) * (np.array(act) != 0)
                    grad = H @ xs + g
                    for ws, warm in enumerate(_warm_starts(n, lower, upper, xs)):
                        k += 1
                        if k % nshard != shard:
                            continue
                        rp = {"n": n, "family": name, "H": H, "g": g, "lower": lower, "upper": upper, "active": act, "warmstart": warm, "x_opt": xs}
                        res = t.f(warm)
                        R = t.f(n * (n + 7))
                        index = t.i(n)
                        log = np.zeros(4000, np.uint8)
                        nfree = t.mju_boxQPoption(res, R, index, Hn.ravel().copy(), g, n, lower, upper, 100, 1e-16, 0.5, 1e-22, 0.1,
                                                  log.ctypes.data, 4000)
                        msg = bytes(log).split(b"\0")[0].decode(errors="replace")
                        _boxqp_check(t, "mju_boxQPoption", res, R, index, nfree, msg, H, g, lower, upper, act, xs, rp)
                        if ws == 0:
                            res2 = t.f(warm)
                            R2 = t.f(n * (n + 7))
                            nf2 = t.mju_boxQP(res2, R2, None, Hn.ravel().copy(), g, n, lower, upper)
                            if nf2 != nfree or not eq(res2, res):
                                t.bad("mju_boxQP", "differs from mju_boxQPoption with the documented default options (index == NULL)", rp)
                            t.done("mju_boxQP", rp, nontrivial=any(act))
            # no bounds at all: Newton point; one-sided bounds
            g = dyv(n, 2) + 0.5
            rp = {"n": n, "family": name, "H": H, "g": g}
            res, R, index = t.f(n), t.f(n * (n + 7)), t.i(n)
            nfree = t.mju_boxQP(res, R, index, Hn.ravel().copy(), g, n, None, None)
            if nfree != n or backward_err(H, res, -g) > TOL_BACK or not eq(index, np.arange(n)):
                t.bad("mju_boxQP", "no bounds: expected the Newton point, nfree = n, full index", rp)
            t.done("mju_boxQP", rp)
            xu = -np.linalg.solve(H, g)
            for side in ("lower", "upper"):
                bnd = xu + (0.5 if side == "lower" else -0.5) * (1 + np.arange(n) % 2)
                res, R, index = t.f(np.zeros(n)), t.f(n * (n + 7)), t.i(n)
                lo, up = (bnd, None) if side == "lower" else (None, bnd)
                nfree = t.mju_boxQP(res, R, index, Hn.ravel().copy(), g, n, lo, up)
                gr = H @ res + g
                at = res == bnd
                okk = np.all(res >= bnd - 0 if side == "lower" else res <= bnd)
                kkt = np.all(np.where(at, (gr >= -1e-7) if side == "lower" else (gr <= 1e-7), np.abs(gr) <= 1e-7))
                if nfree < 0 or not okk or not kkt:
                    t.bad("mju_boxQP", "one-sided bounds (%s only): KKT conditions violated | res %r grad %r" % (side, res, gr), dict(rp, bound=bnd))
                t.done("mju_boxQP", rp, nontrivial=True)
    if shard == 0:
        # mju_boxQPmalloc: buffers of the documented sizes, usable by mju_boxQP, freed with mju_free
        import ctypes
        n = 3
        ptrs = [ctypes.c_void_p() for _ in range(7)]
        CALLS["mju_boxQPmalloc"] += 1
        fn = t.lib.mju_boxQPmalloc
        fn(*([ctypes.addressof(p) for p in ptrs[:5]] + [n] + [ctypes.addressof(p) for p in ptrs[5:]]))
        res_p, R_p, idx_p, H_p, g_p, lo_p, up_p = [p.value for p in ptrs]
        rp = {"n": n}
        if not all([res_p, R_p, idx_p, H_p, g_p, lo_p, up_p]):
            t.bad("mju_boxQPmalloc", "returned a NULL pointer", rp)
        else:
            H = spd_family(n)[0][1]
            for p, arr in ((H_p, H.ravel()), (g_p, np.array([1.0, -2.0, 0.5])), (lo_p, -np.ones(n) * 0.1), (up_p, np.ones(n) * 0.1), (res_p, np.zeros(n))):
                ctypes.memmove(p, np.ascontiguousarray(arr, float).ctypes.data, 8 * len(arr))
            ctypes.memset(R_p, 0xAB, 8 * n * (n + 7))          # the whole documented size must be writable
            nf = t.mju_boxQP(res_p, R_p, idx_p, H_p, g_p, n, lo_p, up_p)
            out = np.ctypeslib.as_array(ctypes.cast(res_p, ctypes.POINTER(ctypes.c_double)), (n,)).copy()
            if nf < 0 or np.any(out < -0.1) or np.any(out > 0.1):
                t.bad("mju_boxQPmalloc", "buffers not usable by mju_boxQP | nfree %d res %r" % (nf, out), rp)
            for p in (res_p, R_p, idx_p, H_p, g_p, lo_p, up_p):
                t.base_free(p)
        t.done("mju_boxQPmalloc", rp)
        ptrs = [ctypes.c_void_p() for _ in range(4)]
        fn(ctypes.addressof(ptrs[0]), ctypes.addressof(ptrs[1]), None, ctypes.addressof(ptrs[2]), ctypes.addressof(ptrs[3]), n, None, None)
        if not all(p.value for p in ptrs):
            t.bad("mju_boxQPmalloc", "optional arguments NULL: required pointers not allocated", rp)
        for p in ptrs:
            t.base_free(p.value)
        t.done("mju_boxQPmalloc", rp)


def _warm_starts(n, lower, upper, xs):
    mid = 0.5 * (lower + upper)
    return [mid, xs.copy(), lower.copy(), upper.copy(), lower - 1.0, upper + 3.0, np.where(np.arange(n) % 2, lower, upper)]


def _boxqp_check(t, fn, res, R, index, nfree, msg, H, g, lower, upper, act, xs, rp):
    n = len(g)
    converged = ("Gradient norm smaller" in msg) or ("All dimensions clamped" in msg) or ("No dimensions clamped" in msg)
    if not converged:
        t.part.add("boxqp_not_converged", 1)
        t.part.add("boxqp_status:" + (msg.strip().split("BOXQP:")[-1].split(".")[0].strip() or "?"), 1)
        t.done(fn, rp)
        return
    gr = H @ res + g
    gs = max(np.max(np.abs(g)), 1.0)
    bad = []
    if np.any(res < lower) or np.any(res > upper):
        bad.append("solution outside the box")
    free = [i for i in range(n) if not ((res[i] == lower[i] and gr[i] > 0) or (res[i] == upper[i] and gr[i] < 0))]
    for i in range(n):
        if res[i] == lower[i]:
            if gr[i] < -1e-7 * gs:
                bad.append("gradient negative at a lower bound")
        elif res[i] == upper[i]:
            if gr[i] > 1e-7 * gs:
                bad.append("gradient positive at an upper bound")
        elif abs(gr[i]) > 1e-7 * gs:
            bad.append("gradient non-zero at an interior coordinate")
    e = float(np.max(np.abs(res - xs))) / max(np.max(np.abs(xs)), 1.0)
    note(t.part, "boxqp_solution", e)
    if e > 1e-6:
        bad.append("solution differs from the constructed optimum by %.3g" % e)
    expfree = [i for i, a in enumerate(act) if a == 0]
    if nfree != len(expfree) or list(index[:max(nfree, 0)]) != expfree:
        bad.append("nfree/index %d %r, expected %r" % (nfree, list(index[:max(nfree, 0)]), expfree))
    elif nfree > 0:
        Rm = np.tril(R[:nfree * nfree].reshape(nfree, nfree))
        Hf = H[np.ix_(expfree, expfree)]
        if rel(Rm @ Rm.T, Hf) > 1e-10:
            bad.append("R is not the Cholesky factor of H[free,free]")
    if bad:
        t.bad(fn, "; ".join(sorted(set(bad))) + " | res %r grad %r status %r" % (res, gr, msg.strip()[-80:]), rp)
    t.done(fn, rp, nontrivial=any(act))


# ---------------------------------------------------------------------------------- sparse: conversion / products

def _layouts(V, pat):
    """(name, vals, rownnz, rowadr, colind, ptr offset) for the compressed, uncompressed and offset layouts"""
    out = []
    v, nz, ad, ci = csr(V, pat, "compressed")
    out.append(("compressed", v, nz, ad, ci))
    v, nz, ad, ci = csr(V, pat, "uncompressed")
    out.append(("uncompressed", v, nz, ad, ci))
    return out


def fam_sparse_basic(t, thorough, shard, nshard):
    shapes = [(3, 3), (3, 4)] + ([(4, 3), (2, 5), (4, 4)] if thorough else [])
    k = 0
    for nr, nc in shapes:
        for pat in patterns(nr, nc):
            k += 1
            if k % nshard != shard:
                continue
            V = patval(pat, nr)
            nnz = int(pat.sum())
            rp0 = {"nr": nr, "nc": nc, "pattern": pat.astype(int)}
            empty_row = bool(np.any(pat.sum(axis=1) == 0)) and nnz > 0
            cv, cnz, cad, cci = csr(V, pat, "compressed")
            # dense2sparse with exact / too small buffers
            for room in sorted({nnz, nnz - 1, 0, nnz + 2}):
                if room < 0:
                    continue
                res, rn, ra, ci = t.f(max(room, 1)), t.i(nr), t.i(nr), t.i(max(room, 1))
                ret = t.mju_dense2sparse(res, V.ravel().copy(), nr, nc, rn, ra, ci, room)
                rp = dict(rp0, nnz_buffer=room)
                if room >= nnz and room > 0:
                    if ret != 0 or not (eq(rn, cnz) and eq(ra, cad) and eq(ci[:nnz], cci) and eq(res[:nnz], cv)):
                        t.bad("mju_dense2sparse", "CSR differs from the dense matrix | ret %d" % ret, rp)
                elif ret != 1:
                    t.bad("mju_dense2sparse", "buffer too small (or nnz <= 0) must return 1 | ret %d" % ret, rp)
                t.done("mju_dense2sparse", rp, nontrivial=empty_row)
            v = dyv(nc, 1) + 0.25
            w = dyv(nr, 2)
            w[0] = 0.0 if nr > 1 else w[0]
            sup = supernodes(pat)
            for name, vals, nz, ad, ci in _layouts(V, pat):
                rp = dict(rp0, layout=name)
                nt = empty_row or name != "compressed"
                r = t.f(nr * nc)
                t.mju_sparse2dense(r, vals, nr, nc, nz, ad, ci)
                if not eq(r, V.ravel()):
                    t.bad("mju_sparse2dense", "dense image differs", rp)
                t.done("mju_sparse2dense", rp, nontrivial=nt)
                for rs in (None, sup):
                    r = t.f(nr)
                    t.mju_mulMatVecSparse(r, vals, v, nr, nz, ad, ci, rs)
                    if not eq(r, V @ v):
                        t.bad("mju_mulMatVecSparse", "product differs from dense (rowsuper %s) | got %r expected %r"
                              % ("given" if rs is not None else "NULL", r, V @ v), rp)
                    t.done("mju_mulMatVecSparse", rp, nontrivial=nt or (rs is not None and bool(np.any(sup))))
                r = t.f(nc)
                t.mju_mulMatTVecSparse(r, vals, w, nr, nc, nz, ad, ci)
                if not eq(r, V.T @ w):
                    t.bad("mju_mulMatTVecSparse", "product differs from dense", rp)
                t.done("mju_mulMatTVecSparse", rp, nontrivial=nt)
                rsup = t.i(nr)
                t.mju_superSparse(nr, rsup, nz, ad, ci)
                if not eq(rsup, sup):
                    t.bad("mju_superSparse", "supernodes differ from the definition | got %r expected %r" % (rsup, sup), rp)
                t.done("mju_superSparse", rp, nontrivial=bool(np.any(sup)))
                # transpose (values + pattern, pattern only; with / without supernodes)
                tv, tnz, tad, tci = csr(V.T, pat.T, "compressed")
                tsup = supernodes(pat.T)
                for with_val in (1, 0):
                    for with_sup in (1, 0):
                        res = t.f(max(nnz, 1)) if with_val else None
                        rn, ra, rc = t.i(nc), t.i(nc), t.i(max(nnz, 1))
                        rsu = t.i(nc) if with_sup else None
                        t.mju_transposeSparse(res, vals if with_val else None, nr, nc, rn, ra, rc, rsu, nz, ad, ci)
                        ok = eq(rn, tnz) and eq(ra, tad) and eq(rc[:nnz], tci)
                        if with_val:
                            ok = ok and eq(res[:nnz], tv)
                        if with_sup:
                            ok = ok and eq(rsu, tsup)
                        if not ok:
                            t.bad("mju_transposeSparse", "transposed CSR differs (values %d, supernodes %d)" % (with_val, with_sup), rp)
                        t.done("mju_transposeSparse", rp, nontrivial=nt)
                # row subsets
                for rows in ([], [nr - 1], list(range(0, nr, 2)), list(range(nr))):
                    ra_ = np.array(rows, np.int32)
                    dst = t.f(np.where(vals == SENT, SENT, 9.0))
                    t.mju_copySparse(dst, vals, nz, ad, ra_, len(rows))
                    e = np.where(vals == SENT, SENT, 9.0)
                    for r_ in rows:
                        e[ad[r_]:ad[r_] + nz[r_]] = vals[ad[r_]:ad[r_] + nz[r_]]
                    if not eq(dst, e):
                        t.bad("mju_copySparse", "rows %r" % rows, rp)
                    t.done("mju_copySparse", rp, nontrivial=nt)
                    dst = t.f(vals.copy())
                    t.mju_zeroSparse(dst, nz, ad, ra_, len(rows))
                    e = vals.copy()
                    for r_ in rows:
                        e[ad[r_]:ad[r_] + nz[r_]] = 0
                    if not eq(dst, e):
                        t.bad("mju_zeroSparse", "rows %r" % rows, rp)
                    t.done("mju_zeroSparse", rp, nontrivial=nt)
                # compress
                for minval in (-1.0, 0.0, 0.5):
                    V2 = V.copy()
                    if minval == 0.0 and nnz:
                        rr, cc = np.argwhere(pat)[0]
                        V2[rr, cc] = 0.0                   # explicit zero inside the pattern
                    vals2, nz2, ad2, ci2 = csr(V2, pat, "compressed" if name == "compressed" else "uncompressed")
                    mv, mn, ma, mc = t.f(vals2), t.i(nz2), t.i(ad2), t.i(ci2)
                    ret = t.mju_compressSparse(mv, nr, nc, mn, ma, mc, minval)
                    keep = pat & ((np.abs(V2) > minval) if minval >= 0 else True)
                    ev, en, ea, ec = csr(V2, keep, "compressed")
                    tot = int(keep.sum())
                    if ret != tot or not (eq(mn, en) and eq(ma, ea) and eq(mc[:tot], ec) and eq(mv[:tot], ev)):
                        t.bad("mju_compressSparse", "compressed matrix differs (minval %g) | ret %d expected %d" % (minval, ret, tot), rp)
                    t.done("mju_compressSparse", dict(rp, minval=minval), nontrivial=nt)
            # transpose with a non-zero first row address (engine convention: value/colind pointers pre-offset)
            if nnz:
                lead = 2
                vals, nz, ad, ci = csr(V, pat, "compressed", lead=lead)
                tv, tnz, tad, tci = csr(V.T, pat.T, "compressed")
                res, rn, ra, rc = t.f(nnz), t.i(nc), t.i(nc), t.i(nnz)
                t.mju_transposeSparse(res.ctypes.data, vals.ctypes.data + 8 * lead, nr, nc, rn, ra, rc, None, nz, ad, ci.ctypes.data + 4 * lead)
                if not (eq(rn, tnz) and eq(ra, tad) and eq(rc, tci) and eq(res, tv)):
                    t.bad("mju_transposeSparse", "rowadr[0] != 0 with pre-offset pointers: transposed CSR differs", dict(rp0, lead=lead))
                t.done("mju_transposeSparse", rp0, nontrivial=True)
    if shard == 0:
        # sparse dot products: every nnz 0..9(13), supernode sizes 1..9 for the X3 blocking of mju_mulMatVecSparse
        for nnz in list(range(0, 10)) + [12, 13]:
            n = nnz + 3
            ind = np.array([(2 * j + (j % 3 == 0)) % n for j in range(nnz)], np.int32)
            ind = np.array(sorted(set(ind.tolist())), np.int32)
            ind = np.arange(0, 2 * nnz, 2, dtype=np.int32) if len(ind) != nnz else ind
            n = int(max(ind.max(initial=0) + 1, 1))
            a0, a1, a2 = dyv(nnz, 1) + 0.25, dyv(nnz, 4), dyv(nnz, 6) - 0.5
            b = dyv(n, 2) + 0.5
            rp = {"nnz": nnz, "ind": ind, "vec1": a0, "vec2": b}
            exp = float(np.sum(a0 * b[ind])) if nnz else 0.0
            got = t.c23_dotSparse(a0, b, nnz, ind)
            if got != exp:
                t.bad("mju_dotSparse(inline)", "differs from numpy | got %r expected %r" % (got, exp), rp)
            t.done("mju_dotSparse(inline)", rp, nontrivial=nnz >= 4)
            r0, r1, r2 = t.f(1), t.f(1), t.f(1)
            t.mju_dotSparseX3(r0, r1, r2, a0, a1, a2, b, nnz, ind)
            e = [float(np.sum(x * b[ind])) if nnz else 0.0 for x in (a0, a1, a2)]
            if [r0[0], r1[0], r2[0]] != e:
                t.bad("mju_dotSparseX3", "differs from numpy | got %r expected %r" % ([r0[0], r1[0], r2[0]], e), rp)
            t.done("mju_dotSparseX3", rp, nontrivial=nnz >= 4)
            for nrow in range(1, 10):                     # nrow identical-pattern rows = one supernode (+ a different last row)
                pat = np.zeros((nrow + 1, n), bool)
                pat[:nrow, ind] = True
                pat[nrow, :1] = True
                V = patval(pat, nnz)
                vals, nz, ad, ci = csr(V, pat)
                sup = supernodes(pat)
                r = t.f(nrow + 1)
                t.mju_mulMatVecSparse(r, vals, b, nrow + 1, nz, ad, ci, sup)
                if not eq(r, V @ b):
                    t.bad("mju_mulMatVecSparse", "supernode of %d rows, nnz %d: product differs | got %r expected %r" % (nrow, nnz, r, V @ b),
                          {"pattern": pat.astype(int), "vec": b})
                t.done("mju_mulMatVecSparse", rp, nontrivial=nrow >= 3)


# ---------------------------------------------------------------------------------- sparse: index-set algebra

def fam_sparse_combine(t, thorough, shard, nshard):
    N = 5 if thorough else 4
    k = 0
    for n in range(0, N + 1):
        subs = [list(c) for m in range(n + 1) for c in itertools.combinations(range(n), m)]
        for A_ in subs:
            for B_ in subs:
                k += 1
                if k % nshard != shard:
                    continue
                _combine_case(t, n, A_, B_)
    if shard == 0:
        # long identical / almost identical index vectors: every residue and every position of the AVX compare
        for m in range(0, 14):
            base = list(range(0, 2 * m, 2))
            _combine_case(t, 2 * m + 2, base, base)
            for pos in range(m):
                other = list(base)
                other[pos] += 1
                _combine_case(t, 2 * m + 2, base, other)
                ia, ib = np.array(base, np.int32), np.array(other, np.int32)
                if t.c23_compare(ia, ib, m) != 0:
                    t.bad("mju_compare(inline)", "vectors differing at position %d of %d compare equal" % (pos, m), {"a": base, "b": other})
                t.done("mju_compare(inline)", {"a": base, "b": other}, nontrivial=m >= 4)
            ia = np.array(base, np.int32)
            if t.c23_compare(ia, ia.copy(), m) != 1:
                t.bad("mju_compare(inline)", "identical vectors of length %d compare different" % m, {"a": base})
            t.done("mju_compare(inline)", {"a": base}, nontrivial=m >= 4)


def _combine_case(t, n, A_, B_):
    ia, ib = np.array(A_, np.int32), np.array(B_, np.int32)
    na, nb = len(A_), len(B_)
    U_ = sorted(set(A_) | set(B_))
    va = np.array([nzv(3 * x + 1) for x in A_])
    vb = np.array([nzv(5 * x + 2) for x in B_])
    da, db = np.zeros(n + 1), np.zeros(n + 1)
    da[A_] = va
    db[B_] = vb
    rp = {"n": n, "dst_ind": A_, "src_ind": B_}
    nt = bool(set(A_) - set(B_)) and bool(set(B_) - set(A_))
    a_, b_ = 0.5, -1.5

    def c(fn, ok, what=""):
        if not ok:
            t.bad(fn, "differs from the dense definition %s" % what, rp)
        t.done(fn, rp, nontrivial=nt)
    c("mju_combineSparseCount", t.mju_combineSparseCount(na, nb, ia, ib) == len(U_))
    for aa in (a_, 1.0):
        d = t.f(va)
        t.mju_combineSparseInc(d, vb, n, aa, b_, na, nb, ia, ib)
        c("mju_combineSparseInc", eq(d, (aa * da + b_ * db)[A_] if na else np.zeros(0)), "(a=%g)" % aa)
        d = t.f(np.concatenate([va, np.full(len(U_) - na, SENT / 4)]))
        di = t.i(np.concatenate([ia, np.full(len(U_) - na, ISENT // 4, np.int32)]).astype(np.int32))
        ret = t.c23_combineSparse(d, vb, aa, b_, na, nb, di, ib)
        c("mju_combineSparse(inline)", ret == len(U_) and eq(di, U_) and eq(d, (aa * da + b_ * db)[U_] if U_ else np.zeros(0)), "(a=%g)" % aa)
    d = t.f(va)
    t.mju_addToSclSparseInc(d, vb, na, ia, nb, ib, b_)
    c("mju_addToSclSparseInc", eq(d, (da + b_ * db)[A_] if na else np.zeros(0)))
    exp = float(np.sum(da * db))
    c("mju_dotSparse2", t.mju_dotSparse2(va, ia, na, vb, ib, nb) == exp)
    r = t.i(max(len(U_), 1))
    ret = t.mju_addChains(r, n, na, nb, ia, ib)
    c("mju_addChains", ret == len(U_) and eq(r[:ret], U_))
    r = t.i(max(na + nb, 1))
    ret = t.c23_mergeSorted(r, ia, na, ib, nb)
    c("mj_mergeSorted(inline)", ret == len(U_) and eq(r[:ret], U_))
    c("mju_compare(inline)", (t.c23_compare(ia, ib, na) == int(A_ == B_)) if na == nb else True)
    for nrow in (1, 2, 3):
        # dst / src are nrow x nnz blocks (row-major, shared column index); result block is nrow x |union|
        Da = np.array([[nzv(3 * x + 7 * q + 1) for x in A_] for q in range(nrow)]).reshape(nrow, na)
        Db = np.array([[nzv(5 * x + 11 * q + 2) for x in B_] for q in range(nrow)]).reshape(nrow, nb)
        Fa, Fb = np.zeros((nrow, n + 1)), np.zeros((nrow, n + 1))
        Fa[:, A_] = Da
        Fb[:, B_] = Db
        nu = len(U_)
        dst = t.f(np.concatenate([Da.ravel(), np.full(nrow * (nu - na), SENT / 4)]))
        di = t.i(np.concatenate([ia, np.full(nu - na, ISENT // 4, np.int32)]).astype(np.int32))
        buf, bi = t.f(max(nrow * nu, 1)), t.i(max(nu, 1))
        ret = t.mju_addToSparseMat(dst, Db.ravel().copy(), n, nrow, b_, na, nb, di, ib, buf, bi)
        c("mju_addToSparseMat", ret == nu and eq(di, U_) and eq(dst, (Fa + b_ * Fb)[:, U_].ravel()), "(nrow=%d)" % nrow)


def fam_sparse_addmat(t, thorough, shard, nshard):
    nr, nc = (2, 3)
    k = 0
    pats = list(patterns(nr, nc))
    for pa in pats:
        for pb in pats:
            k += 1
            if k % nshard != shard:
                continue
            Va, Vb = patval(pa, 1), patval(pb, 5) * 2
            room = nc
            va, na, aa, ca = csr(Va, pa, "uncompressed")
            vb, nb, ab, cb = csr(Vb, pb, "compressed")
            dv, dn, dadr, dc = t.f(va), t.i(na), t.i(aa), t.i(ca)
            t.mju_addToMatSparse(dv, dn, dadr, dc, nr, vb, nb, ab, cb)
            got, err = csr_dense(dv, dn, dadr, dc, nr, nc)
            rp = {"dst_pattern": pa.astype(int), "M_pattern": pb.astype(int)}
            if err or not eq(got, Va + Vb) or not eq(dn, (pa | pb).sum(axis=1)) or not rows_sorted(dn, dadr, dc):
                t.bad("mju_addToMatSparse", "dst + M differs from dense (or pattern not the sorted union) %s" % (err or ""), rp)
            t.done("mju_addToMatSparse", rp, nontrivial=bool(np.any(pa & ~pb) and np.any(pb & ~pa)))


# ---------------------------------------------------------------------------------- sparse: symmetric / Cholesky

def sym_patterns(n):
    pairs = [(i, j) for i in range(n) for j in range(i)]
    for bits in range(1 << len(pairs)):
        P = np.eye(n, dtype=bool)
        for b, (i, j) in enumerate(pairs):
            if (bits >> b) & 1:
                P[i, j] = P[j, i] = True
        yield P


def sym_spd(P, seed=0):
    n = len(P)
    S = np.zeros((n, n))
    for i in range(n):
        for j in range(i):
            if P[i, j]:
                S[i, j] = S[j, i] = nzv(seed + 3 * i + 2 * j) * 0.5
    S += np.diag(np.sum(np.abs(S), axis=1) + 1 + 0.25 * np.arange(n))
    return S


def rev_fill(P):
    """pattern of L in the reverse-order factorisation A = L'L (eliminate rows n-1 .. 0)"""
    n = len(P)
    F = np.tril(P).copy()
    for r in range(n - 1, -1, -1):
        cols = [c for c in range(r) if F[r, c]]
        for a in cols:
            for b in cols:
                if b <= a:
                    F[a, b] = True
    return F


def big_sym_patterns(n):
    yield "dense", np.ones((n, n), bool)
    Tm = np.eye(n, dtype=bool)
    for i in range(n - 1):
        Tm[i, i + 1] = Tm[i + 1, i] = True
    yield "tridiagonal", Tm
    Ar = np.eye(n, dtype=bool)
    Ar[n - 1, :] = Ar[:, n - 1] = True
    yield "arrow last", Ar
    Ar = np.eye(n, dtype=bool)
    Ar[0, :] = Ar[:, 0] = True
    yield "arrow first", Ar
    Bl = np.eye(n, dtype=bool)
    h = n // 2
    Bl[:h, :h] = True
    Bl[h:, h:] = True
    yield "two blocks", Bl
    Ck = np.eye(n, dtype=bool)
    for i in range(n):
        for j in range(n):
            if (i + j) % 3 == 0:
                Ck[i, j] = Ck[j, i] = True
    yield "mod 3", Ck


def fam_sparse_chol(t, thorough, shard, nshard):
    m, d = stack_data(t.lib.base)
    k = 0
    cases = []
    for n in range(1, (5 if thorough else 4) + 1):
        for P in sym_patterns(n):
            cases.append(("all patterns", P))
    if not thorough:
        for bits in (0, 0x3FF, 0x155, 0x2AA, 0x0F0, 0x30F, 0x111, 0x248):       # a few n=5 patterns in the quick tier
            P = list(sym_patterns(5))[bits]
            cases.append(("n=5 sample", P))
    for n in range(5, 10 if not thorough else 13):
        for name, P in big_sym_patterns(n):
            cases.append((name, P))
    for name, P in cases:
        k += 1
        if k % nshard != shard:
            continue
        _chol_sparse_case(t, d, name, P)
    d.free()
    m.free()


def _chol_sparse_case(t, d, name, P):
    n = len(P)
    S = sym_spd(P, n)
    F = rev_fill(P)
    fill = bool(np.any(F & ~np.tril(P)))
    rp = {"n": n, "family": name, "pattern": np.tril(P).astype(int), "A": S}
    Lo = np.tril(S)
    # ---- symmetric helpers on the lower-triangular CSR (compressed and uncompressed)
    for lay in ("compressed", "uncompressed"):
        vals, nz, ad, ci = csr(Lo, np.tril(P), lay)
        r = t.f(n * n)
        t.mju_sym2dense(r, vals, n, nz, ad, ci)
        if not eq(r, S.ravel()):
            t.bad("mju_sym2dense", "dense image differs (%s)" % lay, rp)
        t.done("mju_sym2dense", rp, nontrivial=fill)
        base = dym(n, n, 3)
        for up in (0, 1):
            r = t.f(base)
            t.mju_addToSymSparse(r, vals, n, nz, ad, ci, up)
            if not eq(r, (base + (S if up else Lo)).ravel()):
                t.bad("mju_addToSymSparse", "res + mat differs (flg_upper=%d, %s)" % (up, lay), rp)
            t.done("mju_addToSymSparse", rp, nontrivial=fill)
        v = dyv(n, 2) + 0.25
        r = t.f(n)
        t.mju_mulSymVecSparse(r, vals, v, n, nz, ad, ci)
        if not eq(r, S @ v):
            t.bad("mju_mulSymVecSparse", "product differs from dense (%s) | got %r expected %r" % (lay, r, S @ v), rp)
        t.done("mju_mulSymVecSparse", rp, nontrivial=fill)
    # sym2dense must ignore entries above the diagonal (full symmetric CSR)
    vals, nz, ad, ci = csr(S, P, "compressed")
    r = t.f(n * n)
    t.mju_sym2dense(r, vals, n, nz, ad, ci)
    if not eq(r, S.ravel()):
        t.bad("mju_sym2dense", "full symmetric CSR input: dense image differs", rp)
    t.done("mju_sym2dense", rp)
    # ---- mju_cholFactorSparse: lower triangle with room for fill-in (row r owns r+1 slots)
    vals, nz, ad, ci = csr(Lo, np.tril(P), "uncompressed")
    Lv, Ln, Lc = t.f(vals), t.i(nz), t.i(ci)
    rank = t.mju_cholFactorSparse(Lv, n, 1e-15, Ln, ad, Lc, d)
    Ld, err = csr_dense(Lv, Ln, ad, Lc, n, n)
    if err or rank != n:
        t.bad("mju_cholFactorSparse", "rank %d / malformed factor %s" % (rank, err or ""), rp)
        t.done("mju_cholFactorSparse", rp)
        return
    e = rel(Ld.T @ Ld, S)
    note(t.part, "cholFactorSparse", e)
    gotpat = np.zeros((n, n), bool)
    for r_ in range(n):
        gotpat[r_, Lc[ad[r_]:ad[r_] + Ln[r_]]] = True
    if e > TOL_FACT or np.any(np.triu(Ld, 1) != 0) or not eq(gotpat, F) or not rows_sorted(Ln, ad, Lc):
        t.bad("mju_cholFactorSparse", "L'L != A, or pattern != symbolic fill, or rows not sorted | rel err %.3g" % e, rp)
    t.done("mju_cholFactorSparse", rp, nontrivial=fill)
    Lv, Ln, Lc = np.array(Lv), np.array(Ln), np.array(Lc)
    for bs in range(2):
        b = dyv(n, 4 * bs) + 0.5
        if bs:
            b[::2] = 0                                       # `if (res[i])` skip
        x = t.f(n)
        t.mju_cholSolveSparse(x, Lv, b, n, Ln, ad, Lc)
        e = backward_err(S, x, b)
        note(t.part, "cholSolveSparse", e)
        if e > TOL_BACK:
            t.bad("mju_cholSolveSparse", "A x != b | backward err %.3g" % e, dict(rp, b=b))
        t.done("mju_cholSolveSparse", rp, nontrivial=fill)
    # ---- rank-one updates without a change of pattern: x = alpha e_k for every k; full-pattern x when L is dense
    xs = [([kk], [0.5]) for kk in range(n)] + [([], [])]
    if np.all(np.tril(F) == np.tril(np.ones((n, n), bool))):
        xs += [(list(range(n)), list(dyv(n, 1) * 0.5 + 0.1)), (list(range(0, n, 2)), list(dyv((n + 1) // 2, 3) * 0.5 + 0.1))]
    for xi, xv in xs:
        for plus in (1, 0):
            xd = np.zeros(n)
            xd[xi] = xv
            if not plus:
                xd = xd * 0.5                                 # keeps A - xx' diagonally dominant
            B = S + np.outer(xd, xd) * (1 if plus else -1)
            L2 = t.f(Lv.copy())
            rk = t.mju_cholUpdateSparse(L2, np.array([xd[q] for q in xi], float), n, plus, Ln, ad, Lc, len(xi), np.array(xi, np.int32), d)
            L2d, err = csr_dense(L2, Ln, ad, Lc, n, n)
            e = rel(L2d.T @ L2d, B)
            note(t.part, "cholUpdateSparse", e)
            rpu = dict(rp, x_ind=xi, x=[xd[q] for q in xi], flg_plus=plus)
            if rk != n or e > 1e-10:
                t.bad("mju_cholUpdateSparse", "updated factor != chol(A %s xx') | rank %d rel err %.3g" % ("+" if plus else "-", rk, e), rpu)
            t.done("mju_cholUpdateSparse", rpu, nontrivial=fill or len(xi) > 1)
    # ---- symbolic + numeric
    for src, Pin in (("full", P), ("upper", np.triu(P))):
        _, hz, ha, hc = csr(np.where(Pin, 1.0, 0.0), Pin, "compressed")
        for dd in (d, None):
            Lnz, Lad, LTnz, LTad = t.i(n), t.i(n), t.i(n), t.i(n)
            nnzL = t.mju_cholFactorSymbolic(None, Lnz, Lad, None, LTnz, LTad, None, hz, ha, hc, n, dd)
            exp_nz = F.sum(axis=1)
            rps = dict(rp, pattern_source=src, stack=dd is not None)
            if nnzL != int(F.sum()) or not eq(Lnz, exp_nz) or not eq(Lad, np.concatenate([[0], np.cumsum(exp_nz)[:-1]])) \
                    or not eq(LTnz, F.sum(axis=0)) or not eq(LTad, np.concatenate([[0], np.cumsum(F.sum(axis=0))[:-1]])):
                t.bad("mju_cholFactorSymbolic", "count mode: nnz / rownnz / rowadr differ from the symbolic fill | nnz %d expected %d" % (nnzL, int(F.sum())), rps)
                t.done("mju_cholFactorSymbolic", rps)
                continue
            t.done("mju_cholFactorSymbolic", rps, nontrivial=fill)
            Lci, LTci, LTmap = t.i(nnzL), t.i(nnzL), t.i(nnzL)
            t.mju_cholFactorSymbolic(Lci, Lnz, Lad, LTci, LTnz, LTad, LTmap, hz, ha, hc, n, dd)
            okp = rows_sorted(Lnz, Lad, Lci)
            gp = np.zeros((n, n), bool)
            for r_ in range(n):
                cc = Lci[Lad[r_]:Lad[r_] + Lnz[r_]]
                if np.any(cc < 0) or np.any(cc >= n):
                    okp = False
                    break
                gp[r_, cc] = True
                okp = okp and cc[-1] == r_
            okp = okp and eq(gp, F)
            # LT: column r of L = rows i >= r with L[i,r] != 0; LT_map points at that entry of L
            for r_ in range(n):
                if not okp:
                    break
                rows = LTci[LTad[r_]:LTad[r_] + LTnz[r_]]
                mp = LTmap[LTad[r_]:LTad[r_] + LTnz[r_]]
                okp = okp and rows[0] == r_ and sorted(rows.tolist()) == [i for i in range(n) if F[i, r_]]
                for i_, q in zip(rows, mp):
                    okp = okp and 0 <= q < nnzL and Lad[i_] <= q < Lad[i_] + Lnz[i_] and Lci[q] == r_
            if not okp:
                t.bad("mju_cholFactorSymbolic", "fill mode: L_colind / LT_colind / LT_map inconsistent with the symbolic fill", rps)
                t.done("mju_cholFactorSymbolic", rps)
                continue
            t.done("mju_cholFactorSymbolic", rps, nontrivial=fill)
            if dd is None:
                continue
            for hsrc, Hp in (("lower", np.tril(P)), ("full", P)):
                hv, hz2, ha2, hc2 = csr(S, Hp, "compressed")
                Lval = t.f(nnzL)
                rk = t.mju_cholFactorNumeric(Lval, n, 1e-15, Lnz, Lad, Lci, LTnz, LTad, LTci, LTmap, hv, hz2, ha2, hc2, d)
                Ldn, err = csr_dense(Lval, Lnz, Lad, Lci, n, n)
                e = rel(Ldn.T @ Ldn, S) if not err else float("inf")
                note(t.part, "cholFactorNumeric", e)
                if rk != n or e > TOL_FACT:
                    t.bad("mju_cholFactorNumeric", "L'L != H (H given as %s CSR) | rank %d rel err %.3g" % (hsrc, rk, e), dict(rps, H_source=hsrc))
                t.done("mju_cholFactorNumeric", rps, nontrivial=fill)
    # rank-deficient: zero diagonal in the last-processed rows => rank drops, pivot replaced by mindiag
    if n >= 2:
        Sz = S.copy()
        Sz[0, :] = 0
        Sz[:, 0] = 0
        Pz = P.copy()
        vals, nz, ad, ci = csr(np.tril(Sz), np.tril(Pz), "uncompressed")
        Lv2, Ln2, Lc2 = t.f(vals), t.i(nz), t.i(ci)
        rk = t.mju_cholFactorSparse(Lv2, n, 1e-10, Ln2, ad, Lc2, d)
        if rk != n - 1:
            t.bad("mju_cholFactorSparse", "singular matrix (zero row 0): rank %d expected %d" % (rk, n - 1), dict(rp, A=Sz))
        t.done("mju_cholFactorSparse", rp, nontrivial=True)


# ---------------------------------------------------------------------------------- sparse LU (tree topology)

def fam_lusparse(t, thorough, shard, nshard):
    k = 0
    for n in range(1, (6 if thorough else 5) + 1):
        for par in A.forests(n):
            k += 1
            if k % nshard != shard:
                continue
            anc = np.eye(n, dtype=bool)
            for i in range(n):
                j = par[i]
                while j >= 0:
                    anc[i, j] = True
                    j = par[j]
            P = anc | anc.T
            Dm = np.zeros((n, n))
            for i in range(n):
                for j in range(n):
                    if P[i, j] and i != j:
                        Dm[i, j] = nzv(7 * i + 3 * j) * 0.5
            Dm += np.diag(np.sum(np.abs(Dm), axis=1) + 1 + 0.5 * np.arange(n))
            vals, nz, ad, ci = csr(Dm, P, "compressed")
            diag = np.array([int(np.sum(P[i, :i])) for i in range(n)], np.int32)
            roots = [i for i in range(n) if par[i] < 0]
            trees = []
            for r in roots:
                trees.append([i for i in range(n) if anc[i, r]])
            index_sets = [None] + [sum((trees[q] for q in sel), []) for m_ in range(1, len(trees)) for sel in itertools.combinations(range(len(trees)), m_)]
            for index in index_sets:
                idx = None if index is None else np.array(sorted(index), np.int32)
                dofs = list(range(n)) if idx is None else sorted(index)
                nn = len(dofs)
                rp = {"parents": par, "D": Dm, "index": None if idx is None else dofs}
                LU = t.f(vals)
                scratch = t.i(n)
                t.mju_factorLUSparse(LU, nn, scratch, nz, ad, ci, idx)
                LUd, err = csr_dense(LU, nz, ad, ci, n, n)
                sub = np.ix_(dofs, dofs)
                Lm = np.tril(LUd)[sub]
                Um = np.triu(LUd, 1)[sub] + np.eye(nn)
                e = rel(Um @ Lm, Dm[sub])
                note(t.part, "factorLUSparse", e)
                untouched = [i for i in range(n) if i not in dofs]
                same = all(eq(LU[ad[i]:ad[i] + nz[i]], vals[ad[i]:ad[i] + nz[i]]) for i in untouched)
                if err or e > TOL_FACT or not same:
                    t.bad("mju_factorLUSparse", "(U+I) L != D on the indexed dofs, or other rows modified | rel err %.3g" % e, rp)
                t.done("mju_factorLUSparse", rp, nontrivial=len(set(par)) < n and n >= 3)
                b = dyv(n, 3) + 0.5
                x = t.f(np.full(n, 77.0))
                t.mju_solveLUSparse(x, LU, b, nn, nz, ad, diag, ci, idx)
                e = backward_err(Dm[sub], x[dofs], b[dofs])
                note(t.part, "solveLUSparse", e)
                if e > TOL_BACK or any(x[i] != 77.0 for i in untouched):
                    t.bad("mju_solveLUSparse", "D x != b on the indexed dofs, or other entries written | backward err %.3g" % e, dict(rp, b=b))
                t.done("mju_solveLUSparse", rp, nontrivial=len(set(par)) < n and n >= 3)


# ---------------------------------------------------------------------------------- sparse M' diag M

def sqr_cases(thorough):
    shapes = [(1, 1), (1, 2), (2, 1), (2, 2), (1, 3), (3, 3), (3, 4)] + ([(4, 3), (2, 5), (4, 4)] if thorough else [])
    for nr, nc in shapes:
        for pat in patterns(nr, nc):
            yield pat
    # structured: long runs of identical columns (super-nodes up to and beyond the cap of 8), banded, staircase
    for nc in (5, 8, 9, 10, 12):
        for nr in (1, 3):
            yield np.ones((nr, nc), bool)
            pat = np.ones((nr, nc), bool)
            pat[:, nc // 2] = False                                 # an empty column inside the run
            yield pat
            pat = np.ones((nr, nc), bool)
            pat[0, nc - 1] = False                                  # last column differs
            yield pat
        pat = np.zeros((nc, nc), bool)
        for i in range(nc):
            pat[i, max(0, i - 1):i + 2] = True
        yield pat
        pat = np.zeros((4, nc), bool)
        for i in range(4):
            pat[i, i * nc // 4:] = True
        yield pat
        pat = np.zeros((3, nc), bool)
        pat[0, :nc // 2] = True
        pat[1, nc // 2:] = True
        pat[2, ::3] = True
        yield pat


def fam_sqr(t, thorough, shard, nshard):
    m, d = stack_data(t.lib.base)
    k = 0
    for pat in sqr_cases(thorough):
        k += 1
        if k % nshard != shard:
            continue
        _sqr_case(t, d, pat, thorough)
    d.free()
    m.free()


def _sqr_case(t, d, pat, thorough=True):
    nr, nc = pat.shape
    V = patval(pat, nc)
    mv, mz, ma, mc = csr(V, pat)
    tv, tz, ta, tc = csr(V.T.copy(), pat.T.copy())
    sup = supernodes(pat.T)
    supM = supernodes(pat)
    struct = (pat.T.astype(int) @ pat.astype(int)) > 0            # structural pattern of M'M
    colempty = ~pat.any(axis=0)
    dg = dyv(nr, 3)
    dg[0] = 0.0 if nr > 1 else dg[0]
    rp0 = {"nr": nr, "nc": nc, "pattern": pat.astype(int)}
    nt = bool(colempty.any() or (~pat.any(axis=1)).any() or np.any(sup))
    for use_sup in (1, 0):
        if not use_sup and not thorough and nr * nc > 9 and not np.any(sup):
            continue          # quick tier: rowsuperT == NULL only where it differs from an all-zero rowsuperT or for the small shapes
        sT = sup if use_sup else None
        # ---- Count
        for up in (0, 1):
            rn, ra = t.i(nc), t.i(nc)
            tot = t.mju_sqrMatTDSparseCount(rn, ra, nc, mz, ma, mc, tz, ta, tc, sT, d, up)
            ep = struct if up else np.tril(struct)
            rp = dict(rp0, rowsuperT=bool(use_sup), flg_upper=up)
            if tot != int(ep.sum()) or not eq(rn, ep.sum(axis=1)) or not eq(ra, np.concatenate([[0], np.cumsum(ep.sum(axis=1))[:-1]])):
                t.bad("mju_sqrMatTDSparseCount", "row counts / addresses differ from the structural pattern of M'M | total %d expected %d rownnz %r expected %r"
                      % (tot, int(ep.sum()), rn, ep.sum(axis=1)), rp)
            t.done("mju_sqrMatTDSparseCount", rp, nontrivial=nt)
        # ---- one-shot routines (column based and legacy row based), compressed (Count) and uncompressed addresses
        for fn in ("mju_sqrMatTDSparse", "mju_sqrMatTDSparse_row"):
            for diag in (None, dg):
                for want_upper in (0, 1):
                    for lay in ("count", "uncompressed"):
                        G = V.T @ (V if diag is None else V * diag[:, None])
                        ra = t.i(nc)
                        if lay == "count":
                            rn0 = t.i(nc)
                            t.mju_sqrMatTDSparseCount(rn0, ra, nc, mz, ma, mc, tz, ta, tc, sT, d, want_upper)
                            cap = int((struct if want_upper else np.tril(struct)).sum())
                        else:
                            t.mju_sqrMatTDUncompressedInit(ra, nc)
                            cap = nc * nc
                            t.done("mju_sqrMatTDUncompressedInit", rp0)
                            if not eq(ra, np.arange(nc) * nc):
                                t.bad("mju_sqrMatTDUncompressedInit", "rowadr != r*nc", rp0)
                        res, rn, rc = t.f(max(cap, 1)), t.i(nc), t.i(max(cap, 1))
                        di = t.i(nc) if want_upper else None
                        rp = dict(rp0, rowsuperT=bool(use_sup), diag=diag is not None, upper=want_upper, rowadr=lay)
                        getattr(t, fn)(res, mv, tv, diag, nr, nc, rn, ra, rc, mz, ma, mc, supM, tz, ta, tc, sT, d, di)
                        exp = G if want_upper else np.tril(G)
                        got, err = csr_dense(res, rn, ra, rc, nc, nc)
                        inside = all(ra[r_] + rn[r_] <= (ra[r_ + 1] if r_ + 1 < nc else cap) for r_ in range(nc))
                        okd = True
                        if want_upper and not err:
                            okd = all(ra[r_] <= di[r_] < ra[r_] + max(rn[r_], 1) and (rn[r_] == 0 or rc[di[r_]] == r_) for r_ in range(nc) if not colempty[r_])
                        if err or not inside or not eq(got, exp) or not okd:
                            key = "result differs from dense M'diag M"
                            if colempty.any() and lay == "count" and not inside:
                                # one root cause, one key (the canary hit of the same call is part of it)
                                key = ("writes a diagonal entry for an empty column of M that mju_sqrMatTDSparseCount does not count "
                                       "(row overflows its slot / out-of-bounds write)")
                                t.g = []
                            t.bad(fn, "%s | %s rows inside their slots: %s diagind ok: %s" % (key, err or "", inside, okd), rp)
                        t.done(fn, rp, nontrivial=nt)
        # ---- symbolic + numeric
        for want_upper in (0, 1):
            rn, ra = t.i(nc), t.i(nc)
            di0 = t.i(nc) if want_upper else None
            tot = t.mju_sqrMatTDSparseSymbolic(rn, ra, None, di0, nr, nc, mz, ma, mc, tz, ta, tc, sT, d)
            ep = struct if want_upper else np.tril(struct)
            rp = dict(rp0, rowsuperT=bool(use_sup), upper=want_upper)
            if tot != int(ep.sum()) or not eq(rn, ep.sum(axis=1)) or not eq(ra, np.concatenate([[0], np.cumsum(ep.sum(axis=1))[:-1]])):
                t.bad("mju_sqrMatTDSparseSymbolic", "count mode differs from the structural pattern of M'M | total %d expected %d" % (tot, int(ep.sum())), rp)
                t.done("mju_sqrMatTDSparseSymbolic", rp)
                continue
            t.done("mju_sqrMatTDSparseSymbolic", rp, nontrivial=nt)
            rc = t.i(max(tot, 1))
            rn2 = t.i(nc)
            di = t.i(nc) if want_upper else None
            ra2 = np.array(ra)
            tot2 = t.mju_sqrMatTDSparseSymbolic(rn2, ra2, rc, di, nr, nc, mz, ma, mc, tz, ta, tc, sT, d)
            gp = np.zeros((nc, nc), bool)
            okp = tot2 == tot and eq(rn2, rn) and eq(ra2, ra)
            for r_ in range(nc):
                cc = rc[ra[r_]:ra[r_] + rn2[r_]]
                if np.any(cc < 0) or np.any(cc >= nc):
                    okp = False
                    break
                gp[r_, cc] = True
            okp = okp and eq(gp, ep)
            if want_upper and okp:
                okp = all(rc[di[r_]] == r_ for r_ in range(nc) if not colempty[r_])
            if not okp:
                t.bad("mju_sqrMatTDSparseSymbolic", "fill mode: column indices / diagonal indices differ from the structural pattern", rp)
                t.done("mju_sqrMatTDSparseSymbolic", rp)
                continue
            t.done("mju_sqrMatTDSparseSymbolic", rp, nontrivial=nt)
            for diag in (None, dg):
                G = V.T @ (V if diag is None else V * diag[:, None])
                res = t.f(max(tot, 1))
                t.mju_sqrMatTDSparseNumeric(res, nc, rn2, ra, rc, di, mv, mz, ma, mc, tv, tz, ta, tc, sT, diag, d)
                got, err = csr_dense(res, rn2, ra, rc, nc, nc)
                exp = G if want_upper else np.tril(G)
                if err or not eq(got, exp):
                    t.bad("mju_sqrMatTDSparseNumeric", "values differ from dense M'diag M %s" % (err or ""), dict(rp, diag=diag is not None))
                t.done("mju_sqrMatTDSparseNumeric", rp, nontrivial=nt)


# ---------------------------------------------------------------------------------- block extraction

def fam_block(t, thorough, shard, nshard):
    k = 0
    for nr, nc in ((3, 3), (3, 4), (4, 4)):
        Mx = dym(nr, nc, 3) + 2.0
        perms_r = list(itertools.permutations(range(nr)))
        perms_c = list(itertools.permutations(range(nc)))
        for pr in perms_r[:: (1 if thorough else 2)]:
            for pc in perms_c[:: (1 if thorough else 3)]:
                k += 1
                if k % nshard != shard:
                    continue
                rp = {"nr": nr, "nc": nc, "perm_r": pr, "perm_c": pc}
                # dense: one block = rows pr[:a], columns pc[:b]
                for a in range(1, nr + 1):
                    for b in range(1, nc + 1):
                        r = t.f(a * b)
                        t.mju_block(r, Mx.ravel().copy(), nc, b, a, np.array(pr, np.int32), np.array(pc, np.int32))
                        if not eq(r, Mx[np.ix_(pr[:a], pc[:b])].ravel()):
                            t.bad("mju_block", "block differs from mat[perm_r][:, perm_c]", dict(rp, rows=a, cols=b))
                        t.done("mju_block", rp, nontrivial=True)
                # dense block-diagonalisation: split rows at a, columns at b
                for a in range(1, nr):
                    for b in range(1, nc):
                        bnr, bnc = np.array([a, nr - a], np.int32), np.array([b, nc - b], np.int32)
                        br, bc = np.array([0, a], np.int32), np.array([0, b], np.int32)
                        ncres = max(b, nc - b)
                        # layout: block b starts at nc_res*block_r[b] and is stored with its own column count
                        r = t.f(np.full(nr * ncres + nc, 5.5))
                        t.mju_blockDiag(r, Mx.ravel().copy(), nc, ncres, 2, np.array(pr, np.int32), np.array(pc, np.int32), bnr, bnc, br, bc)
                        b0 = Mx[np.ix_(pr[:a], pc[:b])]
                        b1 = Mx[np.ix_(pr[a:], pc[b:])]
                        if not (eq(r[:a * b], b0.ravel()) and eq(r[ncres * a:ncres * a + (nr - a) * (nc - b)], b1.ravel())):
                            t.bad("mju_blockDiag", "diagonal blocks differ from mat[perm_r][:, perm_c]", dict(rp, split=(a, b)))
                        t.done("mju_blockDiag", rp, nontrivial=True)
    # sparse block-diagonalisation: matrix that IS block diagonal after the permutation
    for nb_split in ((2, 2), (1, 3), (3, 1), (2, 3)) if thorough else ((2, 2), (1, 3), (2, 3)):
        n0, n1 = nb_split
        n = n0 + n1
        for pr in list(itertools.permutations(range(n)))[shard::nshard * (1 if thorough else 3)]:
            pc_inv = pr                     # res row/col i  <-  mat row/col pr[i]
            fwd = np.zeros(n, np.int32)
            for i, s in enumerate(pc_inv):
                fwd[s] = i                  # forward column permutation (mat -> res)
            for bits in range(1 << (n0 * n0 + n1 * n1)) if (n0 * n0 + n1 * n1) <= 8 else [0, 1, (1 << (n0 * n0 + n1 * n1)) - 1, 0x5A5A5 & ((1 << (n0 * n0 + n1 * n1)) - 1)]:
                Rm = np.zeros((n, n))
                q = 0
                for (o, s) in ((0, n0), (n0, n1)):
                    for i in range(s):
                        for j in range(s):
                            if (bits >> q) & 1:
                                Rm[o + i, o + j] = nzv(q + 1)
                            q += 1
                Mx = np.zeros((n, n))
                Mx[np.ix_(pr, pr)] = Rm        # mat[pr[i], pr[j]] = res[i, j]
                mv, mz, ma, mc = csr(Mx)
                mv2 = mv * 2 + 1
                tot = int(mz.sum())
                res, res2 = t.f(max(tot, 1)), t.f(max(tot, 1))
                rn, ra, rc = t.i(n), t.i(n), t.i(max(tot, 1))
                t.mju_blockDiagSparse(res, rn, ra, rc, mv, mz, ma, mc, n, 2, np.array(pr, np.int32), fwd,
                                      np.array([0, n0], np.int32), np.array([0, n0], np.int32), res2, mv2)
                # column indices are relative to the block's first column
                ok = True
                got = np.zeros((n, n))
                got2 = np.zeros((n, n))
                for r_ in range(n):
                    off = 0 if r_ < n0 else n0
                    for q in range(ra[r_], ra[r_] + rn[r_]):
                        c_ = rc[q] + off
                        if not (0 <= c_ < n):
                            ok = False
                            continue
                        got[r_, c_] = res[q]
                        got2[r_, c_] = res2[q]
                rp = {"perm": pr, "blocks": nb_split, "res": Rm}
                exp_ra = np.concatenate([[0], np.cumsum([int(np.count_nonzero(Rm[i])) for i in range(n)])[:-1]])
                if not ok or not eq(got, Rm) or not eq(got2, np.where(Rm != 0, Rm * 2 + 1, 0)) or not eq(ra, exp_ra):
                    t.bad("mju_blockDiagSparse", "block-diagonal image differs from mat[perm][:, perm] (or res2 / rowadr wrong)", rp)
                t.done("mju_blockDiagSparse", rp, nontrivial=True)
                # single block through mju_blockSparse (second block, absolute addresses offset by res_offset)
                tot1 = int(sum(np.count_nonzero(Rm[i]) for i in range(n0, n)))
                off0 = int(sum(np.count_nonzero(Rm[i]) for i in range(n0)))
                res, rn, ra, rc = t.f(max(tot1, 1)), t.i(n1), t.i(n1), t.i(max(tot1, 1))
                t.mju_blockSparse(res, rn, ra, rc, mv, mz, ma, mc, n1, np.array(pr[n0:], np.int32), fwd, n0, off0, None, None)
                gb = np.zeros((n1, n1))
                ok = True
                for r_ in range(n1):
                    for q in range(ra[r_] - off0, ra[r_] - off0 + rn[r_]):
                        if not (0 <= rc[q] < n1):
                            ok = False
                            continue
                        gb[r_, rc[q]] = res[q]
                if not ok or not eq(gb, Rm[n0:, n0:]) or (n1 and ra[0] != off0):
                    t.bad("mju_blockSparse", "extracted block differs from mat[perm_r][:, perm_c]", rp)
                t.done("mju_blockSparse", rp, nontrivial=True)


# ================================================================================================ runner

FAMILIES = [
    # (name, function, shards quick, shards thorough)
    ("blas1", fam_blas1, 1, 1), ("fixed", fam_fixed, 4, 4), ("blas23", fam_blas23, 4, 6), ("chol", fam_chol, 4, 6),
    ("band", fam_band, 4, 8), ("lu", fam_lu, 3, 4), ("eig3", fam_eig3, 2, 4), ("qcqp", fam_qcqp, 2, 4),
    ("boxqp", fam_boxqp, 4, 8), ("sparse_basic", fam_sparse_basic, 8, 48), ("sparse_combine", fam_sparse_combine, 4, 16),
    ("sparse_addmat", fam_sparse_addmat, 4, 4), ("sparse_chol", fam_sparse_chol, 4, 16), ("lusparse", fam_lusparse, 2, 4),
    ("sqr", fam_sqr, 12, 64), ("block", fam_block, 4, 8),
]


SAMPLE_FAMILIES = ("band", "boxqp", "sparse_chol", "sqr", "eig3", "lusparse")


def _tune_malloc():
    import ctypes
    try:
        libc = ctypes.CDLL("libc.so.6")
        libc.mallopt(-3, 1 << 30)
        libc.mallopt(-1, 1 << 30)
    except OSError:
        pass


def _chunk(chunk):
    _tune_malloc()
    part = core.Part()
    fams = {f[0]: f[1] for f in FAMILIES}
    for fam, variant, thorough, shard, nshard in chunk:
        CALLS.clear()
        t = T(part, variant)
        before = part["evaluations"]
        fams[fam](t, thorough, shard, nshard)
        for name, c in CALLS.items():
            part.add("calls[%s] %s" % (variant, name.replace("c23_", "inline:")), c)
        part.add("evaluations[%s]" % fam, part["evaluations"] - before)
        if len(part["samples"]) < 1 and variant == "avx" and shard == 0 and t.last and fam in SAMPLE_FAMILIES:
            part["samples"].append(core.jsonable({"family": fam, "build": variant, "function": t.last[0], "case": t.last[1]}))
    return part


def run(ctx):
    mj.load()
    for v in ("avx", "scalar"):
        L23.load(v)
    items = []
    for name, fn, sq, st in FAMILIES:
        ns = st if ctx.thorough else sq
        for variant in ("avx", "scalar"):
            for s in range(ns):
                items.append((name, variant, ctx.thorough, s, ns))
    core.pmap(ctx, _chunk, items, nchunks=len(items))
    # API surface: every non-static function of the three files must have been called in both builds
    defined = L23.defined_functions()
    allf = [n for f in defined.values() for n in f]
    missing = {}
    for v in ("avx", "scalar"):
        called = {k.split("] ")[1] for k in ctx.extra if k.startswith("calls[%s] " % v)}
        miss = [n for n in allf if n not in called]
        if miss:
            missing[v] = miss
    ctx.extra["functions_defined"] = len(allf)
    ctx.extra["functions_not_called"] = missing or "none"
    ctx.extra["functions_not_exported"] = [n for n in allf if not L23.load("avx").has(n)] or "none"
    if missing:
        ctx.exhaustive = False
    ctx.rule = (
        "per function family a finite lattice, each run in the AVX build and in a scalar re-compilation of the same files: "
        "vectors n=0..9,13 (thorough +12,16,17) x dyadic/non-dyadic data x aligned/odd output offsets, all index subsets n<=4; all pairs of "
        "{-2,0,.5,3}^3 for the 3-vector routines; matrices nr,nc in 1..9 (13) for level-2/3; SPD families {diag. dominant, 4I, Hilbert, "
        "Hilbert+1e-6, graded cond 1e2/1e4/1e8, tridiagonal} n=1..9 (13) + PSD of every rank for the dense Cholesky, rank-one up/down-dates "
        "vs refactorisation; all band layouts ntotal<=%d; LU families incl. matrices that need a pivot in every column, singular inputs; "
        "mju_eig3 on 12 eigenvalue triples (repeated, zero, negative, nearly equal) x 11 rotations x 3 scales; QCQP n=2..5 x 5 SPD families x "
        "3 b x 2 d x 6 radius ratios; box QP n<=%d: ALL 3^n active sets x 5 H x 2 box/multiplier scalings x 7 warm starts; all 0/1 patterns of "
        "3x3, 3x4%s matrices (empty rows/columns) in compressed, uncompressed and offset layouts for conversion / product / transpose / "
        "supernode / compress / row-copy routines; all pairs of index subsets of {0..%d} for the sparse-vector merges; all pairs of 2x3 "
        "patterns for mju_addToMatSparse; all symmetric patterns n<=%d + structured n<=%d for the sparse Cholesky (factor, solve, update, "
        "symbolic, numeric); all forests n<=%d x unions of trees as index for the sparse LU; all 3x3/3x4%s patterns + column runs of 5..12 "
        "identical columns for the four M'diagM routines; block extraction over permutations.  non-trivial = case that reaches the "
        "vector/tail split (n>=4), an empty row/column, fill-in, a pivot swap, an active bound, a repeated eigenvalue, or a supernode"
        % (8 if ctx.thorough else 6, 4 if ctx.thorough else 3, ", 4x3, 2x5, 4x4" if ctx.thorough else "", 5 if ctx.thorough else 4,
           5 if ctx.thorough else 4, 12 if ctx.thorough else 9, 6 if ctx.thorough else 5, ", 4x3, 2x5, 4x4" if ctx.thorough else ""))
    ctx.assumptions = [
        "dyadic input data make dense numpy results exact, so element-wise / product routines are compared bit-exactly; "
        "factor/solve pairs by backward error <= 1e-11 (observed <= 1e-15), independent of the condition number",
        "mju_cholFactorBand return value: accepted as the minimum pivot before OR after the square root (the documentation says "
        "'minimum value of the factorized diagonal', the code returns the pivot before sqrt)",
        "mju_transposeSparse with rowadr[0] != 0 is called the way the engine calls it (value / colind pointers pre-offset)",
        "iterative routines: mju_eig3 runs that hit the 500-iteration cap are counted and their result is still judged; QCQP runs whose Newton iteration stops short of the boundary "
        "(stationary with a too small multiplier) and box-QP runs whose status is not a converged one are counted, not judged",
        "raw entry points are unguarded: inputs that make them call mju_error are not generated",
    ]
