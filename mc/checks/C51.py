"""C51 First-party plugins honour their documented laws.

PID (`mujoco.pid`, plugin/actuator/README.md): every gain/limit configuration kp,ki,kd in {0,1.5} x imax in {none,0.2} x
slewmax in {none,0.5} x dyntype {none, integrator, filter, filterexact} x actearly x actrange x ctrlrange, driven by ALL
control sequences of length <= 4 over {-1,0,1}; oracle: a PID written from the README (force = kp e + ki int(e) + kd de/dt,
I term clipped to imax, set-point slew-limited to slewmax*dt, states in `act` in the order [integral, previous set-point,
dyntype state]).  The same law with 1x1, multi-input and multi-output actuators in front of the PID actuator (the engine
addresses controls through actuator_ctrladr and lengths/forces through actuator_outadr).

Cable (`mujoco.elasticity.cable`): 2-4 segment composite cables (capsule / cylinder / box cross-section, straight and
curved stress-free shapes, root welded / ball / free) in 3 rigid poses: zero passive force in the stress-free
configuration, moment = stiffness * angle / segment length for single-axis twist / bend of every joint (G J, E Iy, E Iz
from the cross-section), invariance of the generalised forces under rigid motion of the whole cable.

Isolation (native/drivers/c51_iso.cc, ASan build): every callback of every plugin instance is invoked alone on a
sentinel-filled mjData and the complete mjData is compared with a deep copy: only the instance's own slices change.
"""
from __future__ import annotations

import collections
import concurrent.futures as cf
import itertools
import math
import os
import re
import subprocess
import tempfile

import numpy as np

from .. import build, core, mj
from . import _c2x_run as rx

LEVEL = "exploration"
META = dict(
    category=LEVEL,
    technique="exhaustive lattice (gain/limit configurations x all control sequences of length<=4 over 3 values x actuator "
              "variants; cable shapes x cross-sections x poses x single-axis deformations) against reference models written "
              "from the plugin READMEs; per-callback write-set differential on sentinel-filled mjData (ASan build)",
    text="The plugins are small pure functions of (configuration, state, control); the product of their documented "
         "parameters and every short control history is finite and small, so it is enumerated completely and every step is "
         "compared with a reference PID / beam law.  Isolation is decided by running each callback of each instance alone "
         "and diffing all of mjData.  Exploration is the right level: the statement is a law over inputs, not a protocol.",
    note="Where the README is silent the reference uses the conventions of the tree's own pid_test.cc (integral includes the "
         "current error; set-point rate = act_dot of the dyntype state, 0 for direct control; the first step after time 0 is "
         "not slew-limited; state updates use the current activation, the force uses the next one when actearly).  "
         "Both plugins have nstate = 0, so plugin_state isolation is vacuous (sentinels are still checked).  Cable law is "
         "checked for single-axis rotations from a straight stress-free cable (multi-axis coupling is not documented).",
    design_ref="DESIGN.md §3 C51")

DT = 0.1
TAU = 0.25
Q0, V0 = 0.3, -0.7
CTRL_ALPHABET = (-1.0, 0.0, 1.0)
SEQ_LEN = 4
TOL = 1e-9          # |engine - reference| <= TOL * (1 + |reference|); observed noise < 1e-14

# canonical keys (one per root cause)
K_ADDR = ("pid plugin indexes ctrl/ctrlrange by actuator id, actuator_length/velocity/force by actuator id and scans "
          "m->nu actuators (engine: actuator_ctrladr, actuator_outadr, nactuator)")
K_FILTEREXACT = ("actuator plugin with dyntype=filterexact: mj_nextActivation integrates the plugin-owned act slots with "
                 "the exact-filter formula instead of Euler (plugin state != act + dt*act_dot)")
K_ACTRANGE = ("actuator plugin with actlimited: actrange clamps the plugin-owned act slots (documented: the limit does not "
              "apply to activations computed by the plugin)")
K_TOUCH = ("touch_grid plugin reads geom_bodyid[contact.geom] for every contact: flex contacts have geom = -1 "
           "(out-of-bounds read of the model buffer)")
K_README_UNITS = ("pid README: the ki activation variable is documented as the I term in units of force, the plugin stores "
                  "the error integral (force / ki)")


def _clip(x, lo, hi):
    return lo if x < lo else (hi if x > hi else x)


# ------------------------------------------------------------------------------------------------ PID models
def pid_cfgs():
    for kp, ki, kd in itertools.product((0.0, 1.5), repeat=3):
        for imax in (None, 0.2):
            for slew in (None, 0.5):
                yield dict(kp=kp, ki=ki, kd=kd, imax=imax, slew=slew)


def pid_variants():
    for ctrlrange in (None, (-0.5, 0.5)):
        yield dict(dyntype="none", actearly=False, actrange=None, ctrlrange=ctrlrange)
        for dyntype in ("integrator", "filter", "filterexact"):
            for actearly in (False, True):
                for actrange in (None, (-0.05, 0.05)):
                    yield dict(dyntype=dyntype, actearly=actearly, actrange=actrange, ctrlrange=ctrlrange)


PREFIXES = {
    # name: (actuator xml placed before the PID actuator, number of controls, number of outputs)
    "none": ("", 0, 0),
    "motor": ('<motor joint="j0"/>', 1, 1),
    "pid[pos,vel]": ('<pid joint="j0" kp="1"/>', 2, 1),
    "pid[pos,vel,ff]": ('<pid joint="j0" kp="1" input="pos vel ff"/>', 3, 1),
    "orientation[expmap]": ('<orientation joint="jb" kp="1"/>', 3, 3),
    "orientation[quat]": ('<orientation joint="jb" kp="1" input="quat"/>', 4, 3),
    "dcmotor[none]": ('<dcmotor joint="j0" input="none" motorconst="1" resistance="1"/>', 0, 1),
}


def _pid_parts(cfg, var, inst, joint):
    """(<instance> element, <plugin> actuator element) of one mujoco.pid actuator."""
    conf = "".join('<config key="%s" value="%r"/>' % (k, cfg[k]) for k in ("kp", "ki", "kd"))
    if cfg["imax"] is not None:
        conf += '<config key="imax" value="%r"/>' % cfg["imax"]
    if cfg["slew"] is not None:
        conf += '<config key="slewmax" value="%r"/>' % cfg["slew"]
    nplug = (1 if cfg["ki"] else 0) + (1 if cfg["slew"] is not None else 0)
    actdim = nplug + (0 if var["dyntype"] == "none" else 1)
    attr = ""
    if actdim:
        attr += ' actdim="%d"' % actdim
    if var["dyntype"] != "none":
        attr += ' dyntype="%s" dynprm="%r"' % (var["dyntype"], TAU if var["dyntype"] != "integrator" else 1.0)
        if var["actearly"]:
            attr += ' actearly="true"'
        if var["actrange"]:
            attr += ' actlimited="true" actrange="%r %r"' % var["actrange"]
    if var["ctrlrange"]:
        attr += ' ctrllimited="true" ctrlrange="%r %r"' % var["ctrlrange"]
    return ('<instance name="%s">%s</instance>' % (inst, conf),
            '<plugin joint="%s" plugin="mujoco.pid" instance="%s"%s/>' % (joint, inst, attr))


def pid_xml(cfg, var, prefix="none", second=None):
    """slide joint j (mass 1, no gravity) driven by one mujoco.pid actuator; optional actuators in front of it and an
    optional second PID instance (cfg, var) on joint j2 behind it."""
    inst, act = _pid_parts(cfg, var, "pid", "j")
    if second is not None:
        i2, a2 = _pid_parts(second[0], second[1], "pid2", "j2")
        inst, act = inst + i2, act + a2
    return """<mujoco>
  <option timestep="%r" gravity="0 0 0"/>
  <size memory="64K"/>
  <extension><plugin plugin="mujoco.pid">%s</plugin></extension>
  <worldbody>
    <body><joint name="j0" type="slide" axis="0 0 1"/><geom size="0.1" mass="1"/></body>
    <body pos="1 0 0"><joint name="jb" type="ball"/><geom size="0.1" mass="1"/></body>
    <body pos="2 0 0"><joint name="j" type="slide" axis="0 0 1"/><geom size="0.1" mass="1"/></body>
    <body pos="3 0 0"><joint name="j2" type="slide" axis="0 0 1"/><geom size="0.1" mass="1"/></body>
  </worldbody>
  <actuator>
    %s
    %s
  </actuator>
</mujoco>""" % (DT, inst, PREFIXES[prefix][0], act)


class PidRef:
    """Reference PID written from plugin/actuator/README.md (+ XMLreference actuator/plugin, extension.rst)."""

    def __init__(self, cfg, var):
        self.c, self.v = cfg, var
        self.I = 0.0       # error integral
        self.prev = 0.0    # previous (slew-limited) set-point
        self.a = 0.0       # dyntype activation
        self.flags = set()

    def nslots(self):
        return (1 if self.c["ki"] else 0) + (1 if self.c["slew"] is not None else 0)

    def load(self, act):
        """take the controller state from an act vector laid out as documented."""
        i = 0
        if self.c["ki"]:
            self.I = act[i]
            i += 1
        if self.c["slew"] is not None:
            self.prev = act[i]
            i += 1
        if self.v["dyntype"] != "none":
            self.a = act[i]

    def act_vector(self):
        out = []
        if self.c["ki"]:
            out.append(self.I)
        if self.c["slew"] is not None:
            out.append(self.prev)
        if self.v["dyntype"] != "none":
            out.append(self.a)
        return out

    def step(self, ctrl, length, velocity, time):
        """returns the actuator force of this step and advances the controller state."""
        c, v = self.c, self.v
        self.flags = set()
        u_in = ctrl
        if v["ctrlrange"]:
            u_in = _clip(ctrl, *v["ctrlrange"])
            if u_in != ctrl:
                self.flags.add("ctrlclamp")
        udot = 0.0
        a_next = self.a
        if v["dyntype"] == "none":
            u_now = u_early = u_in
        else:
            if v["dyntype"] == "integrator":
                udot = u_in
                a_next = self.a + DT * udot
            else:
                udot = (u_in - self.a) / TAU
                if v["dyntype"] == "filter":
                    a_next = self.a + DT * udot
                else:
                    a_next = self.a + (u_in - self.a) * (1.0 - math.exp(-DT / TAU))
            if v["actrange"]:
                cl = _clip(a_next, *v["actrange"])
                if cl != a_next:
                    self.flags.add("actclamp")
                a_next = cl
            u_now, u_early = self.a, a_next

        def slew(u):
            if c["slew"] is not None and time > 0:
                s = _clip(u, self.prev - c["slew"] * DT, self.prev + c["slew"] * DT)
                if s != u:
                    self.flags.add("slew")
                return s
            return u

        def integral(e):
            if not c["ki"]:
                return 0.0
            i_new = self.I + e * DT
            if c["imax"] is not None:
                lim = c["imax"] / c["ki"]
                cl = _clip(i_new, -lim, lim)
                if cl != i_new:
                    self.flags.add("iclip")
                i_new = cl
            return i_new

        # force: next activation when actearly
        u_f = slew(u_early if v["actearly"] else u_now)
        e_f = u_f - length
        force = c["kp"] * e_f + c["ki"] * integral(e_f) + c["kd"] * (udot - velocity)
        # state update: current activation
        u_s = slew(u_now)
        i_next = integral(u_s - length)
        self.I = i_next
        if c["slew"] is not None:
            self.prev = u_s
        self.a = a_next
        return force


def _pid_job(job):
    """one model (cfg, variant, prefix): all control sequences of length SEQ_LEN, every prefix checked."""
    cfg, var, prefix = job
    part = core.Part()
    lib = mj.load("rel")
    xml = pid_xml(cfg, var, prefix)
    tag = "kp=%g ki=%g kd=%g imax=%s slewmax=%s | dyntype=%s actearly=%d actrange=%s ctrlrange=%s | prefix=%s" % (
        cfg["kp"], cfg["ki"], cfg["kd"], cfg["imax"], cfg["slew"], var["dyntype"], var["actearly"], var["actrange"],
        var["ctrlrange"], prefix)
    npre_u, npre_o = PREFIXES[prefix][1], PREFIXES[prefix][2]
    addr_model = prefix not in ("none", "motor")
    try:
        m = lib.load_xml(xml)
    except mj.MjError as e:
        part.count(1)
        key = K_ADDR if addr_model else "pid: valid model rejected: " + re.sub(r"\d+", "#", str(e))[:120]
        part.violation(key, "model with a documented configuration is rejected [%s]: %s" % (tag, str(e)[:300]),
                       dict(xml=xml))
        return part
    d = lib.make_data(m)
    ia = m.nactuator - 1
    uadr, oadr, aadr = int(m.actuator_ctrladr[ia]), int(m.actuator_outadr[ia]), int(m.actuator_actadr[ia])
    nslot = int(m.actuator_actnum[ia])
    jadr = int(m.jnt_qposadr[2])
    vadr = int(m.jnt_dofadr[2])
    ref0 = PidRef(cfg, var)
    if len(ref0.act_vector()) != nslot or (npre_u != uadr) or (npre_o != oadr):
        raise RuntimeError("harness: unexpected layout %s uadr=%d oadr=%d nslot=%d" % (tag, uadr, oadr, nslot))
    ref = PidRef(cfg, var)
    lib.mj_resetData(m, d)
    d.qpos[jadr] = Q0
    d.qvel[vadr] = V0

    def save():
        return float(d.time), np.array(d.qpos), np.array(d.qvel), np.array(d.act)

    def restore(st):
        d.time = st[0]
        d.qpos[:] = st[1]
        d.qvel[:] = st[2]
        if m.na:
            d.act[:] = st[3]

    # breadth-first over the trie of control sequences: every prefix is executed exactly once
    stack = collections.deque([((), save())])      # breadth-first: the first failing sequence is a shortest one
    while stack:
        seq0, st = stack.popleft()
        for u in CTRL_ALPHABET:
            seq = seq0 + (u,)
            k = len(seq) - 1
            restore(st)
            d.ctrl[:] = 0.77           # controls of the other actuators: a value outside the alphabet
            d.ctrl[uadr] = u
            length, velocity, time = float(d.qpos[jadr]), float(d.qvel[vadr]), float(d.time)
            # the reference starts every step from the engine's controller state: a pure one-step oracle, so a
            # divergence is reported at the step that causes it and the whole trie is explored regardless
            ref.load([float(x) for x in d.act[aadr:aadr + nslot]])
            try:
                lib.mj_step(m, d)
            except mj.MjError as e:
                part.count(1)
                part.violation("pid: mju_error during mj_step", "%s seq=%s: %s" % (tag, seq, e), dict(xml=xml, seq=seq))
                d.free()
                d = lib.make_data(m)
                continue
            f_ref = ref.step(u, length, velocity, time)
            f = float(d.actuator_force[oadr])
            act = [float(x) for x in d.act[aadr:aadr + nslot]] if nslot else []
            a_ref = ref.act_vector()
            bad_f = not (abs(f - f_ref) <= TOL * (1 + abs(f_ref)))
            bad_a = [i for i in range(nslot) if not (abs(act[i] - a_ref[i]) <= TOL * (1 + abs(a_ref[i])))]
            nontriv = (tag, seq) if (ref.flags or f_ref != 0.0) else None
            part.count(1, key=nontriv,
                       sample=dict(config=tag, ctrl_sequence=seq, force=f, reference=f_ref, act=act,
                                   limiters=sorted(ref.flags)) if (len(ref.flags) > 1 and k == SEQ_LEN - 1 and cfg["kp"] and cfg["ki"] and cfg["kd"]) else None)
            for fl in ref.flags:
                part.add("pid_steps_with_" + fl)
            if bad_f or bad_a:
                rep = dict(xml=xml, ctrl_sequence=list(seq), qpos0=Q0, qvel0=V0, other_ctrl=0.77)
                what = ("%s, controls %s: step %d actuator_force=%.12g reference=%.12g; act=%s reference=%s"
                        % (tag, list(seq), k, f, f_ref, act, a_ref))
                # canonical root causes
                bad_own = [i for i in bad_a if i < ref.nslots()]      # plugin-owned act slots
                key = "pid law: %s differs from the reference" % ("actuator_force" if bad_f else "act")
                if addr_model:
                    key = K_ADDR
                elif bad_own:
                    if var["actrange"] and all(abs(act[i] - _clip(a_ref[i], *var["actrange"])) <= TOL for i in bad_own):
                        key = K_ACTRANGE
                    elif var["dyntype"] == "filterexact":
                        key = K_FILTEREXACT
                part.violation(key, what, rep)
                part.add("pid_steps_violating")
            if len(seq) < SEQ_LEN:
                stack.append((seq, save()))
    d.free()
    m.free()
    return part


def _pid_chunk(chunk):
    total = core.Part()
    ctx = core.Ctx("C51", "quick", 0, LEVEL)
    ctx.max_samples = 2
    for job in chunk:
        ctx.merge(_pid_job(job))
    total["evaluations"] = ctx.evaluations
    total["nontrivial_count"] = len(ctx.nontrivial)
    total["samples"] = ctx.samples[:2]
    total["violations"] = [{"key": k, "what": w, "replay": r} for k, w, r in ctx.violations]
    total["extra"] = ctx.extra
    return total


# ------------------------------------------------------------------------------------------------ cable
E_BEND, G_TWIST = 4.0e6, 1.0e7
POSES = {
    "identity": ((0.0, 0.0, 0.0), (1.0, 0.0, 0.0, 0.0)),
    "offset+90x": ((0.3, -0.2, 0.5), (math.sqrt(0.5), math.sqrt(0.5), 0.0, 0.0)),
    "offset+generic": ((-0.4, 0.1, 0.25), (0.5, 0.5, 0.5, 0.5)),
}
SECTIONS = {
    "capsule r=5mm": ('type="capsule" size=".005"', "circle", (0.005,)),
    "cylinder r=8mm": ('type="cylinder" size=".008"', "circle", (0.008,)),
    "box 4x10mm": ('type="box" size="0.05 .002 .005"', "box", (0.002, 0.005)),
    "box 6x6mm": ('type="box" size="0.05 .003 .003"', "box", (0.003, 0.003)),
}
# curve name: (composite curve functions, composite size = (scale of s, radius, turns per unit s) for nseg segments)
CURVES = {
    "straight": ("s", lambda nseg: "%r" % (0.1 * nseg)),
    "arc": ("cos(s) sin(s) 0", lambda nseg: "1 0.3 0.2"),
    "helix": ("cos(s) sin(s) s", lambda nseg: "0.3 0.2 0.25"),
}


def rect_torsion_exact(hy, hz):
    """Saint-Venant torsion constant of a (2hy x 2hz) rectangle (series solution)."""
    a, b = 2 * max(hy, hz), 2 * min(hy, hz)     # full sides, a >= b
    s = 0.0
    for n in range(1, 60, 2):
        s += math.tanh(n * math.pi * a / (2 * b)) / n ** 5
    return a * b ** 3 / 3.0 * (1.0 - 192.0 * b / (math.pi ** 5 * a) * s)


def section_stiffness(kind, dims):
    """(G J, E Iy, E Iz) of the cross-section: standard beam theory (README: twist / bend moduli in Pa)."""
    if kind == "circle":
        r = dims[0]
        return G_TWIST * math.pi * r ** 4 / 2, E_BEND * math.pi * r ** 4 / 4, E_BEND * math.pi * r ** 4 / 4
    hy, hz = dims
    iy = (2 * hy) * (2 * hz) ** 3 / 12.0      # second moment about y: int z^2 dA
    iz = (2 * hz) * (2 * hy) ** 3 / 12.0
    return G_TWIST * rect_torsion_exact(hy, hz), E_BEND * iy, E_BEND * iz


def _hand_cable(prefix, nseg, section, initial, off):
    """hand-written straight cable: the body tree a composite cable expands to (composite rejects count=3, see report)."""
    kind, dims = SECTIONS[section][1], SECTIONS[section][2]
    L = 0.1
    if kind == "circle":
        gtype = "capsule" if section.startswith("capsule") else "cylinder"
        geom = '<geom type="%s" size="%r %r" pos="%r 0 0" quat="0.7071067811865476 0 0.7071067811865476 0"/>' % (
            gtype, dims[0], L / 2, L / 2)
    else:
        geom = '<geom type="box" size="%r %r %r" pos="%r 0 0"/>' % (L / 2, dims[0], dims[1], L / 2)
    xml = ""
    for k in reversed(range(nseg)):
        joint = '<joint type="ball" damping="0"/>'
        if k == 0:
            joint = {"none": "", "ball": joint, "free": '<freejoint/>'}[initial]
        pos = off if k == 0 else "%r 0 0" % L
        xml = '<body name="%sB%d" pos="%s">%s%s<plugin instance="%scable"/>%s</body>' % (prefix, k, pos, joint, geom, prefix, xml)
    return xml


def cable_xml(nseg, section, curve, initial, pose, flat=False, two=False, sleep=False):
    pos, quat = POSES[pose]
    geom = SECTIONS[section][0]
    conf = '<config key="twist" value="%r"/><config key="bend" value="%r"/>%s' % (
        G_TWIST, E_BEND, '<config key="flat" value="true"/>' if flat else "")
    hand = nseg == 2 or curve == "hand"
    ext = '<plugin plugin="mujoco.elasticity.cable">%s</plugin>' % (
        "".join('<instance name="%scable">%s</instance>' % (p, conf) for p in (("A", "B") if two else ("A",))) if hand else "")

    def comp(prefix, off):
        if hand:
            return _hand_cable(prefix, nseg, section, initial, off)
        return """<composite prefix="%s" type="cable" curve="%s" count="%d 1 1" size="%s" offset="%s" initial="%s">
      <plugin plugin="mujoco.elasticity.cable">%s</plugin>
      <joint kind="main" damping="0"/>
      <geom %s rgba=".8 .2 .1 1"/>
    </composite>""" % (prefix, CURVES[curve][0], nseg + 1, CURVES[curve][1](nseg), off, initial, conf, geom)

    posq = 'pos="%r %r %r" quat="%r %r %r %r"' % (pos + quat)
    if initial == "free":
        # free root: the cable must be a child of the world; the pose goes into the free joint's qpos
        body = comp("A", "0 0 0") + (comp("B", "0 1 0") if two else "")
    else:
        body = '<body name="base" %s>%s</body>' % (posq, comp("A", "0 0 0"))
        if two:
            body += '<body name="base2" pos="0 1 0">%s</body>' % comp("B", "0 0 0")
    return """<mujoco>
  <option gravity="0 0 -9.81">%s</option>
  <size memory="256K"/>
  <extension>%s</extension>
  <worldbody>%s</worldbody>
</mujoco>""" % ('<flag sleep="enable"/>' if sleep else "", ext, body)


def _quat_axis(axis, ang):
    q = [math.cos(ang / 2), 0.0, 0.0, 0.0]
    q[1 + axis] = math.sin(ang / 2)
    return q


def _set_free_pose(m, d, pose):
    from ..mjutil import quat_mul
    pos, quat = POSES[pose]
    for j in range(m.njnt):
        if m.jnt_type[j] == 0:
            a = int(m.jnt_qposadr[j])
            p0 = np.array(m.qpos0[a:a + 3])
            q0 = np.array(m.qpos0[a + 3:a + 7])
            d.qpos[a:a + 3] = p0 + np.array(pos)
            d.qpos[a + 3:a + 7] = quat_mul(np.array(quat), q0)


ANGLES = (0.1, -0.4, 1.2)
CABLE_TOL = 1e-9       # relative to the largest stiffness/length of the cable (noise observed ~1e-16)
BOX_TWIST_RTOL = 6e-3  # the textbook closed form for the rectangle torsion constant is accurate to ~0.5 %


def _cable_job(job):
    nseg, section, curve, initial, flat, two = job[:6]
    sleep = bool(job[6]) if len(job) > 6 else False      # the sleep flag enabled (no tree asleep): the laws are unchanged
    part = core.Part()
    lib = mj.load("rel")
    kind, dims = SECTIONS[section][1], SECTIONS[section][2]
    K = section_stiffness(kind, dims)
    base_tag = "cable%s nseg=%d section=%s curve=%s initial=%s flat=%s%s" % (" x2" if two else "", nseg, section, curve, initial, flat,
                                                                            " sleepflag" if sleep else "")
    if sleep:
        part.add("cable_models_with_sleep_flag")
    ref_forces = {}
    for pose in POSES:
        xml = cable_xml(nseg, section, curve, initial, pose, flat, two, sleep)
        try:
            m = lib.load_xml(xml)
            d = lib.make_data(m)
        except mj.MjError as e:
            part.count(1)
            part.violation("cable: valid model rejected", "%s pose=%s: %s" % (base_tag, pose, str(e)[:300]), dict(xml=xml))
            return part
        # cable bodies and their ball joints
        cb = [b for b in range(m.nbody) if m.body_plugin[b] >= 0]
        balls = []
        for b in cb:
            for j in range(int(m.body_jntadr[b]), int(m.body_jntadr[b]) + int(m.body_jntnum[b])):
                if m.jnt_type[j] == 1:
                    balls.append((b, j))
        # interior joints: a ball joint whose parent body is also a cable body
        interior = [(b, j) for b, j in balls if m.body_plugin[int(m.body_parentid[b])] >= 0]
        if initial == "free":
            # composite 'free' gives the first body a free joint (its last 3 dofs are the orientation)
            pass
        lib.mj_kinematics(m, d)
        seglen = {}
        for b, j in interior:
            seglen[j] = float(np.linalg.norm(np.array(d.xpos[b]) - np.array(d.xpos[int(m.body_parentid[b])])))
        scale = max(K) / min(seglen.values()) if seglen else max(K) / 0.1

        def passive():
            lib.mj_forward(m, d)
            return np.array(d.qfrc_passive)

        # ---- 1. stress-free configuration -> zero passive force (curved reference shape unless flat)
        lib.mj_resetData(m, d)
        if initial == "free":
            _set_free_pose(m, d, pose)
        q = passive()
        stress_free = (not flat) or curve in ("straight", "hand")
        part.count(1, key=(base_tag, pose, "rest") if stress_free else None,
                   sample=dict(case=base_tag, pose=pose, max_abs_qfrc_passive=float(np.max(np.abs(q))) if q.size else 0.0,
                               nv=int(m.nv)) if (pose == "offset+generic" and stress_free) else None)
        if stress_free:
            if q.size and not np.max(np.abs(q)) <= CABLE_TOL * scale:
                part.violation("cable: non-zero passive force in the stress-free configuration",
                               "%s pose=%s: max |qfrc_passive| = %.3g (stiffness/length scale %.3g)"
                               % (base_tag, pose, float(np.max(np.abs(q))), scale), dict(xml=xml, pose=pose))
        else:
            # flat=true on a curved cable: the rest shape is straight, so the XML shape must be stressed
            if q.size and interior and not np.max(np.abs(q)) > 1e-6 * scale:
                part.violation("cable: flat=true has no effect on a curved cable",
                               "%s pose=%s: qfrc_passive is zero" % (base_tag, pose), dict(xml=xml, pose=pose))
        forces = [q]
        # ---- 2. beam law: single-axis rotation of one interior joint of a straight cable
        if curve in ("straight", "hand"):
            for (b, j) in interior:
                qa, va = int(m.jnt_qposadr[j]), int(m.jnt_dofadr[j])
                for axis in range(3):
                    for ang in ANGLES:
                        lib.mj_resetData(m, d)
                        if initial == "free":
                            _set_free_pose(m, d, pose)
                        d.qpos[qa:qa + 4] = _quat_axis(axis, ang)
                        q = passive()
                        forces.append(q)
                        exp = np.zeros(m.nv)
                        exp[va + axis] = -K[axis] * ang / seglen[j]
                        rtol = BOX_TWIST_RTOL if (kind == "box" and axis == 0) else CABLE_TOL
                        err = np.abs(q - exp)
                        lim = np.full(m.nv, CABLE_TOL * scale)
                        lim[va + axis] += rtol * abs(exp[va + axis])
                        part.count(1, key=(base_tag, pose, j, axis, ang))
                        if np.any(err > lim):
                            i = int(np.argmax(err - lim))
                            part.violation(
                                "cable: moment differs from stiffness*angle/length [%s]"
                                % ("twist" if axis == 0 else "bend"),
                                "%s pose=%s joint %d rotated %.2f rad about local %s: qfrc_passive[%d]=%.9g, beam law %.9g "
                                "(K=%.6g, L=%.6g); full %s" % (base_tag, pose, j, ang, "xyz"[axis], i, q[i], exp[i], K[axis],
                                                               seglen[j], np.array2string(q, precision=6)),
                                dict(xml=xml, joint=j, axis=axis, angle=ang, pose=pose))
        # ---- 3. a generic multi-joint deformation for the invariance comparison
        lib.mj_resetData(m, d)
        if initial == "free":
            _set_free_pose(m, d, pose)
        for n, (b, j) in enumerate(interior):
            qa = int(m.jnt_qposadr[j])
            qq = np.array([1.0, 0.11 * (n + 1), -0.23, 0.07 * (n + 2)])
            d.qpos[qa:qa + 4] = qq / np.linalg.norm(qq)
        forces.append(passive())
        ref_forces[pose] = np.array(forces)
        # action = reaction: the elastic moments are internal, so the joint that carries a whole cable (free root: all 6
        # dofs; ball root: its 3 dofs) feels no net force in any configuration
        if initial in ("free", "ball") and interior:
            for b, j in [(b, j) for b in cb for j in range(int(m.body_jntadr[b]), int(m.body_jntadr[b]) + int(m.body_jntnum[b]))
                         if m.body_plugin[int(m.body_parentid[b])] < 0]:
                va = int(m.jnt_dofadr[j])
                nd = 6 if m.jnt_type[j] == 0 else 3
                for fi, fq in enumerate(forces):
                    part.count(1, key=(base_tag, pose, j, "net", fi) if np.max(np.abs(fq)) > 0 else None)
                    if np.max(np.abs(fq[va:va + nd])) > CABLE_TOL * scale:
                        part.violation("cable: net force / moment on the joint that carries the whole cable (action != reaction)",
                                       "%s pose=%s configuration %d: qfrc_passive on root joint %d = %s"
                                       % (base_tag, pose, fi, j, fq[va:va + nd]), dict(xml=xml, configuration=fi))
        d.free()
        m.free()
    # ---- 4. rigid-body invariance of the generalised forces
    names = list(ref_forces)
    for p in names[1:]:
        a, b = ref_forces[names[0]], ref_forces[p]
        part.count(a.shape[0], key=(base_tag, p, "invariance"))
        if a.shape != b.shape:
            raise RuntimeError("harness: shapes differ")
        if a.size:
            err = np.max(np.abs(a - b))
            sc = max(K) / 0.1
            if not err <= 1e-9 * sc * 10:
                i = np.unravel_index(int(np.argmax(np.abs(a - b))), a.shape)
                part.violation("cable: generalised forces change under a rigid motion of the whole cable",
                               "%s: pose %s vs %s, configuration %d dof %d: %.12g vs %.12g"
                               % (base_tag, names[0], p, i[0], i[1], a[i], b[i]), dict(case=base_tag, pose=p))
    return part


def _cable_chunk(chunk):
    total = core.Part()
    ctx = core.Ctx("C51", "quick", 0, LEVEL)
    ctx.max_samples = 2
    for job in chunk:
        ctx.merge(_cable_job(job))
    total["evaluations"] = ctx.evaluations
    total["nontrivial_count"] = len(ctx.nontrivial)
    total["samples"] = ctx.samples[:2]
    total["violations"] = [{"key": k, "what": w, "replay": r} for k, w, r in ctx.violations]
    total["extra"] = ctx.extra
    return total


# ------------------------------------------------------------------------------------------------ isolation
def iso_scenarios():
    """(name, xml): at least two plugin instances each; keyframe 0 gives a non-trivial state."""
    out = []
    full = dict(kp=1.5, ki=1.5, kd=1.5, imax=0.2, slew=0.5)
    pd = dict(kp=1.5, ki=0.0, kd=1.5, imax=None, slew=None)
    pi_ = dict(kp=0.0, ki=1.5, kd=0.0, imax=None, slew=0.5)
    v_none = dict(dyntype="none", actearly=False, actrange=None, ctrlrange=None)
    v_filt = dict(dyntype="filter", actearly=True, actrange=None, ctrlrange=(-0.5, 0.5))
    v_int = dict(dyntype="integrator", actearly=False, actrange=(-0.05, 0.05), ctrlrange=None)

    def key(xml, nq, nv, na, nu):
        qpos = " ".join(["0.3"] + ["1 0 0 0"] + ["-0.2", "0.15"])
        k = '<keyframe><key qpos="%s" qvel="%s"%s ctrl="%s"/></keyframe>' % (
            qpos, " ".join(["-0.7", "0.1", "0.2", "-0.3", "0.5", "-0.4"]),
            (' act="%s"' % " ".join("%r" % (0.01 * (i + 1)) for i in range(na))) if na else "",
            " ".join("%r" % (0.4 - 0.3 * i) for i in range(nu)))
        return xml.replace("</mujoco>", k + "</mujoco>")

    lib = mj.load("rel")
    for name, c1, v1, c2, v2, prefix in (
            ("pid(full)+pid(pd)", full, v_none, pd, v_none, "motor"),
            ("pid(full,filter,actearly)+pid(pi,integrator)", full, v_filt, pi_, v_int, "motor"),
            ("pid(pd)+pid(full,filter) no prefix", pd, v_none, full, v_filt, "none"),
            ("pid behind orientation[expmap]", full, v_none, pd, v_none, "orientation[expmap]"),
            ("pid behind pid[pos,vel]", full, v_none, pi_, v_int, "pid[pos,vel]")):
        xml = pid_xml(c1, v1, prefix, second=(c2, v2))
        try:
            m = lib.load_xml(xml)
            xml = key(xml, m.nq, m.nv, m.na, m.nu)
            m.free()
        except mj.MjError:
            pass
        out.append((name, xml, prefix))
    # two cable instances (separate trees) + a PID actuator in one model
    cab = cable_xml(3, "capsule r=5mm", "arc", "ball", "offset+generic", two=True)
    cab = cab.replace("<extension>", '<extension><plugin plugin="mujoco.pid"><instance name="pid"><config key="kp" '
                      'value="1.5"/><config key="ki" value="1.5"/></instance></plugin>')
    cab = cab.replace("</worldbody>", '<body pos="0 -1 0"><joint name="j" type="slide"/><geom size=".1"/></body></worldbody>'
                      '<actuator><plugin joint="j" plugin="mujoco.pid" instance="pid" actdim="1"/></actuator>')
    out.append(("cable+cable+pid", cab, "none"))
    cab2 = cable_xml(2, "box 4x10mm", "straight", "free", "identity", two=True)
    out.append(("cable(free)+cable(free)", cab2, "none"))
    # sensor plugin next to an actuator plugin, with a flex (contact.geom = -1) resting on the floor
    out.append(("touch_grid+pid with a flex contact", TOUCH_FLEX_XML, "touch_grid+flex"))
    return out


TOUCH_FLEX_XML = """<mujoco>
  <option timestep="0.002"/>
  <size memory="2M"/>
  <extension>
    <plugin plugin="mujoco.sensor.touch_grid"/>
    <plugin plugin="mujoco.pid"><instance name="pid"><config key="kp" value="1.5"/></instance></plugin>
  </extension>
  <worldbody>
    <geom name="floor" type="plane" size="0 0 0.1"/>
    <body name="pad" pos="0 0 0.049">
      <joint name="j" type="slide" axis="0 0 1"/>
      <geom type="box" size=".05 .05 .05"/>
      <site name="touch" pos="0 0 -0.05" zaxis="0 0 -1"/>
    </body>
    <flexcomp name="soft" type="grid" count="2 2 2" spacing=".1 .1 .1" pos="1 0 0.005" radius="0.01" dim="3" mass="0.2"
              dof="trilinear">
      <contact selfcollide="none" internal="false"/>
      <elasticity young="1e3" poisson="0.2"/>
    </flexcomp>
  </worldbody>
  <actuator><plugin joint="j" plugin="mujoco.pid" instance="pid"/></actuator>
  <sensor>
    <plugin name="tg" plugin="mujoco.sensor.touch_grid" objtype="site" objname="touch">
      <config key="size" value="3 3"/><config key="fov" value="60 60"/><config key="gamma" value="0"/>
      <config key="nchannel" value="3"/>
    </plugin>
  </sensor>
</mujoco>"""

# scenario class -> canonical key of a crash / rejection / foreign write in that scenario
_SCEN_KEY = {"touch_grid+flex": K_TOUCH}


def _scen_key(prefix, default):
    if prefix in _SCEN_KEY:
        return _SCEN_KEY[prefix]
    return K_ADDR if prefix not in ("none", "motor") else default


def _iso_allowed(m, inst, cb, plugin_name):
    """set of (field, index) that callback cb of instance inst may write."""
    ok = set()
    if plugin_name == "mujoco.pid":
        for a in range(m.nactuator):
            if m.actuator_plugin[a] != inst:
                continue
            if cb == "compute":
                for o in range(int(m.actuator_outadr[a]), int(m.actuator_outadr[a]) + int(m.actuator_outnum[a])):
                    ok.add(("actuator_force", o))
            if cb == "act_dot":
                nown = int(m.actuator_actnum[a]) - (0 if m.actuator_dyntype[a] == 0 else 1)
                for s in range(int(m.actuator_actadr[a]), int(m.actuator_actadr[a]) + nown):
                    ok.add(("act_dot", s))
    elif plugin_name == "mujoco.sensor.touch_grid":
        if cb == "compute":
            for i in range(m.nsensor):
                if m.sensor_plugin[i] == inst:
                    for k in range(int(m.sensor_adr[i]), int(m.sensor_adr[i]) + int(m.sensor_dim[i])):
                        ok.add(("sensordata", k))
    elif plugin_name == "mujoco.elasticity.cable":
        if cb == "compute":
            for b in range(m.nbody):
                if m.body_plugin[b] != inst:
                    continue
                a = b
                while a > 0:
                    for k in range(int(m.body_dofadr[a]), int(m.body_dofadr[a]) + int(m.body_dofnum[a])):
                        ok.add(("qfrc_passive", k))
                    a = int(m.body_parentid[a])
    return ok


def _iso_run(exe, xmls):
    """run the driver on several models in one process; returns {index: stdout section or None if it did not finish}."""
    tmp = tempfile.mkdtemp(prefix="verif_c51_")
    paths = []
    for i, x in enumerate(xmls):
        p = os.path.join(tmp, "m%d.xml" % i)
        with open(p, "w") as fh:
            fh.write(x)
        paths.append(p)
    r = subprocess.run([exe] + paths, capture_output=True, text=True, env=rx.env(False))
    for p in paths:
        os.unlink(p)
    os.rmdir(tmp)
    out = {}
    cur, buf = None, []
    for line in r.stdout.splitlines():
        f = line.split()
        if f and f[0] == "MODEL":
            cur, buf = int(f[1]), []
        elif f and f[0] == "DONE" and cur is not None:
            out[cur] = buf
            cur = None
        elif cur is not None:
            buf.append(line)
    return out, r


def _iso_job(job):
    """job: (exe, [(name, xml, prefix), ...]) evaluated in one driver process (one process per scenario after a crash)."""
    exe, scen = job
    part = core.Part()
    lib = mj.load("rel")
    out, r = _iso_run(exe, [x for _, x, _ in scen])
    for i, (name, xml, prefix) in enumerate(scen):
        lines, rr = out.get(i), r
        if lines is None and len(scen) > 1:
            o1, rr = _iso_run(exe, [xml])
            lines = o1.get(0)
        _iso_eval(part, lib, name, xml, prefix, lines, rr)
    return part


def _iso_eval(part, lib, name, xml, prefix, lines, r):
    addr_model = prefix not in ("none", "motor", "touch_grid+flex")
    rep = dict(scenario=name, xml=xml)
    if lines is None:
        summ = re.search(r"SUMMARY: (.*)", r.stderr)
        kind = re.search(r"ERROR: AddressSanitizer: ([\w-]+)", r.stderr)
        where = ""
        mo = re.search(r"\((/[^()\s]+\.so)\+(0x[0-9a-f]+)\)", summ.group(1)) if summ else None
        if mo:
            where = " in " + rx.symbolize(mo.group(1), mo.group(2))
        what = "isolation driver died rc=%d on '%s': %s%s %s" % (
            r.returncode, name, kind.group(1) if kind else "", where, (summ.group(1)[:200] if summ else r.stderr[-300:]))
        part.count(1, key=("crash", name))
        part.violation(_scen_key(prefix, "plugin callback: sanitizer report / crash"), what, rep)
        return
    try:
        m = lib.load_xml(xml)
    except mj.MjError as e:
        part.count(1)
        part.violation(_scen_key(prefix, "isolation: model rejected"), "%s: %s" % (name, e), rep)
        return
    names = {}
    calls = []
    changes = {}
    for line in lines:
        f = line.split()
        if not f:
            continue
        if f[0] == "INST":
            names[int(f[1])] = f[2]
        elif f[0] == "CALL":
            calls.append((int(f[1]), f[2]))
            changes[(int(f[1]), f[2])] = []
        elif f[0] == "CHG":
            if f[3] != "plugin_data":       # the deep copy owns distinct plugin objects (pointer values differ)
                changes[(int(f[1]), f[2])].append((f[3], int(f[4])))
        elif f[0] == "ERR":
            part.violation(_scen_key(prefix, "plugin callback raised mju_error"), "%s: %s" % (name, line), rep)
    if len(names) < 2:
        raise RuntimeError("harness: isolation scenario %s has < 2 plugin instances: %r" % (name, lines[:5]))
    for (inst, cb) in calls:
        allowed = _iso_allowed(m, inst, cb, names[inst])
        ch = changes[(inst, cb)]
        wrote_own = [c for c in ch if c in allowed]
        part.count(1, key=(name, inst, cb) if ch else None,
                   sample=dict(scenario=name, instance=inst, plugin=names[inst], callback=cb, changed=ch[:12])
                   if wrote_own else None)
        part.add("isolation_callbacks")
        bad = [c for c in ch if c not in allowed]
        if bad:
            key = K_ADDR if addr_model else ("isolation: %s.%s writes outside its own slices" % (names[inst], cb))
            part.violation(key, "%s: instance %d (%s) callback %s changed %s; its own slices are %s"
                           % (name, inst, names[inst], cb, bad[:10], sorted(allowed)[:16]), rep)
        # the callback must do its job: an actuator compute writes all of its own force slots
        if cb == "compute" and names[inst] == "mujoco.pid" and not addr_model:
            missing = [a for a in allowed if a not in ch]
            if missing:
                part.violation("isolation: pid compute leaves its own force slot unwritten",
                               "%s: instance %d did not write %s" % (name, inst, missing), rep)
    m.free()


def _iso_chunk(chunk):
    total = core.Part()
    ctx = core.Ctx("C51", "quick", 0, LEVEL)
    ctx.max_samples = 2
    for job in chunk:
        ctx.merge(_iso_job(job))
    total["evaluations"] = ctx.evaluations
    total["nontrivial_count"] = len(ctx.nontrivial)
    total["samples"] = ctx.samples[:1]
    total["violations"] = [{"key": k, "what": w, "replay": r} for k, w, r in ctx.violations]
    total["extra"] = ctx.extra
    return total


# ------------------------------------------------------------------------------------------------ README act units
def _readme_units(ctx, lib):
    """README: the ki activation variable contains 'the current I term (in units of force)'."""
    cfg = dict(kp=0.0, ki=1.5, kd=0.0, imax=None, slew=None)
    var = dict(dyntype="none", actearly=False, actrange=None, ctrlrange=None)
    xml = pid_xml(cfg, var)
    m = lib.load_xml(xml)
    d = lib.make_data(m)
    d.qpos[int(m.jnt_qposadr[2])] = Q0
    d.ctrl[0] = 1.0
    lib.mj_step(m, d)
    e = 1.0 - Q0
    i_force, i_err = 1.5 * e * DT, e * DT
    act = float(d.act[0])
    # what the tree's README documents for the ki activation variable
    with open(os.path.join(build.REPO, "plugin/actuator/README.md")) as fh:
        rows = [l for l in fh.read().splitlines() if l.startswith("|`ki`")]
    if len(rows) != 1:
        raise RuntimeError("harness: ki row not found in plugin/actuator/README.md")
    doc_force = "units of force" in rows[0]
    expect = i_force if doc_force else i_err
    ctx.count(1, key="readme-units")
    ctx.extra["readme_ki_state_documented_as"] = "I term in units of force" if doc_force else "error integral"
    if abs(act - expect) > 1e-9:
        ctx.violation(K_README_UNITS, "ki=1.5, error %.3g for one step of %.3g s: act[0]=%.12g; README (%s) %.12g; I term in "
                      "units of force %.12g, error integral %.12g"
                      % (e, DT, act, "I term in units of force" if doc_force else "error integral", expect, i_force, i_err),
                      dict(xml=xml, ctrl=1.0, qpos0=Q0))
    d.free()
    m.free()


# ------------------------------------------------------------------------------------------------ run
def registered_plugins(lib):
    import ctypes
    lib.c.mjp_getPluginAtSlot.restype = ctypes.c_void_p
    out = []
    for i in range(lib.mjp_pluginCount()):
        p = lib.c.mjp_getPluginAtSlot(i)
        out.append(ctypes.cast(p, ctypes.POINTER(ctypes.c_char_p))[0].decode())
    return out


def _serial(ctx, fn, jobs, size=48):
    """The lattices cost a few CPU seconds in total: evaluated in-process (a forked pool costs more than it saves here).
    The seed only rotates the order of the slices."""
    slices = [jobs[i:i + size] for i in range(0, len(jobs), size)]
    r = ctx.seed % len(slices)
    for sl in slices[r:] + slices[:r]:
        ctx.merge(fn(sl))


def run(ctx):
    global SEQ_LEN, ANGLES
    SEQ_LEN = ctx.q(4, 6)                 # evaluated in-process (_serial), so the module globals are the bound
    ANGLES = ctx.q((0.1, -0.4, 1.2), (0.01, 0.1, -0.4, 1.2, -2.0, 3.0))
    lib = mj.load("rel")
    plugs = registered_plugins(lib)
    ctx.extra["registered_plugins"] = plugs
    for need in ("mujoco.pid", "mujoco.elasticity.cable"):
        if need not in plugs:
            raise RuntimeError("plugin %s is not registered after loading the tree library (static initialisers dropped?)" % need)

    # ---- PID lattice
    cfgs = list(pid_cfgs())
    variants = list(pid_variants())
    jobs = [(c, v, "none") for c in cfgs for v in variants]
    # actuators in front of the PID actuator: all gain/limit configurations x {direct control, filter+actearly}
    front = [v for v in variants if (v["dyntype"], v["actearly"], v["actrange"], v["ctrlrange"]) in
             (("none", False, None, None), ("none", False, None, (-0.5, 0.5)), ("filter", True, None, None))]
    for prefix in PREFIXES:
        if prefix == "none":
            continue
        jobs += [(c, v, prefix) for c in cfgs for v in front]
    ctx.extra["pid_models"] = len(jobs)
    global DT
    dts = ctx.q((0.1,), (0.1, 0.02))      # thorough: a second timestep (limiters engage at other steps)
    for DT in dts:
        _serial(ctx, _pid_chunk, jobs)
    DT = 0.1
    ctx.extra["pid_timesteps"] = list(dts)
    _readme_units(ctx, lib)

    # ---- cable lattice
    cjobs = []
    for nseg in (2, 3, 4):
        for section in SECTIONS:
            for curve in list(CURVES) + ["hand"]:
                if (nseg == 2) != (curve == "hand") and not (nseg == 3 and curve == "hand"):
                    continue          # 2 segments: hand-written bodies only (+ one hand-written 3-segment cross-check)
                for initial in ("none", "ball", "free"):
                    for flat in (False, True):
                        if flat and curve in ("straight", "hand"):
                            continue
                        cjobs.append((nseg, section, curve, initial, flat, False))
    # two cable instances in one model (second instance: other bodies, other dofs): the same laws for both
    for nseg in (2, 3):
        for initial in ("none", "ball", "free"):
            cjobs.append((nseg, "capsule r=5mm", "hand" if nseg == 2 else "straight", initial, False, True))
            cjobs.append((nseg, "box 4x10mm", "hand" if nseg == 2 else "arc", initial, False, True))
    # the same laws with the sleep flag enabled (no tree is asleep): quick covers the 3-segment capsule cables and the two-instance
    # models, thorough every job (the plugin is constructed by mj_makeData before the data is reset)
    cjobs += [j + (True,) for j in cjobs if ctx.thorough or j[5] or (j[0] == 3 and j[1].startswith("capsule"))]
    ctx.extra["cable_models"] = len(cjobs) * len(POSES)
    _serial(ctx, _cable_chunk, cjobs)

    # ---- isolation
    exe = build.ensure_exe("c51_iso", ["drivers/c51_iso.cc"], variant="asan")
    scen = iso_scenarios()
    plain = [s for s in scen if s[2] in ("none", "motor")]
    ijobs = [(exe, plain)] + [(exe, [s]) for s in scen if s[2] not in ("none", "motor")]     # crash-prone: own process
    ctx.extra["isolation_scenarios"] = len(scen)
    with cf.ThreadPoolExecutor(max_workers=len(ijobs)) as ex:      # one sanitizer-build driver process per job
        for part in ex.map(_iso_chunk, [[j] for j in ijobs]):
            ctx.merge(part)

    nseq = sum(len(CTRL_ALPHABET) ** k for k in range(1, SEQ_LEN + 1))
    ctx.rule = (
        "PID: (kp,ki,kd) in {0,1.5}^3 x imax in {none,0.2} x slewmax in {none,0.5} = %d configurations x %d actuator variants "
        "(dyntype none | {integrator,filter,filterexact} x actearly x actrange{none,+-0.05}; x ctrlrange{none,+-0.5}) x ALL %d "
        "control sequences of length 1..%d over {-1,0,1} (timestep %s, slide joint mass 1, qpos0 %g, qvel0 %g); plus the %d "
        "configurations x 3 variants behind each of %d kinds of preceding actuator (motor, pid[pos,vel], pid[pos,vel,ff], "
        "orientation[expmap], orientation[quat], dcmotor[no input]; their controls held at 0.77).  Each (model, sequence "
        "prefix) is one evaluation: actuator_force and the act slots after the step are compared with the reference PID; "
        "non-trivial = a limiter (I clip, slew, ctrl clamp, act clamp) is active or the force is non-zero.  "
        "Cable: segments {2,3,4} x cross-section {capsule, cylinder, box 4x10, box 6x6} x shape {straight, arc, helix} x root "
        "{welded, ball, free} x flat{false,true} x 3 rigid poses: rest configuration (zero force unless flat on a curved "
        "cable), every interior joint x axis{x,y,z} x angle%s on straight cables (moment = K*angle/L), a generic "
        "bent configuration; forces compared across poses.  Isolation: %d scenarios with >= 2 plugin instances, every "
        "callback (act_dot, compute, advance) of every instance invoked alone on sentinel-filled actuator_force / act_dot / "
        "qfrc_passive / qfrc_actuator / plugin_state / sensordata and all of mjData diffed against a deep copy."
        % (len(cfgs), len(variants), nseq, SEQ_LEN, list(dts), Q0, V0, len(cfgs), len(PREFIXES) - 1, ANGLES, len(scen)))
    ctx.assumptions = [
        "README is silent on discretisation: integral includes the current error (backward rectangle), set-point rate is the "
        "act_dot of the dyntype state (0 for direct control), the first step after time 0 is not slew-limited, controller "
        "states are advanced with the current activation while the force uses the next activation when actearly "
        "(conventions of the tree's test/plugin/actuator/pid_test.cc)",
        "act slot order [integral, previous set-point, dyntype state] (README + extension.rst 'Actuator states')",
        "cable law checked for single-axis rotations of a straight cable; rectangle torsion constant compared with the exact "
        "Saint-Venant series to 0.6 %",
        "plugin_state isolation is vacuous for these plugins (nstate = 0)",
        "tolerances: PID 1e-9 relative (noise < 1e-14); cable 1e-9 of stiffness/length (noise ~1e-16)",
    ]
