"""C27 reference model (numpy), written from doc/computation/index.rst (Actuation model), doc/XMLreference.rst
(actuator/general ... actuator/dcmotor, joint/tendon actuatorfrcrange, option/actuatorgroupdisable, flag/clampctrl),
doc/modeling.rst (Actuators: shortcuts, force limits, activation limits, muscles) and doc/_static/FLV.m.

Nothing here reads engine Jacobians: moments are obtained by virtual work from finite differences of *frames*
(xpos/xmat/site_xpos/site_xmat after mj_kinematics) or as finite differences of the documented length.
"""
from __future__ import annotations

import math

import numpy as np

# ------------------------------------------------------------------ documented muscle model (modeling.rst + FLV.m)


def bump(L, A, mid, B):
    """FLV.m: skewed bump function, quadratic spline."""
    left = 0.5 * (A + mid)
    right = 0.5 * (mid + B)
    if L <= A or L >= B:
        return 0.0
    if L < left:
        x = (L - A) / (left - A)
        return 0.5 * x * x
    if L < mid:
        x = (mid - L) / (mid - left)
        return 1 - 0.5 * x * x
    if L < right:
        x = (L - mid) / (right - mid)
        return 1 - 0.5 * x * x
    x = (B - L) / (B - right)
    return 0.5 * x * x


def FL_doc(L, lmin, lmax):
    """FLV.m: length-active."""
    return bump(L, lmin, 1.0, lmax) + 0.15 * bump(L, lmin, 0.5 * (lmin + 0.95), 0.95)


def FL_primary(L, lmin, lmax):
    """first term of FLV.m's FL only (used to attribute a deviation, never as the expected value)."""
    return bump(L, lmin, 1.0, lmax)


def FV_doc(V, fvmax):
    """FLV.m: velocity-active; V already divided by vmax."""
    c = fvmax - 1
    if V <= -1:
        return 0.0
    if V <= 0:
        return (V + 1) * (V + 1)
    if V <= c:
        return fvmax - (c - V) * (c - V) / c
    return fvmax


def FP_doc(L, lmax, fpmax):
    """FLV.m: length-passive (FP(lmax) == fpmax, as the attribute documentation of fpmax says)."""
    b = 0.5 * (1 + lmax)
    if L <= 1:
        return 0.0
    if L <= b:
        x = (L - 1) / (b - 1)
        return 0.25 * fpmax * x * x * x
    x = (L - b) / (b - 1)
    return 0.25 * fpmax * (1 + 3 * x)


def FP_halfquad(L, lmax, fpmax):
    """half-quadratic variant (used to attribute a deviation, never as the expected value): FP(lmax) = 1.5 fpmax."""
    b = 0.5 * (1 + lmax)
    if L <= 1:
        return 0.0
    if L <= b:
        x = (L - 1) / (b - 1)
        return 0.5 * fpmax * x * x
    x = (L - b) / (b - 1)
    return fpmax * (0.5 + x)


def muscle_scaled(length, velocity, lengthrange, prm):
    """modeling.rst: L0, LT from the two range equations; L = (len-LT)/L0, V = vel/L0 (then /vmax as in FLV.m)."""
    r0, r1 = prm[0], prm[1]
    L0 = (lengthrange[1] - lengthrange[0]) / (r1 - r0)
    LT = lengthrange[0] - r0 * L0
    L = (length - LT) / L0
    V = velocity / L0 / prm[6]
    return L, V


def muscle_F0(acc0, prm):
    """peak active force: 'force' attribute, or scale/acc0 when it is negative."""
    return prm[2] if prm[2] >= 0 else prm[3] / acc0


def muscle_gain(length, velocity, lengthrange, acc0, prm, fl=FL_doc):
    L, V = muscle_scaled(length, velocity, lengthrange, prm)
    return -muscle_F0(acc0, prm) * fl(L, prm[4], prm[5]) * FV_doc(V, prm[8])


def muscle_bias(length, lengthrange, acc0, prm, fp=FP_doc):
    L, _ = muscle_scaled(length, 0.0, lengthrange, prm)
    return -muscle_F0(acc0, prm) * fp(L, prm[5], prm[7])


def sigmoid(x):
    """quintic smooth step on [0,1] (APIreference: 'sigmoid function over 0<=x<=1 using quintic polynomial')."""
    if x <= 0:
        return 0.0
    if x >= 1:
        return 1.0
    return 6 * x ** 5 - 15 * x ** 4 + 10 * x ** 3


def muscle_dyn(ctrl, act, prm):
    """modeling.rst: d act/dt = (ctrl-act)/tau(ctrl,act); ctrl clamped to [0,1]; Millard time constants;
    tausmooth>0: sigmoid interpolation over (ctrl-act) +- tausmooth/2."""
    u = min(max(ctrl, 0.0), 1.0)
    a = min(max(act, 0.0), 1.0)          # time constants are defined for activations in [0,1]
    tau_act = prm[0] * (0.5 + 1.5 * a)
    tau_deact = prm[1] / (0.5 + 1.5 * a)
    dctrl = u - act
    w = prm[2]
    if w <= 0:
        tau = tau_act if dctrl > 0 else tau_deact
    else:
        tau = tau_deact + (tau_act - tau_deact) * sigmoid(dctrl / w + 0.5)
    return dctrl / tau


# ------------------------------------------------------------------ rotations

def mat2expmap(R):
    """rotation matrix -> axis*angle, angle in [0, pi]."""
    R = np.asarray(R, float).reshape(3, 3)
    w = np.array([R[2, 1] - R[1, 2], R[0, 2] - R[2, 0], R[1, 0] - R[0, 1]])
    s = np.linalg.norm(w) / 2          # sin(angle)
    c = (np.trace(R) - 1) / 2            # cos(angle)
    ang = math.atan2(s, c)
    if s > 1e-8:
        return w / (2 * s) * ang
    if c > 0:
        return w / 2                    # small angle
    # angle ~ pi: axis from the symmetric part
    S = (R + np.eye(3)) / 2
    k = int(np.argmax(np.diag(S)))
    ax = S[:, k] / math.sqrt(max(S[k, k], 1e-300))
    if np.dot(ax, w) < 0:
        ax = -ax
    return ax * ang


def quat2expmap(q):
    """unit quaternion -> axis*angle with angle in (-pi, pi] (the documented wrap of ball-joint lengths)."""
    q = np.asarray(q, float)
    q = q / np.linalg.norm(q)
    s = np.linalg.norm(q[1:])
    if s < 1e-300:
        return np.zeros(3)
    ang = 2 * math.atan2(s, q[0])
    if ang > math.pi:
        ang -= 2 * math.pi
    return q[1:] / s * ang


def skew_vec(A):
    return np.array([A[2, 1] - A[1, 2], A[0, 2] - A[2, 0], A[1, 0] - A[0, 1]]) / 2


# ------------------------------------------------------------------ frames and their finite differences

class Frames:
    """positions/orientations of bodies and sites at q, plus their derivative w.r.t. every dof (central FD along
    mj_integratePos): dp[obj] (3 x nv) and W[obj] (3 x nv, world-frame angular velocity per unit dof velocity)."""

    EPS = 1e-6

    def __init__(self, lib, m, d, q, deriv=True):
        self.nv = nv = m.nv
        self.q = np.array(q, float)
        qsave = np.array(d.qpos)
        d.qpos[:] = self.q
        lib.mj_kinematics(m, d)
        self.xpos = np.array(d.xpos)
        self.xmat = np.array(d.xmat).reshape(-1, 3, 3)
        self.spos = np.array(d.site_xpos)
        self.smat = np.array(d.site_xmat).reshape(-1, 3, 3)
        self.plus, self.minus = [], []
        if deriv:
            nb, ns = m.nbody, m.nsite
            self.dxpos = np.zeros((nb, 3, nv))
            self.Wx = np.zeros((nb, 3, nv))
            self.dspos = np.zeros((ns, 3, nv))
            self.Ws = np.zeros((ns, 3, nv))
            for i in range(nv):
                e = np.zeros(nv)
                e[i] = 1.0
                fr = []
                for sgn in (1.0, -1.0):
                    qq = self.q.copy()
                    lib.mj_integratePos(m, qq, e, sgn * self.EPS)
                    d.qpos[:] = qq
                    lib.mj_kinematics(m, d)
                    fr.append((qq, np.array(d.xpos), np.array(d.xmat).reshape(-1, 3, 3), np.array(d.site_xpos),
                               np.array(d.site_xmat).reshape(-1, 3, 3)))
                (qp, xp, Xp, sp, Sp), (qm, xm, Xm, sm, Sm) = fr
                self.plus.append(fr[0])
                self.minus.append(fr[1])
                self.dxpos[:, :, i] = (xp - xm) / (2 * self.EPS)
                self.dspos[:, :, i] = (sp - sm) / (2 * self.EPS)
                for b in range(nb):
                    self.Wx[b, :, i] = skew_vec(Xp[b] @ Xm[b].T) / (2 * self.EPS)
                for s in range(ns):
                    self.Ws[s, :, i] = skew_vec(Sp[s] @ Sm[s].T) / (2 * self.EPS)
        d.qpos[:] = qsave

    def fd(self, fn):
        """central FD of a scalar function of (q, xpos, xmat, spos, smat) over all dofs."""
        g = np.zeros(self.nv)
        for i in range(self.nv):
            g[i] = (fn(*self.plus[i]) - fn(*self.minus[i])) / (2 * self.EPS)
        return g


def clip(x, lo, hi):
    return np.minimum(np.maximum(x, lo), hi)
