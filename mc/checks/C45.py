"""C45 MJX dynamics have correct gradients.

For every model of a small smooth alphabet (contact-free, steadily-constrained, steadily-in-contact; mass distribution
{every body massive, massless marker leaf = zero SUBTREE mass, massless frame body with a massive child}) and every state of
a smooth lattice, the Jacobian of five scalar probes of forward()/step() with respect to
(qpos tangent, qvel, ctrl, act, body_mass, dof_damping, actuator gain) obtained from JAX autodiff
(reverse mode = what jax.grad uses; forward mode where reverse mode is undefined) must be finite and equal to
central differences of the SAME jitted function.
"""
from __future__ import annotations

import os

import numpy as np

from .. import core, mj
from . import _c43_gen as G
from . import _c43_mjx as H

LEVEL = "exploration"
META = dict(
    category=LEVEL,
    technique="bounded exhaustive enumeration of smooth models x smooth state lattice x parameter blocks x probes; oracle: "
              "central finite differences of the same jitted float64 function",
    text="Every (model, state) of the lattice is differentiated once by JAX (jacrev = the vjp machinery behind jax.grad; "
         "jacfwd for the converged constraint solver whose while_loop has no reverse rule) and once by central differences "
         "coordinate by coordinate; every entry of every Jacobian block is compared.  Probes: weighted sum of qacc, "
         "||next qpos||^2, weighted sum of next qvel, weighted sum of sensordata, weighted sum of bias+passive+actuator forces.",
    note="Finite differences and autodiff are taken of the identical MJX function, so the oracle is independent of the C engine. "
         "qpos is perturbed through a smooth exponential-map tangent written in the check (not MJX's quat_integrate). "
         "Tolerance |g-fd| <= 1e-5*blockscale + 1e-6*(1+|f|); Richardson-extrapolated central differences, steps h and h/2, h = 2e-5*max(1,|x|).",
    design_ref="DESIGN.md §3 C45")

RTOL, ATOL = 1e-5, 1e-6
H_STEP = 2e-5


def quat_mul(jp, a, b):
    return jp.array([a[0] * b[0] - a[1] * b[1] - a[2] * b[2] - a[3] * b[3],
                     a[0] * b[1] + a[1] * b[0] + a[2] * b[3] - a[3] * b[2],
                     a[0] * b[2] - a[1] * b[3] + a[2] * b[0] + a[3] * b[1],
                     a[0] * b[3] + a[1] * b[2] - a[2] * b[1] + a[3] * b[0]])


def quat_exp(jp, w):
    """Smooth exponential map (finite derivative at w=0)."""
    n = jp.sqrt(jp.dot(w, w) + 1e-300)
    return jp.concatenate([jp.cos(n / 2)[None], 0.5 * w * jp.sinc(n / (2 * jp.pi))])


def tangent_qpos(jp, jnt_type, q0, dq):
    out, qi, vi = [], 0, 0
    for t in jnt_type:
        if t == 0:
            out.append(q0[qi:qi + 3] + dq[vi:vi + 3])
            out.append(quat_mul(jp, q0[qi + 3:qi + 7], quat_exp(jp, dq[vi + 3:vi + 6])))
            qi, vi = qi + 7, vi + 6
        elif t == 1:
            out.append(quat_mul(jp, q0[qi:qi + 4], quat_exp(jp, dq[vi:vi + 3])))
            qi, vi = qi + 4, vi + 3
        else:
            out.append(q0[qi:qi + 1] + dq[vi:vi + 1])
            qi, vi = qi + 1, vi + 1
    return jp.concatenate(out) if out else jp.zeros(0)


def make_probe(J, mx, dx0, jnt_type):
    jp, fwd = J.jp, J.fwd

    def p(theta, base):
        m2 = mx.replace(body_mass=theta["body_mass"], dof_damping=theta["dof_damping"],
                        actuator_gainprm=mx.actuator_gainprm.at[:, 0].add(theta["gain"]))
        q = tangent_qpos(jp, jnt_type, base["qpos"], theta["dq"])
        d = dx0.replace(qpos=q, qvel=theta["qvel"], ctrl=theta["ctrl"], act=theta["act"])
        df = fwd.forward(m2, d)
        orig = fwd.forward

        def memo(m_, d_):
            if d_ is d and m_ is m2:
                return df
            return orig(m_, d_)
        fwd.forward = memo
        try:
            ds = fwd.step(m2, d)
        finally:
            fwd.forward = orig
        w = lambda x: jp.sum(x * (1.0 + 0.1 * jp.arange(x.shape[0]))) if x.shape[0] else jp.zeros(())
        return jp.stack([w(df.qacc), jp.sum(ds.qpos ** 2), w(ds.qvel) + w(ds.act), w(df.sensordata),
                         w(df.qfrc_bias) + w(df.qfrc_passive) + w(df.actuator_force)])
    return p


PROBES = ["sum_w qacc", "|next qpos|^2", "sum_w next qvel+act", "sum_w sensordata", "sum_w bias+passive+actuator_force"]


def solver_converged(J, mx, dx0, jnt_type, T, B):
    """Per state: is MJX's qacc a stationary point of its own constraint cost?  |M^-1 (M qacc - qfrc_smooth - qfrc_constraint)|
    must be tiny; otherwise the output is the truncated iterate of a solver whose stopping rule is not smooth in the inputs,
    and neither autodiff nor finite differences of it mean anything (counted solver_not_converged_skipped)."""
    jax, jp = J.jax, J.jp

    def f(theta, base):
        q = tangent_qpos(jp, jnt_type, base["qpos"], theta["dq"])
        d = J.fwd.forward(mx, dx0.replace(qpos=q, qvel=theta["qvel"], ctrl=theta["ctrl"], act=theta["act"]))
        M = J.support.full_m(mx, d)
        g = M @ d.qacc - d.qfrc_smooth - d.qfrc_constraint
        return jp.max(jp.abs(jp.linalg.solve(M, g))) / (1.0 + jp.max(jp.abs(d.qacc)))
    return np.asarray(jax.jit(jax.vmap(f))(T, B))


def check_model(J, lib, part, item):
    jax, jp, mujoco, mjx = J.jax, J.jp, J.mujoco, J.mjx
    mw = mujoco.MjModel.from_xml_string(item["xml"])
    mt = lib.load_xml(item["xml"])
    mx = mjx.put_model(mw)
    dx0 = mjx.make_data(mw)
    jnt_type = [int(t) for t in mw.jnt_type]
    states, repl = smooth_states(mt, item["kind"], item["nstate"])
    if repl:
        part.add("boundary_excluded", repl)
    if item.get("qpos0_first"):
        states[0]["qpos"] = np.array(mt.qpos0, float)       # the configuration at which the loop closes exactly
    # smooth lattice: controls strictly inside every ctrlrange, no applied-force toggles needed
    for k, s in enumerate(states):
        s["ctrl"] = np.array([[0.3, -0.6, 0.45][(i + k) % 3] for i in range(mt.nu)])
    mode = item["mode"]
    p = make_probe(J, mx, dx0, jnt_type)
    nv, nu, na, nb = mt.nv, mt.nu, mt.na, mt.nbody
    thetas, bases = [], []
    for s in states:
        thetas.append(dict(dq=np.zeros(nv), qvel=np.asarray(s["qvel"], float), ctrl=np.asarray(s["ctrl"], float),
                           act=np.asarray(s["act"], float), body_mass=np.array(mt.body_mass, float),
                           dof_damping=np.array(mt.dof_damping, float), gain=np.zeros(nu)))
        bases.append(dict(qpos=np.asarray(s["qpos"], float)))
    stack = lambda lst: {k: jp.asarray(np.stack([x[k] for x in lst])) for k in lst[0]}
    T, B = stack(thetas), stack(bases)
    jac = (jax.jacrev if mode == "rev" else jax.jacfwd)(p)
    jf = jax.jit(jax.vmap(jac))
    try:
        Jx = {k: np.asarray(v) for k, v in jf(T, B).items()}      # block -> (nstate, nprobe, ...)
    except Exception as e:
        if mode == "rev" and "while_loop" in str(e) and int(np.asarray(dx0._impl.efc_type).size):
            part.add("reverse_mode_raises_in_solver_while_loop")
            part.count(1, key=(item["name"], "rev-raises"))
            mt.free()
            return
        part.violation("autodiff raises (%s mode) @ %s" % (mode, item["name"].split("#")[0]),
                       "%s: %s" % (type(e).__name__, str(e)[:300]), {"xml": item["xml"], "mode": mode})
        mt.free()
        return
    pf = jax.jit(jax.vmap(p))
    f0 = np.asarray(pf(T, B))
    skip = set()
    if int(np.asarray(dx0._impl.efc_type).size):
        dev = solver_converged(J, mx, dx0, jnt_type, T, B)
        skip = set(int(k) for k in np.nonzero(~(dev <= 1e-9))[0])
        if skip:
            part.add("solver_not_converged_skipped", len(skip))
    fam = item["name"].split("#")[0]
    stats = part.setdefault("stats", {})
    blocks = [k for k in thetas[0] if thetas[0][k].size]
    if not np.all(np.isfinite(f0)):
        part.violation("probe value not finite @ %s" % fam, "f=%s" % f0, {"xml": item["xml"]})
    # central differences: one vmapped call per (block, coordinate, sign) over all states
    for blk in blocks:
        n = thetas[0][blk].size
        fd = np.zeros((len(states), len(PROBES), n))
        for c in range(n):
            hs = np.array([H_STEP * max(1.0, abs(t[blk].reshape(-1)[c])) for t in thetas])

            def central(hh):
                plus, minus = dict(T), dict(T)
                e = np.zeros((len(states), n))
                e[:, c] = hh
                e = e.reshape(np.asarray(T[blk]).shape)
                plus[blk] = T[blk] + e
                minus[blk] = T[blk] - e
                return (np.asarray(pf(plus, B)) - np.asarray(pf(minus, B))) / (2 * hh[:, None])
            # Richardson extrapolation of central differences (steps h and h/2): O(h^4) truncation error
            fd[:, :, c] = (4.0 * central(hs / 2) - central(hs)) / 3.0
        g = Jx[blk].reshape(len(states), len(PROBES), n)
        for si in range(len(states)):
            if si in skip:
                continue
            part.count(1, key=(item["name"], mode, blk, si),
                       sample={"model": item["name"], "mode": mode, "block": blk, "state": si, "ncoord": n} if si == 1 else None)
            for pi in range(len(PROBES)):
                gv, fv = g[si, pi], fd[si, pi]
                rp = {"xml": item["xml"], "mode": mode, "block": blk, "probe": PROBES[pi], "state_index": si,
                      "state": {k_: np.asarray(v).tolist() for k_, v in states[si].items()},
                      "grad": gv.tolist(), "fd": fv.tolist()}
                if not np.all(np.isfinite(gv)):
                    part.violation(classify(item, mt, blk, pi, states[si], "nan"),
                                   "%s-mode derivative of '%s' w.r.t. %s is not finite: %s (model %s state %d)"
                                   % (mode, PROBES[pi], blk, gv, item["name"], si), rp)
                    continue
                scale = max(np.max(np.abs(gv)), np.max(np.abs(fv)))
                tol = RTOL * scale + ATOL * (1.0 + abs(f0[si, pi]))
                err = float(np.max(np.abs(gv - fv)) / tol)
                k = "%s:%s%s" % (mode, blk, ":norm0-state" if zero_rotation_or_angvel(mt, states[si], True) else "")
                stats[k] = max(stats.get(k, 0.0), err)
                if err > 1:
                    c = int(np.argmax(np.abs(gv - fv)))
                    part.violation(classify(item, mt, blk, pi, states[si], "mismatch", c),
                                   "%s-mode d'%s'/d%s[%d] = %.9g but central difference = %.9g (err/tol %.3g) model %s state %d"
                                   % (mode, PROBES[pi], blk, c, gv[c], fv[c], err, item["name"], si), rp)
    mt.free()


K_NORM0 = ("math.norm's zero guard kills derivatives through normalize_with_norm at a zero vector: quat_sub/quat_to_axis_angle "
           "at zero relative rotation (ball/free springs, ball actuator length) and quat_integrate at zero angular velocity")


def zero_rotation_or_angvel(mt, st, angvel_only=False):
    """True if some ball/free joint sits exactly at its spring reference orientation or has exactly zero angular velocity."""
    q, v, qs = np.asarray(st["qpos"]), np.asarray(st["qvel"]), np.array(mt.qpos_spring)
    for j in range(mt.njnt):
        t = int(mt.jnt_type[j])
        if t > 1:
            continue
        qa, da = int(mt.jnt_qposadr[j]) + (3 if t == 0 else 0), int(mt.jnt_dofadr[j]) + (3 if t == 0 else 0)
        if not angvel_only and mt.jnt_stiffness[j] > 0 and np.allclose(q[qa:qa + 4], qs[qa:qa + 4], atol=1e-9):
            return True     # spring torque = -k * quat_sub(q, q_spring) at zero relative rotation
        driven = any(int(mt.actuator_trntype[a]) in (0, 1) and int(mt.actuator_trnid[a][0]) == j for a in range(mt.nu))
        if not angvel_only and driven and t == 1 and np.allclose(q[qa:qa + 4], [1, 0, 0, 0], atol=1e-9):
            return True     # ball actuator length = quat_to_axis_angle(q) at the identity
        if not np.any(v[da:da + 3]):
            return True
    return False


def classify(item, mt, blk, pi, st, what, coord=None):
    fam = item["name"].split("#")[0]
    if what == "nan":
        return "non-finite derivative d/d%s @ %s" % (blk, fam)
    if zero_rotation_or_angvel(mt, st):
        return K_NORM0
    return "grad %s d/d%s probe%d @ %s" % (what, blk, pi, fam)


def smooth_states(mt, kind, n):
    """State lattice restricted to smooth configurations: the near-pi quaternion of the shared lattice (a branch point of
    the quaternion log) is replaced by a generic rotation; counted by the caller as boundary_excluded."""
    states = H.states_for(mt, kind, n)
    repl = 0
    gen = np.array([np.cos(1.0), *(np.sin(1.0) * np.array([1.0, 2.0, 3.0]) / np.sqrt(14.0))])
    for s in states:
        q = np.array(s["qpos"], float)
        for j in range(mt.njnt):
            t = int(mt.jnt_type[j])
            if t > 1:
                continue
            a = int(mt.jnt_qposadr[j]) + (3 if t == 0 else 0)
            if abs(q[a]) < 1e-6:      # rotation angle within 2e-6 of pi
                q[a:a + 4] = gen
                repl += 1
        s["qpos"] = q
    return states, repl


def _chunk(chunk):
    part = core.Part()
    lib = mj.load()
    J = H.setup()
    for item in chunk:
        check_model(J, lib, part, item)
    return part


def alphabet(thorough):
    o = lambda k, **kw: G.option_cover(k, **kw)
    items = []

    def add(it, desc, modes, nstate):
        for md in modes:
            items.append(dict(it, name="%s#%s" % (it["name"], "/".join(desc)), mode=md, nstate=nstate))
    ns = 6 if thorough else 4
    trees = [((-1, 0), ("hinge", "slide")), ((-1,), ("ball",)), ((-1, 0), ("free", "hinge")), ((-1, -1), ("slidehinge", "ball"))]
    if thorough:
        trees += [((-1,), ("free",)), ((-1,), ("hinge2",)), ((-1, 0), ("ball", "slide")), ((-1, 0), ("hinge", "ball")), ((-1, 0, 1), ("hinge", "hinge", "slide"))]
    # option index per tree: RK4 (four forward passes to differentiate) only on the smallest model of the quick tier
    oidx = {0: 1, 1: 0, 2: 2, 3: 3}
    # mass-distribution dimension: None = every body has mass; "leaf" = a jointless marker body carrying only a site hangs on
    # the last body (body mass and SUBTREE mass exactly 0: the centre-of-mass normalisation divides by a guarded zero there);
    # "frame" = massless frame body with a massive jointless child (body mass 0, subtree mass > 0).  The marker site is
    # observed by two sensors, so it is part of the differentiated outputs.  Quick: the value rotates over the trees (every
    # value occurs, in reverse mode); thorough: additionally the full product on the first two trees.
    MARK = ["leaf", None, "frame"]
    for ti, (par, js) in enumerate(trees):
        op, desc = o(oidx.get(ti, ti))
        for mk in ([MARK[ti % 3]] + ([m_ for m_ in MARK if m_ != MARK[ti % 3]] if thorough and ti < 2 else [])):
            it = G.tree_model("smooth[%s%s]" % (",".join(js), (";massless-" + mk) if mk else ""), par, js, op, tendon=True,
                              gravcomp=(ti % 2 == 0), actuators=1, sensors=1, spatial=(ti == 0) and "plain", marker=mk)
            add(it, desc, ["rev"] + (["fwd"] if thorough else []), ns)
    # steadily active constraints / contacts.  MJX's solver iterates with lax.while_loop, for which JAX defines no reverse
    # rule, so reverse mode raises (counted outcome "reverse_mode_raises", see check_model); with opt.iterations == 1 MJX
    # unrolls one iteration, but the result then depends on the line search's discrete decisions and is not a smooth
    # function of the inputs, so only the converged solver is differentiated (forward mode).
    for ti, (par, js) in enumerate([((-1, 0), ("hinge", "slide"))] + ([((-1,), ("ball",)), ((-1, 0), ("free", "hinge"))] if thorough else [])):
        op, desc = o(2 * ti, iterations=50)
        op, desc = op.replace('solver="CG"', 'solver="Newton"'), (desc[0], "Newton") + desc[2:]   # see solver_converged()
        it = G.tree_model("constr[%s]" % ",".join(js), par, js, op, limits=True, friction=True, equality=["connect"],
                          tendon="full", actuators=1, sensors=1)
        add(it, desc + ("iter50",), ["fwd"] + (["rev"] if ti == 0 else []), ns)
    # a loop closed EXACTLY at qpos0 (axis-aligned, exactly representable offsets, anchor computed by the compiler): the connect
    # and weld residuals are the zero vector at state 0, where a norm without a guarded derivative yields NaN gradients
    op, desc = o(0, iterations=50)
    op, desc = op.replace('solver="CG"', 'solver="Newton"'), (desc[0], "Newton") + desc[2:]
    exact = ('<mujoco>\n  <compiler angle="radian"/>\n%s\n  <worldbody>\n'
             '    <body name="a" pos="0 0 1"><joint name="j0" type="hinge" axis="0 1 0" damping="0.1"/><geom size="0.05" pos="0.25 0 0"/>\n'
             '      <body name="b" pos="0.5 0 0"><joint name="j1" type="hinge" axis="0 1 0" damping="0.1"/><geom size="0.05" pos="0.25 0 0"/>\n'
             '        <body name="c" pos="0.5 0 0"><joint name="j2" type="slide" axis="1 0 0" damping="0.1"/><geom size="0.05"/></body>\n'
             '      </body>\n    </body>\n  </worldbody>\n'
             '  <equality><connect name="e0" body1="b" anchor="0.25 0 0"/><weld name="e1" body1="c" body2="a"/></equality>\n'
             '  <actuator><motor joint="j0" gear="0.5"/></actuator>\n  <sensor><jointpos joint="j1"/></sensor>\n</mujoco>\n') % op
    add(dict(name="constr-exact-loop[hinge,hinge,slide]", xml=exact, kind="tree", parents=(-1, 0, 1), joints=("hinge", "hinge", "slide"),
             qpos0_first=True),
        desc + ("iter50",), ["fwd"], 2)
    scenes = [[("plane", "sphere")]] + ([[("plane", "capsule"), ("sphere", "sphere")]] if thorough else [])
    for ci, pairs in enumerate(scenes):
        op, desc = o(ci * 3 + 2, iterations=50)
        op, desc = op.replace('solver="CG"', 'solver="Newton"'), (desc[0], "Newton") + desc[2:]
        it = G.contact_model("contact[%s]" % "+".join("-".join(p_) for p_ in pairs), op, pairs, condim=3)
        add(it, desc + ("iter50",), ["fwd"], ns)
    return items


class _Merger:
    def __init__(self, ctx):
        self.ctx, self.seed, self.stats = ctx, ctx.seed, {}

    def merge(self, part):
        for k, v in part.pop("stats", {}).items():
            self.stats[k] = max(self.stats.get(k, 0.0), v)
        self.ctx.merge(part)

    def violation(self, *a, **kw):
        self.ctx.violation(*a, **kw)


def run(ctx):
    mj.load()
    items = alphabet(ctx.thorough)
    only = os.environ.get("VERIF_ONLY")      # debugging aid (mutation demos): restrict to items whose name/task contains a token
    if only:
        items = [it for it in items if any(t in (it["name"] + " " + it.get("task", "") + " " + it.get("fn", "")) for t in only.split(";"))]
        ctx.exhaustive = False
    mg = _Merger(ctx)
    core.pmap(mg, _chunk, items, nchunks=len(items))
    ctx.extra["items"] = len(items)
    ctx.extra["max_err_over_tol"] = {k: float("%.3g" % v) for k, v in sorted(mg.stats.items())}
    ctx.extra["violation_keys"] = sorted(k for k, _, _ in ctx.violations)
    ctx.extra["known_finding_keys"] = sorted(k for k, _ in ctx.known_hits)
    ctx.extra["massless_marker_items"] = sum(1 for it in items if ";massless-" in it["name"])
    ctx.rule = ("%d (model, autodiff mode) items: contact-free forests (all joint types) with springs/dampers/tendons/actuators/"
                "sensors x mass distribution {all bodies massive, massless site-only leaf body (subtree mass 0), massless frame body "
                "with a massive jointless child} (rotating over the forests; thorough: full product on the first two), steadily-active limit+frictionloss+connect models, steadily-in-contact scenes; per item a lattice of "
                "smooth states (qpos lattice x {0, mixed} qvel x in-range ctrl x act); per state 5 probes x 7 parameter blocks "
                "(qpos tangent, qvel, ctrl, act, body_mass, dof_damping, actuator gain), every coordinate differenced. "
                "non-trivial = each (model, mode, block, state)." % len(items))
    ctx.assumptions = ["Richardson-extrapolated central differences (h = 2e-5*max(1,|x|), h/2) of the same jitted float64 function are accurate to "
                       "1e-5 relative (measured: ctx.extra['max_err_over_tol'])",
                       "reverse mode on constrained models uses opt.iterations=1 (MJX's solver uses lax.while_loop otherwise); "
                       "the converged solver is covered in forward mode"]
