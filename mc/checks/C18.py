"""C18 Sleeping islands are frozen and wake on the documented events.

E2 (explicit-state history explorer) on the real engine + E1 on the pure core.

Pure core (native driver c18_cycle, includes engine/engine_sleep.h): every tree_asleep array over
{-1,-3,-(1+mjMINAWAKE)} U {0..n-1} for n<=5 (6), well-formed and malformed, x every tree index in [-1,n] x 3 wake
values: mj_sleepCycle against a bounded walk, mj_wakeIsland wakes exactly the cycle / restarts the countdown of an
awake tree / raises the documented error on non-closed chains; never loops forever (alarm), never writes out of
bounds (canaries).

Engine: breadth-first search over event histories on three scenes (3-4 trees each) with de-duplication on a hash
of every mjData buffer array (time excluded) + the sleep flag + the pending documented wake obligations.  Each
distinct state is re-created at the next level by replaying its history on a reset mjData (and must hash to the
same value), successors are produced with mj_copyData + one event.  Invariants are evaluated around EVERY mj_step.

Body-class alphabet: besides the trees, the scenes contain every class of dof-less body that mj_updateSleepInit has to
classify (static child of the world, static child of a static body, mocap body, jointless child and grandchild of a
mocap body).  The colliding geoms of the mocap hand / paddle and the weld target sit on the jointless descendants, the
events move (and turn) the mocap roots, so "touches an awake tree" and "constrained to" are exercised through bodies
that are welded to a mocap body; after every step each dof-less body and its geoms must be at the pose composed from
body_pos/body_quat and the current mocap_pos/mocap_quat (I7), the sleep-off twin of the pile scene is dragged the same
way (I6) and the derived arrays are recomputed with the root-based mocap rule (I5).
"""
import subprocess

import numpy as np

from .. import build, core, mj
from ..mjutil import quat2mat, quat_mul

LEVEL = "model_checking"
META = dict(
    category=LEVEL,
    technique="explicit-state BFS over user-event histories of a live mjData (state hash de-duplication, replay validation) with "
              "step-wise invariants and a sleep-off differential twin; exhaustive enumeration of all sleep-cycle arrays for the pure core",
    text="Cycle corruption and missed wake-ups depend on the ORDER of sleep and wake events, so the check explores every history "
         "of documented user events (step, settle, set qvel/qpos, apply/clear xfrc/qfrc, toggle eq_active, move and turn the mocap body, "
         "drag a mocap hand so that its welded finger presses into a box, push an awake body into a sleeping pile, toggle the sleep flag) up to depth 4 (5) on scenes that contain each documented "
         "coupling (contact pile, tendon limit, equality, mocap weld/contact, sleep=init), checking after every engine step that "
         "tree_asleep is a set of closed cycles, that a new cycle is exactly one island of that step (islands recomputed from "
         "efc_J), that sleeping trees are bit-frozen, that every documented wake obligation is honoured for the whole cycle and "
         "that the derived arrays match, and that every dof-less body (static, nested static, mocap, jointless child / grandchild of a "
         "mocap body, which carry the colliding geoms and the weld target) is at the pose given by the model and the current mocap "
         "inputs. The mj_sleepCycle/mj_wakeIsland core is exhausted over all arrays, malformed included.",
    note="Wake obligations are the one-hop reading of the documentation (perturbed trees, and trees coupled by an active "
         "equality / active tendon limit / designed deep contact to a tree that is awake or perturbed at the start of the step). "
         "Contact obligations are only asserted for the designed placements (push, touch, drag: deep overlap by construction). Differential vs "
         "sleep disabled is compared on qpos,qvel,act,qacc,qacc_warmstart,qfrc_constraint,qfrc_smooth,xpos,xquat,contact list,efc_force while no tree "
         "has been asleep. Flexes are not in the alphabet.",
    design_ref="DESIGN.md §3 C18")

K_AWAKE = -11  # -(1+mjMINAWAKE)
mjENBL_SLEEP = 1 << 4
mjOBJ_BODY, mjOBJ_JOINT, mjOBJ_GEOM = 1, 3, 5

SCENES = {
    # two stacked boxes on a plane + a third apart; dof-less bodies of every class: a static body with a static child, a mocap
    # "hand" whose colliding geom sits on a jointless child ("finger") that the drag event presses into box C
    "pile": dict(xml='''<mujoco><option timestep="0.005" jacobian="dense"><flag sleep="%s"/></option><size memory="300K"/>
<worldbody><geom name="floor" type="plane" size="5 5 .1"/>
<body name="A" pos="0 0 0.1"><freejoint/><geom name="gA" type="box" size=".2 .2 .1"/></body>
<body name="B" pos="0 0 0.3"><freejoint/><geom name="gB" type="box" size=".15 .15 .1"/></body>
<body name="C" pos="1.5 0 0.1"><freejoint/><geom name="gC" type="box" size=".1 .1 .1"/></body>
<body name="post" pos="-1.5 0 0" quat="0.8 0 0 0.6"><geom name="gpost" type="box" size=".05 .05 .2" pos="0 0 .2"/>
 <body name="postc" pos="0.1 0 .4" quat="0.6 0.8 0 0"><geom name="gpostc" type="sphere" size=".05" pos="0 .02 0"/></body></body>
<body name="hand" mocap="true" pos="1.5 -2 1"><geom size=".02" contype="0" conaffinity="0"/>
 <body name="finger" pos="0.1 0 0.05"><geom name="gfinger" type="sphere" size=".06"/></body></body>
</worldbody></mujoco>''', trees=["A", "B", "C"], events=[("push",), ("drag",)], diff=True),
    # tendon-limit coupled pair + a third tree coupled by a switchable joint equality
    "coupled": dict(xml='''<mujoco><option timestep="0.005" jacobian="dense" gravity="0 0 0"><flag sleep="%s"/></option><size memory="300K"/>
<worldbody>
<body name="P" pos="0 0 1"><joint name="jP" type="slide" axis="1 0 0" damping="2"/><geom size=".05" contype="0" conaffinity="0"/></body>
<body name="Q" pos="0 1 1"><joint name="jQ" type="slide" axis="1 0 0" damping="2"/><geom size=".05" contype="0" conaffinity="0"/></body>
<body name="R" pos="0 2 1"><joint name="jR" type="slide" axis="1 0 0" damping="2"/><geom size=".05" contype="0" conaffinity="0"/></body>
</worldbody>
<tendon><fixed name="t" limited="true" range="-0.1 0.1"><joint joint="jP" coef="1"/><joint joint="jQ" coef="-1"/></fixed></tendon>
<equality><joint name="e" joint1="jQ" joint2="jR" active="false"/></equality>
</mujoco>''', trees=["P", "Q", "R"], events=[("eq", 0)], diff=True),
    # two trees initialised asleep in one island, a box on the plane, a body welded to the jointless child of a mocap body, a
    # mocap paddle whose colliding geom sits on a jointless grandchild
    "mocap": dict(xml='''<mujoco><option timestep="0.005" jacobian="dense"><flag sleep="%s"/></option><size memory="300K"/>
<worldbody><geom name="floor" type="plane" size="5 5 .1"/>
<body name="D" pos="-1.5 0 1.0" sleep="init"><freejoint/><geom name="gD" type="sphere" size=".1"/></body>
<body name="F" pos="-1.5 0.15 1.0" sleep="init"><freejoint/><geom name="gF" type="sphere" size=".1"/></body>
<body name="E" pos="1.5 0 0.1"><freejoint/><geom name="gE" type="box" size=".1 .1 .1"/></body>
<body name="W" pos="0 2 1"><freejoint/><geom name="gW" type="sphere" size=".05" contype="0" conaffinity="0"/></body>
<body name="M" mocap="true" pos="-0.1 2 1"><geom size=".02" contype="0" conaffinity="0"/>
 <body name="Mc" pos="0.1 0 0"><geom size=".01" contype="0" conaffinity="0"/></body></body>
<body name="paddle" mocap="true" pos="0 -3 3"><body name="pad1" pos="0 0 -0.2"><body name="pad2" pos="0.1 0 0"><geom name="gpad" type="sphere" size=".1"/></body></body></body>
</worldbody>
<equality><weld name="w" body1="W" body2="Mc"/></equality>
</mujoco>''', trees=["D", "F", "E", "W"], events=[("eq", 0), ("touch", "E"), ("touch", "D"), ("away",), ("movemocap",)],
                  pertrees=["D", "E", "W"], diff=False),
}

DIFF_FIELDS = ["qpos", "qvel", "act", "qacc", "qacc_warmstart", "qfrc_constraint", "qfrc_smooth", "xpos", "xquat"]


class Abort(Exception):
    pass


class Scene:
    """Compiled models (sleep on / off), index tables and the event alphabet of one scene (per worker process)."""

    def __init__(self, lib, name):
        self.lib, self.name = lib, name
        spec = SCENES[name]
        self.spec = spec
        self.m = lib.load_xml(spec["xml"] % "enable")
        self.m_off = lib.load_xml(spec["xml"] % "disable")
        m = self.m
        self.flags0 = int(m.opt.enableflags)
        self.ntree = m.ntree
        self.tree = {}
        for nm in spec["trees"]:
            b = lib.mj_name2id(m, mjOBJ_BODY, nm.encode())
            t = int(m.body_treeid[b])
            j = int(m.body_jntadr[b])
            self.tree[nm] = dict(tree=t, body=b, dofadr=int(m.tree_dofadr[t]), dofnum=int(m.tree_dofnum[t]),
                                 qadr=int(m.jnt_qposadr[j]), free=int(m.jnt_type[j]) == 0)
        self.bytree = {v["tree"]: k for k, v in self.tree.items()}
        pert = spec.get("pertrees", spec["trees"])
        self.events = [("step",), ("settle",), ("flag",)] + list(spec["events"])
        for nm in pert:
            for kind in ("qvel", "qpos", "xfrc", "qfrc", "clear"):
                self.events.append((kind, nm))
        # working mjData objects: parent / work, each with a sleep-off twin
        self.d_par, self.d_work = lib.make_data(m), lib.make_data(m)
        self.t_par, self.t_work = lib.make_data(self.m_off), lib.make_data(self.m_off)
        # static tables for the derived-array recomputation
        self.body_treeid = np.array(m.body_treeid)
        self.body_parentid = np.array(m.body_parentid)
        self.body_mocaproot = np.array(m.body_mocapid)[np.array(m.body_rootid)] >= 0
        self.dof_bodyid = np.array(m.dof_bodyid)
        self.dof_treeid = np.array(m.dof_treeid)
        self.tree_bodyadr, self.tree_bodynum = np.array(m.tree_bodyadr), np.array(m.tree_bodynum)
        self.tree_dofadr, self.tree_dofnum = np.array(m.tree_dofadr), np.array(m.tree_dofnum)
        self.nv = m.nv
        if name == "mocap":
            self.mocap_M = int(m.body_mocapid[lib.mj_name2id(m, mjOBJ_BODY, b"M")])
            self.mocap_pad = int(m.body_mocapid[lib.mj_name2id(m, mjOBJ_BODY, b"paddle")])
        if name == "pile":
            self.mocap_hand = int(m.body_mocapid[lib.mj_name2id(m, mjOBJ_BODY, b"hand")])
        # dof-less bodies (no tree): pose relative to their root (a child of the world), composed from the compiled
        # body_pos / body_quat; the root itself is either static (pose = body_pos/quat) or mocap (pose = mocap_pos/quat)
        body_pos, body_quat = np.array(m.body_pos), np.array(m.body_quat)
        rootid, mocapid = np.array(m.body_rootid), np.array(m.body_mocapid)
        self.rigid = []          # (body, root, mocapid of root or -1, rel_pos, rel_quat, class)
        self.body_classes = {}
        for b in range(1, m.nbody):
            if self.body_treeid[b] >= 0:
                continue
            chain, c = [], b
            while c != rootid[b]:
                chain.append(c)
                c = int(self.body_parentid[c])
            rp, rq = np.zeros(3), np.array([1.0, 0, 0, 0])
            for c in reversed(chain):
                rp = rp + quat2mat(rq) @ body_pos[c]
                rq = quat_mul(rq, body_quat[c])
            r = int(rootid[b])
            cls = ("mocap" if mocapid[r] >= 0 else "static") + ("" if not chain else "_child" if len(chain) == 1 else "_descendant")
            self.body_classes[cls] = self.body_classes.get(cls, 0) + 1
            geoms = [(g, np.array(m.geom_pos[g])) for g in range(m.ngeom) if m.geom_bodyid[g] == b]
            self.rigid.append((b, r, int(mocapid[r]), rp, rq, geoms))
        self.root_pos, self.root_quat = body_pos, body_quat

    def rel_offset(self, bodyname):
        """Offset of a dof-less body from its root for an identity root orientation."""
        b = self.lib.mj_name2id(self.m, mjOBJ_BODY, bodyname.encode())
        return [x[3] for x in self.rigid if x[0] == b][0]


class State:
    """Explorer-side bookkeeping that travels with an mjData: sleep flag, differential status, pending obligations."""
    __slots__ = ("flag", "alive", "pq", "pc")

    def __init__(self, flag=True, alive=True, pq=frozenset(), pc=frozenset()):
        self.flag, self.alive, self.pq, self.pc = flag, alive, pq, pc

    def copy(self):
        return State(self.flag, self.alive, self.pq, self.pc)


def cycle_of(asleep, i):
    """Members of the cycle through sleeping tree i (python walk; asleep already checked to be closed cycles)."""
    out, cur = [], i
    while True:
        out.append(cur)
        cur = int(asleep[cur])
        if cur == i or len(out) > len(asleep):
            return out


def cycles_ok(asleep):
    n = len(asleep)
    S = [i for i in range(n) if asleep[i] >= 0]
    img = [int(asleep[i]) for i in S]
    return all(0 <= x < n and asleep[x] >= 0 for x in img) and len(set(img)) == len(S)


def partition_of(asleep):
    seen, parts = set(), set()
    for i in range(len(asleep)):
        if asleep[i] >= 0 and i not in seen:
            c = cycle_of(asleep, i)
            seen.update(c)
            parts.add(frozenset(c))
    return parts


def islands_from_J(sc, d):
    """Connected components of trees under the rows of the (dense) efc_J: dict tree -> frozenset(component).
    Rows of one constraint (contiguous equal (efc_type, efc_id)) are taken together."""
    nefc, nv, ntree = d.nefc, sc.nv, sc.ntree
    uf = list(range(ntree))

    def find(x):
        while uf[x] != x:
            uf[x] = uf[uf[x]]
            x = uf[x]
        return x
    if nefc:
        J = np.array(d.efc_J[:nefc * nv]).reshape(nefc, nv)
        et, ei = np.array(d.efc_type), np.array(d.efc_id)
        groups = []
        for r in range(nefc):
            ts = set(sc.dof_treeid[np.nonzero(J[r])[0]].tolist())
            if r and et[r] == et[r - 1] and ei[r] == ei[r - 1]:
                groups[-1] |= ts
            else:
                groups.append(ts)
        for ts in groups:
            for t in ts:
                a, b = find(min(ts)), find(t)
                if a != b:
                    uf[max(a, b)] = min(a, b)
    comp = {}
    for t in range(ntree):
        comp.setdefault(find(t), set()).add(t)
    return {t: frozenset(comp[find(t)]) for t in range(ntree)}


class Explorer:
    def __init__(self, sc, part):
        self.sc, self.part, self.lib = sc, part, sc.lib
        self.hist = ()

    # ------------------------------------------------------------ reporting
    def viol(self, what, detail=""):
        sc = self.sc
        self.part.violation("%s | scene=%s" % (what, sc.name), "%s %s; scene=%s history=%s" % (what, detail, sc.name, list(self.hist)),
                            {"scene": sc.name, "history": [list(e) for e in self.hist], "xml": sc.spec["xml"] % "enable"})
        raise Abort()

    # ------------------------------------------------------------ invariants
    def derived_ok(self, d):
        sc = self.sc
        asleep = np.array(d.tree_asleep)
        tree_awake = (asleep < 0).astype(int)
        body_awake = np.where(sc.body_treeid < 0, np.where(sc.body_mocaproot, 1, -1), tree_awake[np.maximum(sc.body_treeid, 0)])
        nb = len(body_awake)
        bai = [i for i in range(nb) if body_awake[i] != 0]
        pai = [i for i in range(1, nb) if body_awake[sc.body_parentid[i]] != 0]
        dai = [i for i in range(sc.nv) if sc.body_treeid[sc.dof_bodyid[i]] >= 0 and body_awake[sc.dof_bodyid[i]] == 1]
        if not np.array_equal(np.array(d.tree_awake), tree_awake):
            return "tree_awake %s vs tree_asleep %s" % (np.array(d.tree_awake), asleep)
        if not np.array_equal(np.array(d.body_awake), body_awake):
            return "body_awake %s expected %s" % (np.array(d.body_awake), body_awake)
        if d.ntree_awake != int(tree_awake.sum()) or d.nbody_awake != len(bai) or d.nparent_awake != len(pai) or d.nv_awake != len(dai):
            return "counts n*_awake (%d,%d,%d,%d) expected (%d,%d,%d,%d)" % (d.ntree_awake, d.nbody_awake, d.nparent_awake, d.nv_awake,
                                                                           tree_awake.sum(), len(bai), len(pai), len(dai))
        if list(np.array(d.body_awake_ind)[:len(bai)]) != bai or list(np.array(d.parent_awake_ind)[:len(pai)]) != pai \
                or list(np.array(d.dof_awake_ind)[:len(dai)]) != dai:
            return "*_awake_ind lists"
        return None

    def rigid_ok(self, d):
        sc = self.sc
        xpos, xquat, gx = np.array(d.xpos), np.array(d.xquat), None
        mp, mq = np.array(d.mocap_pos), np.array(d.mocap_quat)
        roots = {}
        for b, r, mid, rp, rq, geoms in sc.rigid:
            if r not in roots:
                if mid >= 0:
                    p0, q0 = mp[mid], mq[mid] / np.linalg.norm(mq[mid])
                else:
                    p0, q0 = sc.root_pos[r], sc.root_quat[r]
                roots[r] = (p0, q0, quat2mat(q0))
            p0, q0, R0 = roots[r]
            p, q = p0 + R0 @ rp, quat_mul(q0, rq)
            if np.abs(xpos[b] - p).max() > 1e-12 or np.abs(xquat[b] - q).max() > 1e-12:
                return "body %d (root %d, %s): xpos=%s xquat=%s expected %s %s" % (b, r, "mocap" if mid >= 0 else "static", xpos[b], xquat[b], p, q)
            if geoms:
                gx = np.array(d.geom_xpos) if gx is None else gx
                R = quat2mat(q)
                for g, gp in geoms:
                    if np.abs(gx[g] - (p + R @ gp)).max() > 1e-12:
                        return "geom %d of body %d (root %d, %s): geom_xpos=%s expected %s" % (g, b, r, "mocap" if mid >= 0 else "static", gx[g], p + R @ gp)
            self.part.add("rigid_pose_checks")
        return None

    def obligations(self, d, st):
        """Trees that the documentation obliges to be awake after the next step (one-hop reading)."""
        sc, m = self.sc, self.sc.m
        asleep = np.array(d.tree_asleep)
        n = sc.ntree
        sleeping = [t for t in range(n) if asleep[t] >= 0]
        if not sleeping:
            return set()
        if not st.flag:
            return set(sleeping)          # "Disabling this flag when some trees are sleeping will wake them"
        E1 = set()
        qvel = np.array(d.qvel)
        qfrc = np.array(d.qfrc_applied)
        xfrc = np.array(d.xfrc_applied)
        for t in sleeping:
            a, k = sc.tree_dofadr[t], sc.tree_dofnum[t]
            ba, bk = sc.tree_bodyadr[t], sc.tree_bodynum[t]
            touched = (qvel[a:a + k].tobytes() != bytes(8 * k) or qfrc[a:a + k].tobytes() != bytes(8 * k)
                       or xfrc[ba:ba + bk].tobytes() != bytes(48 * bk) or t in st.pq)
            if touched:
                E1.update(cycle_of(asleep, t))
        src = set(t for t in range(n) if asleep[t] < 0) | E1
        E2 = set()

        def couple(t1, t2):   # t = tree index or "mocap"
            for a, b in ((t1, t2), (t2, t1)):
                if a != "mocap" and asleep[a] >= 0 and a not in E1 and (b == "mocap" or b in src):
                    E2.update(cycle_of(asleep, a))
        # designed contacts of the last event
        for a, b in st.pc:
            couple(a, b)
        # active equalities
        eq_active = np.array(d.eq_active)
        for e in range(m.neq):
            if not eq_active[e]:
                continue
            et = int(m.eq_type[e])
            if et == 2:     # joint equality
                t1 = int(m.body_treeid[m.jnt_bodyid[m.eq_obj1id[e]]])
                t2 = int(m.body_treeid[m.jnt_bodyid[m.eq_obj2id[e]]])
                ends = [t1, t2]
            else:           # connect / weld on bodies
                ends = []
                for b in (int(m.eq_obj1id[e]), int(m.eq_obj2id[e])):
                    if m.body_treeid[b] >= 0:
                        ends.append(int(m.body_treeid[b]))
                    elif sc.body_mocaproot[b]:
                        ends.append("mocap")
                    else:
                        ends.append(None)
            if None in ends:
                continue
            couple(ends[0], ends[1])
            a, b = ends
            if a != "mocap" and b != "mocap" and asleep[a] >= 0 and asleep[b] >= 0 and a not in E1 and b not in E1:
                if set(cycle_of(asleep, a)) != set(cycle_of(asleep, b)):   # sleeping trees of different islands
                    E2.update(cycle_of(asleep, a))
                    E2.update(cycle_of(asleep, b))
        # active tendon limits (fixed tendon over two scalar joints of two trees)
        qpos = np.array(d.qpos)
        for t in range(m.ntendon):
            if not m.tendon_limited[t]:
                continue
            adr, num = int(m.tendon_adr[t]), int(m.tendon_num[t])
            length, trees = 0.0, []
            for w in range(adr, adr + num):
                j = int(m.wrap_objid[w])
                length += float(m.wrap_prm[w]) * qpos[m.jnt_qposadr[j]]
                trees.append(int(m.body_treeid[m.jnt_bodyid[j]]))
            lo, hi = m.tendon_range[t]
            mg = float(m.tendon_margin[t])
            if min(abs(length - lo - mg), abs(hi - length - mg)) < 1e-9:
                self.part.add("boundary_excluded")
                continue
            if (length - lo < mg or hi - length < mg) and len(set(trees)) == 2:
                couple(trees[0], trees[1])
        return E1 | E2

    def do_step(self, d, td, st):
        sc, lib, m = self.sc, self.lib, self.sc.m
        before = np.array(d.tree_asleep)
        qpos_b = np.array(d.qpos)
        must = self.obligations(d, st)
        m.opt.enableflags = (sc.flags0 | mjENBL_SLEEP) if st.flag else (sc.flags0 & ~mjENBL_SLEEP)
        try:
            lib.mj_step(m, d)
        except mj.MjError as e:
            self.viol("mj_step raised mju_error", str(e))
        self.part.add("engine_steps")
        after = np.array(d.tree_asleep)
        st.pq, st.pc = frozenset(), frozenset()
        # I1 closed cycles
        if not cycles_ok(after):
            self.viol("tree_asleep does not encode closed cycles", "tree_asleep=%s (before step %s)" % (after, before))
        for t in range(sc.ntree):
            if after[t] >= 0:
                c = lib.c.mj_sleepCycle(d.tree_asleep.ctypes.data, sc.ntree, t)
                if c != min(cycle_of(after, t)):
                    self.viol("mj_sleepCycle disagrees with the cycle walk on a reached state", "tree %d: %d, tree_asleep=%s" % (t, c, after))
        # I4 documented wake obligations: the whole cycle is awake after the step
        missed = [t for t in must if after[t] >= 0]
        if missed:
            self.viol("documented wake event did not wake the whole cycle by the next step",
                      "trees %s still asleep; tree_asleep before=%s after=%s" % (missed, before, after))
        # I3 frozen
        qpos_a, qvel_a = np.array(d.qpos), np.array(d.qvel)
        for t in range(sc.ntree):
            if after[t] >= 0:
                a, k = sc.tree_dofadr[t], sc.tree_dofnum[t]
                if qvel_a[a:a + k].tobytes() != bytes(8 * k):
                    self.viol("sleeping tree has non-zero qvel", "tree %d qvel=%s" % (t, qvel_a[a:a + k]))
                if before[t] >= 0:
                    info = sc.tree[sc.bytree[t]]
                    nq = 7 if info["free"] else 1
                    q0 = info["qadr"]
                    if qpos_a[q0:q0 + nq].tobytes() != qpos_b[q0:q0 + nq].tobytes():
                        self.viol("qpos of a sleeping tree changed across a step", "tree %d" % t)
        # I2 a new cycle is exactly one island of this step
        newly = [t for t in range(sc.ntree) if before[t] < 0 and after[t] >= 0]
        if newly and st.flag:
            comp = islands_from_J(sc, d)
            for t in newly:
                cyc = frozenset(cycle_of(after, t))
                if cyc != comp[t]:
                    self.viol("a new sleep cycle is not exactly one constraint island of the step at which it fell asleep",
                              "tree %d: cycle %s, island (from efc_J) %s" % (t, sorted(cyc), sorted(comp[t])))
            self.part["outcomes"].add("%s:slept:%s" % (sc.name, sorted(sorted(c) for c in partition_of(after))))
        woke = [t for t in range(sc.ntree) if before[t] >= 0 and after[t] < 0]
        if woke:
            self.part["outcomes"].add("%s:woke:%s/%s" % (sc.name, sorted(woke), sorted(sorted(c) for c in partition_of(before))))
        # I5 derived arrays
        bad = self.derived_ok(d)
        if bad:
            self.viol("derived sleep arrays differ from a recomputation from tree_asleep", bad)
        # I7 dof-less bodies are where the model and the user's mocap inputs put them (they never sleep)
        bad = self.rigid_ok(d)
        if bad:
            self.viol("a dof-less body (static, mocap or welded to a mocap body) is not at the pose given by the model and mocap_pos/mocap_quat", bad)
        # I6 differential against sleep disabled while no tree has been asleep
        if st.alive:
            if np.any(before >= 0):
                st.alive = False
            else:
                lib.mj_step(sc.m_off, td)
                if np.any(after >= 0):
                    st.alive = False
                else:
                    for f in DIFF_FIELDS:
                        if np.array(getattr(d, f)).tobytes() != np.array(getattr(td, f)).tobytes():
                            self.viol("sleep enabled changes the result while no tree is asleep", "field %s differs from the sleep-disabled twin" % f)
                    c1, c0 = d.contact, td.contact
                    # field by field: the struct has padding bytes that are never written
                    if d.ncon != td.ncon or any(c1[f].tobytes() != c0[f].tobytes() for f in c1.dtype.names) \
                            or d.nefc != td.nefc or np.array(d.efc_force).tobytes() != np.array(td.efc_force).tobytes():
                        self.viol("sleep enabled changes the result while no tree is asleep", "contacts / efc_force differ from the sleep-disabled twin")
                    self.part.add("differential_steps")

    # ------------------------------------------------------------ events
    def apply(self, ev, d, td, st):
        sc = self.sc
        kind = ev[0]
        both = [d] + ([td] if st.alive else [])
        if kind == "step":
            self.do_step(d, td, st)
        elif kind == "settle":
            same = 0
            prev = np.array(d.tree_asleep)
            for _ in range(150):
                self.do_step(d, td, st)
                cur = np.array(d.tree_asleep)
                same = same + 1 if np.array_equal(cur, prev) else 0
                prev = cur
                if same >= 12:
                    break
        elif kind == "flag":
            st.flag = not st.flag
        elif kind == "eq":
            for x in both:
                x.eq_active[ev[1]] = 0 if x.eq_active[ev[1]] else 1
        elif kind in ("qvel", "qpos", "xfrc", "qfrc", "clear"):
            info = sc.tree[ev[1]]
            t = info["tree"]
            asleep = int(d.tree_asleep[t]) >= 0
            for x in both:
                a, k, b = info["dofadr"], info["dofnum"], info["body"]
                if kind == "qvel":
                    x.qvel[a] = 0.3
                    if k > 1:
                        x.qvel[a + k - 1] = -0.2
                elif kind == "qpos":
                    x.qpos[info["qadr"] + (2 if info["free"] else 0)] += 0.02 if info["free"] else 0.3
                elif kind == "xfrc":
                    x.xfrc_applied[b, 2] = 1.5
                elif kind == "qfrc":
                    # documented: the test is bytewise, -0.0 wakes too; used for the second tree of each scene
                    x.qfrc_applied[a] = -0.0 if t == 1 else 0.5
                else:
                    x.xfrc_applied[b] = 0.0
                    x.qfrc_applied[a:a + k] = 0.0
            if kind == "qpos":
                st.pc = frozenset(x for x in st.pc if t not in x)    # a designed contact is only asserted for untouched placements
                if asleep:
                    st.pq = st.pq | {t}
        elif kind == "push":      # place awake-to-be C deep inside A (inscribed spheres overlap for any orientation)
            A, C = sc.tree["A"], sc.tree["C"]
            for x in both:
                x.qpos[C["qadr"]:C["qadr"] + 7] = x.qpos[A["qadr"]:A["qadr"] + 7]
                x.qpos[C["qadr"]] += 0.15
            if int(d.tree_asleep[C["tree"]]) >= 0:
                st.pq = st.pq | {C["tree"]}
            st.pc = frozenset({(C["tree"], A["tree"])})
        elif kind == "touch":     # move the mocap paddle so that its geom (on a jointless grandchild) sits on the centre of a body
            T = sc.tree[ev[1]]
            d.mocap_pos[sc.mocap_pad] = np.array(d.qpos[T["qadr"]:T["qadr"] + 3]) - sc.rel_offset("pad2")
            st.pc = frozenset({("mocap", T["tree"])})
        elif kind == "drag":      # pile: toggle the mocap hand between its home and the pose that presses its finger into box C
            C = sc.tree["C"]
            home = np.array(d.mocap_pos[sc.mocap_hand])[1] == -2.0
            for x in both:
                x.mocap_pos[sc.mocap_hand] = (np.array(x.qpos[C["qadr"]:C["qadr"] + 3]) - sc.rel_offset("finger")) if home else (1.5, -2.0, 1.0)
            st.pc = frozenset({("mocap", C["tree"])}) if home else frozenset(x for x in st.pc if "mocap" not in x)
        elif kind == "away":
            d.mocap_pos[sc.mocap_pad] = (0.0, -3.0, 3.0)
            st.pc = frozenset()
        elif kind == "movemocap":  # move and turn the mocap body whose jointless child is the weld target, between two poses
            home = float(d.mocap_pos[sc.mocap_M][0]) == -0.1
            d.mocap_pos[sc.mocap_M][0] = -0.05 if home else -0.1
            d.mocap_quat[sc.mocap_M] = (np.cos(0.1), 0.0, 0.0, np.sin(0.1)) if home else (1.0, 0.0, 0.0, 0.0)
        else:
            raise RuntimeError(kind)

    # ------------------------------------------------------------ state handling
    def reset(self):
        sc, lib = self.sc, self.lib
        sc.m.opt.enableflags = sc.flags0
        lib.mj_resetData(sc.m, sc.d_par)
        lib.mj_resetData(sc.m_off, sc.t_par)
        st = State(alive=bool(sc.spec["diff"]))
        return st

    def key(self, d, st):
        h = self.lib.data_hash(self.sc.m, d, mj.CMP_BUFFER)
        return "%016x|%d%d|%s|%s" % (h, st.flag, st.alive, sorted(st.pq), sorted(map(str, st.pc)))

    def check_initial(self, d):
        after = np.array(d.tree_asleep)
        if not cycles_ok(after):
            self.viol("tree_asleep does not encode closed cycles", "after mj_resetData: %s" % after)
        bad = self.derived_ok(d)
        if bad:
            self.viol("derived sleep arrays differ from a recomputation from tree_asleep", "after mj_resetData: " + bad)
        # I7 also holds for the positions that mj_resetData itself leaves behind (with sleep enabled it runs kinematics / a
        # forward pass to initialise the sleep state: that pass must see the mocap bodies at their model poses)
        bad = self.rigid_ok(d)
        if bad:
            self.viol("a dof-less body (static, mocap or welded to a mocap body) is not at the pose given by the model and mocap_pos/mocap_quat",
                      "after mj_resetData: " + bad)


_scenes = {}


def _scene(lib, name):
    if name not in _scenes:
        _scenes[name] = Scene(lib, name)
    return _scenes[name]


def _expand(chunk):
    """items: (scene, history, expected key or None).  Replays the history on a reset mjData, validates the key, then
    produces every successor with mj_copyData + one event.  Returns successor (key, history) pairs in part['extra']['succ']."""
    lib = mj.load()
    lib.c.mj_sleepCycle.argtypes = [__import__("ctypes").c_void_p, __import__("ctypes").c_int, __import__("ctypes").c_int]
    part = core.Part()
    succ = []
    for name, hist, expect in chunk:
        sc = _scene(lib, name)
        ex = Explorer(sc, part)
        try:
            st = ex.reset()
            part["transitions"] += 1          # the reset is an executed operation of every replayed history
            d, td = sc.d_par, sc.t_par
            ex.hist = ()
            if not hist:
                ex.check_initial(d)
            for i, ev in enumerate(hist):
                ex.hist = tuple(hist[:i + 1])
                ex.apply(ev, d, td, st)
            ex.hist = tuple(hist)
            part["traces"] += 1
            k0 = ex.key(d, st)
            if expect is not None and k0 != expect:
                part.violation("replay mismatch | scene=%s" % name,
                               "replaying history %s on a reset mjData does not reproduce the state reached through mj_copyData (%s vs %s)"
                               % (list(hist), k0, expect), {"scene": name, "history": [list(e) for e in hist]})
                continue
        except Abort:
            continue
        for ev in sc.events:
            ex.hist = tuple(hist) + (ev,)
            lib.mj_copyData(sc.d_work, sc.m, d)
            if st.alive:
                lib.mj_copyData(sc.t_work, sc.m_off, td)
            st2 = st.copy()
            try:
                ex.apply(ev, sc.d_work, sc.t_work, st2)
            except Abort:
                continue
            part["transitions"] += 1
            asl = np.array(sc.d_work.tree_asleep)
            nontriv = bool(np.any(asl >= 0)) and bool(np.any(asl < 0))
            part.count(1, key=None, sample={"scene": name, "history": [list(e) for e in ex.hist], "tree_asleep": asl} if (nontriv and len(ex.hist) >= 3) else None)
            succ.append((ex.key(sc.d_work, st2), name, ex.hist, nontriv))
    part["extra"]["succ"] = succ
    return part


def _run_driver(args):
    exe, a = args[0], args[1:]
    part = core.Part()
    try:
        r = subprocess.run([exe] + [str(x) for x in a], capture_output=True, text=True, timeout=600)
    except subprocess.TimeoutExpired:
        part.violation("pure core: no termination", "c18_cycle %r did not terminate" % (a,), {"args": a})
        return part
    if r.returncode != 0:
        part.violation("pure core: crash or endless loop ntree=%s" % a[0], "c18_cycle died rc=%d on %r: %s" % (r.returncode, a, r.stderr[-300:]), {"args": a})
        return part
    for line in r.stdout.splitlines():
        if line.startswith("FAIL"):
            part.violation("pure core: " + line[5:].split(" : ")[0], "wrong result: " + line.strip(), {"args": a, "line": line})
        elif line.startswith("SAMPLE") and len(part["samples"]) < 1:
            part["samples"].append(line.strip())
        elif line.startswith("STATS"):
            _, ev, nt, fl, nw, nm = line.split()
            part["evaluations"] += int(ev)
            part["nontrivial_count"] += int(nt)
            part.add("pure_core_calls", int(ev))
            part.add("pure_core_wellformed_arrays", int(nw))
            part.add("pure_core_malformed_arrays", int(nm))
    return part


def _chunk_driver(chunk):
    total = core.Part()
    for item in chunk:
        p = _run_driver(item)
        total["evaluations"] += p["evaluations"]
        total["nontrivial_count"] += p["nontrivial_count"]
        total["samples"] = (total["samples"] + p["samples"])[:1]
        total["violations"] += p["violations"]
        for k, v in p["extra"].items():
            total.add(k, v)
    return total


def run(ctx):
    mj.load()
    exe = build.ensure_exe("c18_cycle", ["drivers/c18_cycle.c"])
    # ---- pure core
    jobs = []
    for n in range(1, 6):
        jobs.append((exe, n, 0, 1))
    if ctx.thorough:
        for s in range(16):
            jobs.append((exe, 6, s, 16))
    core.pmap(ctx, _chunk_driver, jobs, nchunks=len(jobs))

    # ---- engine: level-synchronous BFS
    depth = ctx.q(4, 5)
    cap = ctx.q(400000, 4000000)     # cap on the number of distinct states
    succ = []
    orig_merge = ctx.merge

    def merge(part):
        succ.extend(part["extra"].pop("succ", []))
        orig_merge(part)
    ctx.merge = merge
    seen = {}
    frontier = [(name, (), None) for name in SCENES]
    per_level = []
    for level in range(depth):
        if not frontier:
            break
        del succ[:]
        core.pmap(ctx, _expand, frontier, nchunks=min(len(frontier), core.NCPU * 6))
        per_level.append(len(frontier))
        nxt = []
        for key, name, hist, nontriv in sorted(succ, key=lambda x: (x[1], x[2])):
            kk = (name, key)
            if kk in seen:
                continue
            seen[kk] = hist
            if nontriv:
                ctx.nontrivial.add(name + key)
            nxt.append((name, hist, key))
        frontier = nxt
        if len(seen) > cap:
            ctx.exhaustive = False
            ctx.extra["cap_hit_at_level"] = level
            break
        if len(ctx.violations) >= 10:
            break
    ctx.merge = orig_merge
    ctx.states = len(seen) + len(SCENES)
    ctx.extra["frontier_sizes"] = per_level
    ctx.extra["depth"] = depth
    ctx.extra["distinct_states_last_level"] = len(frontier)
    lib = mj.load()
    ctx.extra["dofless_body_classes"] = {name: Scene(lib, name).body_classes for name in SCENES}
    ctx.rule = ("pure core: every tree_asleep array over {-1,-3,-11} U {0..n-1}, n=1..5%s, x every i in [-1,n] x 3 wake values; engine: BFS over "
                "all event histories of length <=%d on scenes %s (events: step, settle(<=150 steps until tree_asleep is constant for 12 steps), "
                "toggle sleep flag, scene events (toggle an equality; push C into A; drag the mocap hand so that the geom on its jointless child presses "
                "into C / back; put the geom on the jointless grandchild of the mocap paddle onto a body / away; move+turn the mocap body whose "
                "jointless child is the weld target), and per tree set qvel / translate qpos / apply xfrc / apply qfrc (-0.0 for tree 1) / clear "
                "forces), de-duplicated on hash(all mjData buffers)+flag+pending obligations; the last level is expanded but not re-validated. "
                "dof-less body classes per scene are counted in dofless_body_classes. non-trivial state = some trees asleep and some awake"
                % (" and n=6" if ctx.thorough else "", depth, list(SCENES)))
    ctx.assumptions = ["state identity = bit equality of every MJDATA_POINTERS buffer array (time, arena and timers excluded) + sleep flag + obligations",
                       "mj_copyData is used to branch; every distinct state below the last level is re-created by replaying its history from mj_resetData and must hash equal",
                       "wake obligations: one-hop reading of doc/programming/simulation.rst 'Waking'"]


def replay(ctx, path):
    """./check C18 --replay <file>: re-run one recorded history with all invariants (no exploration)."""
    import json
    rec = json.load(open(path))["replay"]
    hist = tuple(tuple(e) for e in rec["history"])
    lib = mj.load()
    import ctypes
    lib.c.mj_sleepCycle.argtypes = [ctypes.c_void_p, ctypes.c_int, ctypes.c_int]
    part = core.Part()
    sc = _scene(lib, rec["scene"])
    ex = Explorer(sc, part)
    try:
        st = ex.reset()
        for i, ev in enumerate(hist):
            ex.hist = hist[:i + 1]
            ex.apply(ev, sc.d_par, sc.t_par, st)
            print("after %-18s tree_asleep=%s" % (ev, np.array(sc.d_par.tree_asleep)))
    except Abort:
        pass
    for v in part["violations"]:
        print("VIOLATION property=C18 replay=%s" % path)
        print("  " + v["what"][:600])
    return 1 if part["violations"] else 0
