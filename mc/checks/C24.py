"""C24 Rotation and pose utilities implement the group operations.

Every public rotation / pose / spatial utility of engine_util_spatial.c (listed from the
tree's introspect table, see FUNCS) and the two quaternion derivatives of
engine_derivative.c are driven over a finite lattice

    26 cube directions (normalised) + 6 generic axes, x 11 angles {0,1e-10,1e-6,.1,pi/2,pi-1e-9,pi,pi+1e-9,2pi-1e-6,-.1,2.5}
    x quaternion scalings {.5,1,2} x vectors / positions / time steps, all 216 Euler sequences,

and compared with an independent numpy rotation algebra written from the documentation
(Rodrigues' formula for matrices, Hamilton product, exp/log map): group identities,
round trips up to quaternion sign, inverse relations, and central finite differences
for the analytic derivatives.  No random inputs.
"""
import itertools
import math

import numpy as np

from .. import core, mj

LEVEL = "exploration"
META = dict(
    category=LEVEL,
    technique="exhaustive enumeration of an axis x angle x scale lattice and of all 216 Euler sequences; independent numpy "
              "rotation algebra (Rodrigues / Hamilton / exp-log) and central finite differences as oracle",
    text="All public quaternion, rotation-matrix, axis-angle, Euler and pose utilities are pure functions of <= 14 doubles. "
         "Every one of them is evaluated on the full product lattice of 32 axes (26 cube directions + 6 generic) x 11 angles (0, tiny, pi-1e-9, pi, pi+1e-9, "
         "2pi-1e-6: every special-case branch visible in the code: zero angle / identity quaternion / zero vector shortcuts, "
         "the four mju_mat2Quat branches, the >pi wrap of mju_quat2Vel, the parallel / anti-parallel cases of mju_quatZ2Vec, "
         "the small-angle series of the derivatives) x scalings, pairs of such rotations, and all 6^3 Euler strings, against "
         "a reference written from the documentation. Exhaustive within the lattice; the functions have no hidden state, so "
         "a wrong sign / swapped index / missing branch shows on the lattice.",
    note="Trusted: numpy. Non-unit quaternions: only the identities that the documentation implies are checked "
         "(bilinearity of mju_mulQuat, conj product = |q|^2, quat2Mat homogeneous of degree 2, scale invariance of "
         "mju_quat2Vel/mju_subQuat, normalisation by mju_quatIntegrate/mju_mulPose/mju_mat2Quat); what mju_rotVecQuat "
         "should return for a non-unit quaternion is not specified and not checked. mju_mat2Rot is iterative: runs that hit "
         "the iteration cap are counted and skipped; angle pi (a stationary point of the method from the identity start) is "
         "excluded by rule. Derivative checks exclude relative angles within 1e-4 of pi, where mju_subQuat itself is "
         "discontinuous (counted as boundary_excluded).",
    design_ref="DESIGN.md §3 C24")

PI = math.pi
TOL = 1e-11          # algebraic identities (observed noise <= ~1e-15)
TOL_FD = 1e-6        # central differences, eps = 1e-6 (observed <= ~3e-10)
TOL_SER = 1e-10     # analytic derivative vs series closed form (observed <= ~1e-15)
EPS = 1e-6

# every public function of engine_util_spatial.c / the quaternion derivatives that this check covers
FUNCS = ["mju_rotVecQuat", "mju_negQuat", "mju_mulQuat", "mju_mulQuatAxis", "mju_axisAngle2Quat", "mju_quat2Vel",
         "mju_subQuat", "mju_quat2Mat", "mju_mat2Quat", "mju_derivQuat", "mju_quatIntegrate", "mju_quatZ2Vec",
         "mju_mat2Rot", "mju_mulPose", "mju_negPose", "mju_trnVecPose", "mju_euler2Quat", "mju_cross",
         "mju_transformSpatial", "mjd_subQuat", "mjd_quatIntegrate"]

AXES = [np.array(a, float) / np.linalg.norm(a) for a in itertools.product((-1, 0, 1), repeat=3) if any(a)]
# + 6 generic axes (all components distinct and non-zero, each coordinate largest twice): the off-diagonal terms of every
# mju_mat2Quat branch are then all non-zero and distinct
AXES += [np.array(a, float) / math.sqrt(14) for a in ((3, 2, -1), (-3, 1, 2), (1, 3, 2), (2, -3, -1), (-1, 2, 3), (2, 1, -3))]
ANGLES = [0.0, 1e-10, 1e-6, 0.1, PI / 2, PI - 1e-9, PI, PI + 1e-9, 2 * PI - 1e-6, -0.1, 2.5]
SCALES = [0.5, 1.0, 2.0]
VECS = [np.zeros(3), np.array([1.0, 0, 0]), np.array([1.0, 2.0, 3.0]), np.array([-0.3, 0.5, 2.0])]
POSS = [np.zeros(3), np.array([0.3, -0.2, 0.5]), np.array([-2.0, 1.0, 0.01])]
EULER_TRIPLES = [(0.1, 0.2, 0.3), (PI / 2, -PI / 2, PI), (0.0, 0.0, 0.0), (-2.5, 1e-6, 3.0)]


# ------------------------------------------------------------------ reference algebra (numpy, from the definitions)

def skew(v):
    return np.array([[0, -v[2], v[1]], [v[2], 0, -v[0]], [-v[1], v[0], 0.0]])


def rodrigues(axis, angle):
    K = skew(axis)
    return np.eye(3) + math.sin(angle) * K + (1 - math.cos(angle)) * (K @ K)


def q_axang(axis, angle):
    return np.concatenate([[math.cos(angle / 2)], math.sin(angle / 2) * np.asarray(axis)])


def qmul(a, b):
    return np.concatenate([[a[0] * b[0] - a[1:] @ b[1:]], a[0] * b[1:] + b[0] * a[1:] + np.cross(a[1:], b[1:])])


def qconj(a):
    return np.array([a[0], -a[1], -a[2], -a[3]])


def qexp(v):
    ang = float(np.linalg.norm(v))
    if ang < 1e-300:
        return np.array([1.0, 0, 0, 0])
    return np.concatenate([[math.cos(ang / 2)], math.sin(ang / 2) * np.asarray(v) / ang])


def q2m(q):
    """Rotation matrix of a unit quaternion via v -> q v q* on the basis vectors."""
    R = np.zeros((3, 3))
    for i in range(3):
        e = np.zeros(4)
        e[1 + i] = 1
        R[:, i] = qmul(qmul(q, e), qconj(q))[1:]
    return R


def qlog(q):
    """Rotation vector in (-pi, pi] of a (possibly non-unit) quaternion."""
    q = np.asarray(q, float)
    n = np.linalg.norm(q[1:])
    if n < 1e-300:
        return np.zeros(3)
    ang = 2 * math.atan2(n, q[0])
    if ang > PI:
        ang -= 2 * PI
    return ang * q[1:] / n


def jr_series(s):
    """Right Jacobian of SO(3), Jr(s) = sum_k (-[s]x)^k / (k+1)!  (d log(exp(s)^-1 exp(s+ds)) = Jr(s) ds): exact to
    rounding for |s| <= 4, no small-angle special case."""
    K = -skew(s)
    J = np.eye(3)
    term = np.eye(3)
    for k in range(1, 60):
        term = term @ K / (k + 1)
        J = J + term
    return J


def err(a, b, atol=1.0):
    """max|a-b| / (atol + max(|a|,|b|)); inf if not finite."""
    a = np.asarray(a, float)
    b = np.asarray(b, float)
    if not (np.all(np.isfinite(a)) and np.all(np.isfinite(b))):
        return float("inf")
    return float(np.max(np.abs(a - b)) / (atol + max(np.max(np.abs(a)), np.max(np.abs(b)))))


def err_sign(a, b):
    return min(err(a, b), err(a, -np.asarray(b)))


# ------------------------------------------------------------------ sections

class T:
    """Per-worker helper: calls + violation bookkeeping."""

    def __init__(self, lib, part):
        self.lib = lib
        self.part = part
        self.maxerr = {}

    def chk(self, name, e, tol, inp, what=""):
        if e > self.maxerr.get(name, 0.0):
            self.maxerr[name] = e
        if not (e <= tol):
            self.part.violation(name, "%s: error %.3g > %.1g %s at %s" % (name, e, tol, what, core.jsonable(inp)),
                                {"check": name, "input": inp})

    # thin wrappers returning fresh arrays
    def f(self, name, nout, *args):
        out = np.zeros(nout)
        getattr(self.lib, name)(out, *args)
        return out


def c(x):
    """Fresh contiguous float copy (never aliases the lattice constants)."""
    return np.array(x, dtype=float, order="C")


def sec_single(t, ai):
    """Single-quaternion identities for axis index ai, all angles, all scalings."""
    lib, part = t.lib, t.part
    ax = AXES[ai]
    for gi, ang in enumerate(ANGLES):
        inp = {"axis": ax, "angle": ang}
        qref = q_axang(ax, ang)
        R = rodrigues(ax, ang)
        part.count(1, key=("single", ai, gi) if ang != 0 else None,
                   sample={"section": "single", "axis": ax, "angle": ang} if (ai == 5 and gi == 5) else None)
        # axisAngle2Quat
        q = t.f("mju_axisAngle2Quat", 4, c(ax), float(ang))
        t.chk("axisAngle2Quat != (cos a/2, sin a/2 axis)", err(q, qref), 1e-14, inp)
        t.chk("axisAngle2Quat not unit", abs(np.linalg.norm(q) - 1), 1e-14, inp)
        # quat2Mat: proper rotation == Rodrigues; homogeneous of degree 2
        for s in SCALES:
            M = t.f("mju_quat2Mat", 9, c(s * qref)).reshape(3, 3)
            t.chk("quat2Mat(s q) != s^2 Rodrigues(axis,angle)", err(M, s * s * R), TOL, dict(inp, scale=s))
            if s == 1.0:
                t.chk("quat2Mat not orthonormal", err(M @ M.T, np.eye(3)), TOL, inp)
                t.chk("quat2Mat det != +1", abs(np.linalg.det(M) - 1), TOL, inp)
        # mat2Quat: every branch, from the independent matrix and as a round trip
        tr = R[0, 0] + R[1, 1] + R[2, 2]
        if tr > 1e-9:
            br = 0
        elif tr < -1e-9:
            dg = [R[0, 0], R[1, 1], R[2, 2]]
            top = sorted(dg)[-1]
            br = 4 if sum(1 for x in dg if abs(x - top) < 1e-9) > 1 else 1 + dg.index(top)
        else:
            br = 5
        part.add("mat2Quat_branch_%s" % ["trace>0", "q1", "q2", "q3", "tie", "trace~0"][br], 1)
        qb = t.f("mju_mat2Quat", 4, c(R.ravel()))
        t.chk("mat2Quat(R) != +-q", err_sign(qb, qref), TOL, inp)
        t.chk("mat2Quat not unit", abs(np.linalg.norm(qb) - 1), TOL, inp)
        M1 = t.f("mju_quat2Mat", 9, c(qref))
        qb2 = t.f("mju_mat2Quat", 4, M1)
        t.chk("mat2Quat(quat2Mat(q)) != +-q", err_sign(qb2, qref), TOL, inp)
        M2 = t.f("mju_quat2Mat", 9, qb2)
        t.chk("quat2Mat(mat2Quat(M)) != M", err(M2, M1), TOL, inp)
        # rotVecQuat == R v, norm preserved, zero vector / identity shortcuts
        for v in VECS:
            r = t.f("mju_rotVecQuat", 3, c(v), c(qref))
            t.chk("rotVecQuat(v,q) != R v", err(r, R @ v), TOL, dict(inp, vec=v))
            t.chk("rotVecQuat changes the norm", abs(np.linalg.norm(r) - np.linalg.norm(v)), TOL * 4, dict(inp, vec=v))
            vv = c(v)
            lib.mju_rotVecQuat(vv, vv, c(qref))       # aliased output
            t.chk("rotVecQuat aliased res==vec differs", err(vv, r), 0.0, dict(inp, vec=v))
        for s in SCALES:
            sq = c(s * qref)
            # negQuat is the conjugate: q * neg(q) = |q|^2
            nq = t.f("mju_negQuat", 4, sq)
            t.chk("negQuat != conjugate", err(nq, qconj(sq)), 0.0, dict(inp, scale=s))
            pr = t.f("mju_mulQuat", 4, sq, nq)
            t.chk("q * negQuat(q) != |q|^2 (1,0,0,0)", err(pr, [s * s, 0, 0, 0]), TOL, dict(inp, scale=s))
            # mulQuatAxis, derivQuat
            for v in VECS[1:]:
                ma = t.f("mju_mulQuatAxis", 4, sq, c(v))
                ref = qmul(sq, np.concatenate([[0.0], v]))
                t.chk("mulQuatAxis(q,v) != q*(0,v)", err(ma, ref), TOL, dict(inp, scale=s, vec=v))
                dq = t.f("mju_derivQuat", 4, sq, c(v))
                t.chk("derivQuat(q,w) != 0.5 (0,w)*q", err(dq, 0.5 * qmul(np.concatenate([[0.0], v]), sq)), TOL,
                      dict(inp, scale=s, vec=v))
            # quat2Vel: exp(res*dt) == +-q/|q| ; |res*dt| <= pi ; for |angle| < pi equals the rotation vector
            for dt in (1.0, 0.5):
                w = t.f("mju_quat2Vel", 3, sq, dt)
                t.chk("exp(quat2Vel(q,dt)*dt) != +-q", err_sign(qexp(w * dt), qref), TOL, dict(inp, scale=s, dt=dt))
                t.chk("|quat2Vel*dt| > pi", max(0.0, np.linalg.norm(w * dt) - PI), 1e-12, dict(inp, scale=s, dt=dt))
                if abs(ang) < PI - 1e-6:
                    t.chk("quat2Vel(q,dt) != angle*axis/dt", err(w, ang * ax / dt, atol=1e-300), 1e-9, dict(inp, scale=s, dt=dt))
        # derivQuat is the time derivative of q for an angular velocity w given in the global frame:
        # d/dh [exp(h w) * q] at h = 0 (central difference through the library's own product), and the rotated
        # vector then moves with velocity w x (R x)
        for v in VECS[1:]:
            sp = float(np.linalg.norm(v))
            qp = t.f("mju_mulQuat", 4, t.f("mju_axisAngle2Quat", 4, c(v / sp), EPS * sp), c(qref))
            qm = t.f("mju_mulQuat", 4, t.f("mju_axisAngle2Quat", 4, c(v / sp), -EPS * sp), c(qref))
            dq = t.f("mju_derivQuat", 4, c(qref), c(v))
            t.chk("derivQuat != d/dh [exp(h w) q]", err(dq, (qp - qm) / (2 * EPS)), TOL_FD, dict(inp, vec=v))
            x = VECS[3]
            xp = t.f("mju_rotVecQuat", 3, c(x), c((qref + EPS * dq) / np.linalg.norm(qref + EPS * dq)))
            xm = t.f("mju_rotVecQuat", 3, c(x), c((qref - EPS * dq) / np.linalg.norm(qref - EPS * dq)))
            t.chk("d/dt rotVecQuat(x,q) != w x (R x) for qdot = derivQuat(q,w)", err((xp - xm) / (2 * EPS), np.cross(v, R @ x)),
                  TOL_FD, dict(inp, vec=v))


def sec_z2vec(t, ai):
    part = t.part
    ax = AXES[ai]
    z = np.array([0, 0, 1.0])
    cases = [(ax * s, "scale %g" % s) for s in (1e-20, 1e-3, 1.0, 50.0)]
    if ai == 0:
        cases += [(np.array(v, float), "near-parallel") for v in
                  [(1e-16, 0, 1), (1e-9, 0, 1), (1e-9, 0, -1), (1e-16, 0, -1), (0, 1e-12, -3), (0, 0, 0), (0, 0, 2), (0, 0, -2),
                   (1e-8, -1e-8, -1), (3e-16, 4e-16, 0)]]
    for v, lab in cases:
        inp = {"vec": v}
        q = t.f("mju_quatZ2Vec", 4, c(v))
        n = np.linalg.norm(v)
        part.count(1, key=("z2vec", ai, lab) if n >= 1e-15 else None)
        t.chk("quatZ2Vec not unit", abs(np.linalg.norm(q) - 1), TOL, inp)
        if n < 1e-15:
            t.chk("quatZ2Vec(tiny) != identity", err(q, [1, 0, 0, 0]), 0.0, inp)
            continue
        t.chk("quatZ2Vec(v) does not rotate z to v/|v|", err(q2m(q) @ z, v / n), TOL, inp)
        t.chk("quatZ2Vec rotation axis not orthogonal to z", abs(q[3]), TOL, inp)
        t.chk("quatZ2Vec angle not in [0,pi] (q0<0)", max(0.0, -q[0]), TOL, inp)


def sec_mat2rot(t, ai):
    lib, part = t.lib, t.part
    ax = AXES[ai]
    S_list = [np.eye(3), np.diag([1.0, 2.0, 0.5]), np.array([[1.5, 0.2, -0.1], [0.2, 0.9, 0.3], [-0.1, 0.3, 1.2]])]
    for ang in (0.0, 1e-6, 0.1, PI / 2, 2.5):
        R = rodrigues(ax, ang)
        for si, S in enumerate(S_list):
            for order in (0, 1):
                A = R @ S if order == 0 else S @ R
                U, _, Vt = np.linalg.svd(A)
                Rref = U @ Vt
                q = np.array([1.0, 0, 0, 0])
                it = lib.mju_mat2Rot(q, c(A.ravel()))
                inp = {"axis": ax, "angle": ang, "stretch": si, "order": order}
                if it >= 500:
                    part.add("mat2Rot_not_converged", 1)
                    continue
                part.count(1, key=("mat2rot", ai, ang, si, order) if ang else None)
                t.chk("mat2Rot result not unit", abs(np.linalg.norm(q) - 1), TOL, inp)
                t.chk("mat2Rot(R*S) != polar rotation factor", err(q2m(q), Rref), 1e-6, inp)


def sec_pair(t, item):
    """Pairs: a = (axis ai, all angles), b = (axis bj, subset of angles)."""
    lib, part = t.lib, t.part
    ai, bj, bangles = item
    for ga, anga in enumerate(ANGLES):
        qa = q_axang(AXES[ai], anga)
        Ra = rodrigues(AXES[ai], anga)
        for gb in bangles:
            angb = ANGLES[gb]
            qb = q_axang(AXES[bj], angb)
            Rb = rodrigues(AXES[bj], angb)
            inp = {"a": [AXES[ai], anga], "b": [AXES[bj], angb]}
            part.count(1, key=("pair", ai, ga, bj, gb) if (anga != 0 and angb != 0 and ai != bj) else None,
                       sample={"section": "pair", "a": [AXES[ai], anga], "b": [AXES[bj], angb]} if (ai, ga, bj) == (3, 4, 7) else None)
            ab = t.f("mju_mulQuat", 4, c(qa), c(qb))
            t.chk("mulQuat != Hamilton product", err(ab, qmul(qa, qb)), 1e-14, inp)
            t.chk("quat2mat(mulQuat(a,b)) != Ra Rb", err(q2m(ab), Ra @ Rb), TOL, inp)
            t.chk("|mulQuat(a,b)| != 1 for unit a,b", abs(np.linalg.norm(ab) - 1), TOL, inp)
            al = c(qa)
            lib.mju_mulQuat(al, al, c(qb))            # aliased (used in place by the engine)
            t.chk("mulQuat aliased res==qa differs", err(al, ab), 0.0, inp)
            bl = c(qb)
            lib.mju_mulQuat(bl, c(qa), bl)
            t.chk("mulQuat aliased res==qb differs", err(bl, ab), 0.0, inp)
            # bilinear in both arguments (non-unit quaternions)
            sab = t.f("mju_mulQuat", 4, c(0.5 * qa), c(2.0 * qb))
            t.chk("mulQuat(.5a,2b) != mulQuat(a,b)", err(sab, ab), TOL, inp)
            # subQuat: qb * exp(res) == +-qa, |res| <= pi, scale invariant
            w = t.f("mju_subQuat", 3, c(qa), c(qb))
            t.chk("qb*exp(subQuat(qa,qb)) != +-qa", err_sign(qmul(qb, qexp(w)), qa), TOL, inp)
            t.chk("|subQuat| > pi", max(0.0, np.linalg.norm(w) - PI), 1e-12, inp)
            rel = qlog(qmul(qconj(qb), qa))
            if abs(np.linalg.norm(rel) - PI) > 1e-6:
                t.chk("subQuat(qa,qb) != log(qb^-1 qa)", err(w, rel), 1e-9, inp)
                w2 = t.f("mju_subQuat", 3, c(2.0 * qa), c(0.5 * qb))
                t.chk("subQuat not scale invariant", err(w2, w), 1e-9, inp)
            else:
                part.add("boundary_excluded", 1)
            # poses
            for pi_, p1 in enumerate(POSS):
                p2 = POSS[(pi_ + 1) % 3]
                pr, qr = np.zeros(3), np.zeros(4)
                lib.mju_mulPose(pr, qr, c(p1), c(qa), c(p2), c(qb))
                t.chk("mulPose pos != p1 + R1 p2", err(pr, p1 + Ra @ p2), TOL, dict(inp, p1=p1, p2=p2))
                t.chk("mulPose quat != q1*q2", err(qr, qmul(qa, qb)), TOL, dict(inp, p1=p1, p2=p2))
                for v in VECS[2:]:
                    tv = t.f("mju_trnVecPose", 3, c(p2), c(qb), c(v))
                    t.chk("trnVecPose != R v + p", err(tv, Rb @ v + p2), TOL, dict(inp, p=p2, vec=v))
                    lhs = t.f("mju_trnVecPose", 3, pr, qr, c(v))
                    rhs = t.f("mju_trnVecPose", 3, c(p1), c(qa), tv)
                    t.chk("trnVecPose(mulPose(A,B),v) != trnVecPose(A,trnVecPose(B,v))", err(lhs, rhs), TOL, dict(inp, p1=p1, p2=p2, vec=v))
            # non-unit quaternions: mulPose normalises its quaternion
            pr, qr = np.zeros(3), np.zeros(4)
            lib.mju_mulPose(pr, qr, c(POSS[1]), c(qa), c(POSS[2]), c(2.0 * qb))
            t.chk("mulPose quat not normalised", err_sign(qr, qmul(qa, qb)), TOL, inp)
    # negPose (pose = (POSS[k], a)): both-sided inverse
    for ga, anga in enumerate(ANGLES):
        qa = q_axang(AXES[ai], anga)
        for p in POSS:
            inp = {"pos": p, "quat": [AXES[ai], anga]}
            pn, qn = np.zeros(3), np.zeros(4)
            lib.mju_negPose(pn, qn, c(p), c(qa))
            for lab, args in (("P*neg(P)", (c(p), c(qa), pn, qn)), ("neg(P)*P", (pn, qn, c(p), c(qa)))):
                pr, qr = np.zeros(3), np.zeros(4)
                lib.mju_mulPose(pr, qr, *args)
                t.chk("mulPose(%s) != identity" % lab, max(err(pr, np.zeros(3)), err_sign(qr, [1, 0, 0, 0])), TOL, inp)
            for v in VECS[2:]:
                tv = t.f("mju_trnVecPose", 3, c(p), c(qa), c(v))
                back = t.f("mju_trnVecPose", 3, pn, qn, tv)
                t.chk("trnVecPose(negPose(P), trnVecPose(P,v)) != v", err(back, v), TOL, dict(inp, vec=v))
            part.count(1)


SPEEDS = [0.0, 1e-20, 1e-10, 1e-6, 0.1, PI / 2, PI - 1e-9]
HS = [1.0, 0.5, 2.0, -1.0, 0.002]


def sec_integrate(t, item):
    """quatIntegrate / subQuat inverse relation: q from (axis ai, all angles) x scalings, velocity axis bj."""
    lib, part = t.lib, t.part
    ai, bj = item
    for ga, ang in enumerate(ANGLES):
        q0 = q_axang(AXES[ai], ang)
        for si, sp in enumerate(SPEEDS):
            for h in HS:
                v = AXES[bj] * sp / abs(h)       # |h v| = sp
                inp = {"quat": [AXES[ai], ang], "vel": v, "h": h}
                ref = qmul(q0, qexp(h * v))
                for s in SCALES if (si == 4) else (1.0,):
                    q = c(s * q0)
                    lib.mju_quatIntegrate(q, c(v), float(h))
                    part.count(1, key=("integ", ai, ga, bj, si, h) if sp > 0 else None)
                    t.chk("quatIntegrate(q,v,h) != normalize(q)*exp(h v)", err(q, ref), TOL, dict(inp, scale=s))
                    t.chk("quatIntegrate result not unit", abs(np.linalg.norm(q) - 1), TOL, dict(inp, scale=s))
                w = t.f("mju_subQuat", 3, q, c(q0))
                # |h v| < pi: subQuat inverts quatIntegrate (absolute error; sp <= pi)
                t.chk("subQuat(quatIntegrate(q,v,h), q) != h v", float(np.max(np.abs(w - h * v))), 1e-9, inp)


def sec_euler(t, item):
    lib, part = t.lib, t.part
    seqs = item
    for seq in seqs:
        for ti, e in enumerate(EULER_TRIPLES):
            R = np.eye(3)
            for ch, a in zip(seq, e):
                Ri = rodrigues(np.eye(3)["xyz".index(ch.lower())], a)
                R = R @ Ri if ch.islower() else Ri @ R
            q = t.f("mju_euler2Quat", 4, c(e), seq.encode() + b"\0")
            inp = {"seq": seq, "euler": e}
            part.count(1, key=("euler", seq, ti) if ti != 2 else None,
                       sample={"section": "euler", "seq": seq, "euler": e} if (seq == "xYz" and ti == 0) else None)
            t.chk("euler2Quat not unit", abs(np.linalg.norm(q) - 1), TOL, inp)
            t.chk("euler2Quat(seq) != product of elementary rotations", err(q2m(q), R), TOL, inp)


def sec_euler_bad(t, _):
    lib, part = t.lib, t.part
    for seq in ["", "x", "xy", "xyzx", "xyzXYZ", "abc", "xy1", "xyw", " xy", "XY_"]:
        q = np.zeros(4)
        try:
            lib.mju_euler2Quat(q, c([0.1, 0.2, 0.3]), seq.encode() + b"\0")
            part.violation("euler2Quat accepts invalid sequence", "mju_euler2Quat(%r) returned %s without mju_error" % (seq, q),
                           {"seq": seq})
        except mj.MjError:
            pass
        part.count(1, key=("eulerbad", seq))


def fd_subquat(lib, qa, qb):
    Da, Db = np.zeros((3, 3)), np.zeros((3, 3))
    for i in range(3):
        e = np.zeros(3)
        e[i] = 1
        for D, which in ((Da, 0), (Db, 1)):
            out = []
            for sgn in (1, -1):
                a, b = c(qa), c(qb)
                lib.mju_quatIntegrate(a if which == 0 else b, e, sgn * EPS)
                w = np.zeros(3)
                lib.mju_subQuat(w, a, b)
                out.append(w)
            D[:, i] = (out[0] - out[1]) / (2 * EPS)
    return Da, Db


REL_ANGLES = [0.0, 1e-10, 5e-8, 7e-8, 2e-7, 1e-6, 1e-3, 0.1, PI / 2, 2.5, 3.0, PI - 1e-9]


def sec_dsub(t, item):
    lib, part = t.lib, t.part
    ai, bj = item
    for gb in (0, 3, 4, 10):
        qb = q_axang(AXES[bj], ANGLES[gb])
        for ra in REL_ANGLES:
            qa = qmul(qb, q_axang(AXES[ai], ra))
            inp = {"qa": qa, "qb": qb, "rel_angle": ra}
            if abs(ra) > PI - 1e-4:
                part.add("boundary_excluded", 1)
                # still must not crash / return non-finite
                Da, Db = np.zeros(9), np.zeros(9)
                lib.mjd_subQuat(c(qa), c(qb), Da, Db)
                t.chk("mjd_subQuat not finite", 0.0 if np.all(np.isfinite(Da)) and np.all(np.isfinite(Db)) else float("inf"), 0.0, inp)
                continue
            Da, Db = np.zeros(9), np.zeros(9)
            lib.mjd_subQuat(c(qa), c(qb), Da, Db)
            Fa, Fb = fd_subquat(lib, qa, qb)
            part.count(1, key=("dsub", ai, bj, gb, ra) if ra else None,
                       sample={"section": "mjd_subQuat", "qa": qa, "qb": qb} if (ai, bj, gb, ra) == (2, 9, 3, 0.1) else None)
            t.chk("mjd_subQuat Da != FD", err(Da.reshape(3, 3), Fa), TOL_FD, inp)
            t.chk("mjd_subQuat Db != FD", err(Db.reshape(3, 3), Fb), TOL_FD, inp)
            # closed form (series, no small-angle branch): Da = Jr(phi)^-1, Db = -Da', phi = log(qb^-1 qa)
            Jinv = np.linalg.inv(jr_series(qlog(qmul(qconj(qb), qa))))
            t.chk("mjd_subQuat Da != Jr(phi)^-1", err(Da.reshape(3, 3), Jinv), TOL_SER, inp)
            t.chk("mjd_subQuat Db != -Jr(phi)^-T", err(Db.reshape(3, 3), -Jinv.T), TOL_SER, inp)
            # nullable outputs
            Da2, Db2 = np.zeros(9), np.zeros(9)
            lib.mjd_subQuat(c(qa), c(qb), Da2, None)
            lib.mjd_subQuat(c(qa), c(qb), None, Db2)
            lib.mjd_subQuat(c(qa), c(qb), None, None)
            t.chk("mjd_subQuat nullable outputs differ", max(err(Da2, Da), err(Db2, Db)), 0.0, inp)


DQ_SPEEDS = [0.0, 1e-10, 1e-6, 1e-3, 1.0 / 32 - 1e-9, 1.0 / 32 + 1e-9, 0.1, PI / 2, 2.5, 4.0]
DQ_HS = [1.0, 0.5, 2.0, 0.01]


def sec_dquat(t, item):
    """mjd_quatIntegrate vs central differences in the tangent space (output difference measured with mju_subQuat)."""
    lib, part = t.lib, t.part
    ai, bj = item
    q0 = q_axang(AXES[ai], ANGLES[3 + (bj % 2)])

    def out(qstart, v, h):
        q = c(qstart)
        lib.mju_quatIntegrate(q, c(v), float(h))
        return q

    def tdiff(qp, qm, y):
        a, b = np.zeros(3), np.zeros(3)
        lib.mju_subQuat(a, qp, y)
        lib.mju_subQuat(b, qm, y)
        return (a - b) / (2 * EPS)

    for si, sp in enumerate(DQ_SPEEDS):
        for h in DQ_HS:
            v = AXES[bj] * sp / h                # |h v| = sp
            inp = {"quat": q0, "vel": v, "scale": h}
            if sp > PI - 1e-4 and sp < PI + 1e-4:
                part.add("boundary_excluded", 1)
                continue
            Dq, Dv, Dh = np.zeros(9), np.zeros(9), np.zeros(3)
            lib.mjd_quatIntegrate(c(v), float(h), Dq, Dv, Dh)
            y = out(q0, v, h)
            Fq, Fv, Fs = np.zeros((3, 3)), np.zeros((3, 3)), np.zeros((3, 3))
            for i in range(3):
                e = np.zeros(3)
                e[i] = 1
                qp, qm = c(q0), c(q0)
                lib.mju_quatIntegrate(qp, e, EPS)
                lib.mju_quatIntegrate(qm, e, -EPS)
                Fq[:, i] = tdiff(out(qp, v, h), out(qm, v, h), y)
                Fv[:, i] = tdiff(out(q0, v + EPS * e, h), out(q0, v - EPS * e, h), y)
                Fs[:, i] = tdiff(out(q0, h * v + EPS * e, 1.0), out(q0, h * v - EPS * e, 1.0), y)
            Fh = tdiff(out(q0, v, h + EPS), out(q0, v, h - EPS), y)
            part.count(1, key=("dquat", ai, bj, si, h) if sp else None,
                       sample={"section": "mjd_quatIntegrate", "vel": v, "scale": h} if (ai, bj, si, h) == (1, 4, 6, 0.5) else None)
            scale = max(1.0, np.linalg.norm(v))
            t.chk("mjd_quatIntegrate Dquat != FD", err(Dq.reshape(3, 3), Fq), TOL_FD, inp)
            t.chk("mjd_quatIntegrate Dscale != FD", err(Dh, Fh, atol=scale), TOL_FD * 10, inp)
            # closed forms (series): Dquat = exp(-[s]x) = R(s)', d/ds = Jr(s), Dscale = Jr(s) vel, s = scale*vel
            Jr = jr_series(h * v)
            t.chk("mjd_quatIntegrate Dquat != R(scale*vel)'", err(Dq.reshape(3, 3), rodrigues(AXES[bj], sp).T), TOL_SER, inp)
            t.chk("mjd_quatIntegrate Dscale != Jr(s) vel", err(Dh, Jr @ v, atol=scale), TOL_SER, inp)
            t.chk("mjd_quatIntegrate Dvel is neither scale*Jr(s) nor Jr(s)",
                  min(err(Dv.reshape(3, 3), h * Jr), err(Dv.reshape(3, 3), Jr)), TOL_SER, inp)
            ev = err(Dv.reshape(3, 3), Fv)
            if ev > TOL_FD and err(Dv.reshape(3, 3), Fs) <= TOL_FD:
                # one root cause, one key: the returned matrix is d/d(scale*vel); the documented D_v = dq/dv = scale * that.
                # The replay is the minimal input (vel = 0, scale = 0.5: D_v must be 0.5 I, the identity is returned).
                Dmin = np.zeros(9)
                lib.mjd_quatIntegrate(np.zeros(3), 0.5, None, Dmin, None)
                part.violation("mjd_quatIntegrate: Dvel is the derivative w.r.t. scale*vel, not w.r.t. vel (differs by the factor scale)",
                               "mjd_quatIntegrate(vel=0, scale=0.5) returns Dvel = %s; documented D_v = dq/dvel = 0.5*I (central differences of "
                               "mju_quatIntegrate agree with 0.5*I); on the whole lattice Dvel equals d(output)/d(scale*vel), i.e. the factor "
                               "`scale` is missing (first seen: err %.3g at %s)" % (Dmin.tolist(), ev, core.jsonable(inp)),
                               {"check": "Dvel", "vel": [0.0, 0.0, 0.0], "scale": 0.5, "observed_Dvel": Dmin.tolist(),
                                "expected_Dvel": (0.5 * np.eye(3)).ravel().tolist()})
            else:
                t.chk("mjd_quatIntegrate Dvel != FD", ev, TOL_FD, inp)
            # nullable outputs give the same numbers
            Dq2, Dv2, Dh2 = np.zeros(9), np.zeros(9), np.zeros(3)
            lib.mjd_quatIntegrate(c(v), float(h), Dq2, None, None)
            lib.mjd_quatIntegrate(c(v), float(h), None, Dv2, None)
            lib.mjd_quatIntegrate(c(v), float(h), None, None, Dh2)
            t.chk("mjd_quatIntegrate nullable outputs differ", max(err(Dq2, Dq), err(Dv2, Dv), err(Dh2, Dh)), 0.0, inp)


def sec_spatial(t, ai):
    """mju_cross and mju_transformSpatial (frame change of motion / force vectors)."""
    lib, part = t.lib, t.part
    ax = AXES[ai]
    for bj in range(len(AXES)):
        a, b = ax * 1.3, AXES[bj] * 0.7
        r = t.f("mju_cross", 3, c(a), c(b))
        t.chk("mju_cross != numpy cross", err(r, np.cross(a, b)), 1e-15, {"a": a, "b": b})
        al = c(a)
        lib.mju_cross(al, al, c(b))
        t.chk("mju_cross aliased differs", err(al, r), 0.0, {"a": a, "b": b})
        part.count(1)
    for gi in (0, 3, 4, 6, 10):
        R = rodrigues(ax, ANGLES[gi])        # columns: new axes in old frame
        for pi_ in range(3):
            newpos, oldpos = POSS[pi_], POSS[(pi_ + 2) % 3]
            dif = newpos - oldpos
            mot = np.array([0.3, -1.1, 0.7, 0.2, 0.5, -0.4])    # (rot, lin)
            frc = np.array([-0.6, 0.1, 0.9, 1.2, -0.3, 0.8])    # (torque, force)
            inp = {"axis": ax, "angle": ANGLES[gi], "newpos": newpos, "oldpos": oldpos}
            for rot in (R, None):
                Rt = R.T if rot is not None else np.eye(3)
                rp = c(R.ravel()) if rot is not None else None
                m2 = t.f("mju_transformSpatial", 6, c(mot), 0, c(newpos), c(oldpos), rp)
                f2 = t.f("mju_transformSpatial", 6, c(frc), 1, c(newpos), c(oldpos), rp)
                mref = np.concatenate([Rt @ mot[:3], Rt @ (mot[3:] - np.cross(dif, mot[:3]))])
                fref = np.concatenate([Rt @ (frc[:3] - np.cross(dif, frc[3:])), Rt @ frc[3:]])
                t.chk("transformSpatial(motion) wrong", err(m2, mref), TOL, inp)
                t.chk("transformSpatial(force) wrong", err(f2, fref), TOL, inp)
                t.chk("transformSpatial does not preserve power f.v", abs(m2 @ f2 - mot @ frc), TOL * 10, inp)
                part.count(1, key=("spatial", ai, gi, pi_, rot is None))


SECTIONS = {"single": sec_single, "z2vec": sec_z2vec, "mat2rot": sec_mat2rot, "pair": sec_pair, "integ": sec_integrate,
            "euler": sec_euler, "eulerbad": sec_euler_bad, "dsub": sec_dsub, "dquat": sec_dquat, "spatial": sec_spatial}


def _chunk(chunk):
    lib = mj.load()
    part = core.Part()
    t = T(lib, part)
    for sec, item in chunk:
        try:
            SECTIONS[sec](t, item)
        except mj.MjError as e:
            part.violation("mju_error in %s" % sec, "unexpected mju_error in section %s item %r: %s" % (sec, item, e),
                           {"section": sec, "item": core.jsonable(item)})
    return part


def run(ctx):
    lib = mj.load()
    missing = [f for f in FUNCS if f not in lib.protos]
    if missing:
        ctx.violation("public function missing", "not exported by the tree: %s" % missing, {"missing": missing})
        return
    # every public (MJAPI) function declared in the tree's engine_util_spatial.h must be in FUNCS (or be the one
    # non-rotation utility listed here); a new public function makes the run non-exhaustive instead of silently uncovered
    import os
    import re
    from .. import build
    hdr = open(os.path.join(build.REPO, "src/engine/engine_util_spatial.h")).read()
    public = set(re.findall(r"MJAPI\s+\w+\s+(mju_\w+)\s*\(", hdr))
    uncovered = sorted(public - set(FUNCS) - {"mju_mulInertVec"})
    ctx.extra["public_functions_in_header"] = len(public)
    if uncovered:
        ctx.extra["uncovered_public_functions"] = uncovered
        ctx.exhaustive = False
    nA = len(AXES)
    items = []
    for ai in range(nA):
        items += [("single", ai), ("z2vec", ai), ("mat2rot", ai), ("spatial", ai)]
    # pairs: a over all axes x all angles; b over all axes x {0.1, pi/2, pi-1e-9} (quick) / all angles (thorough)
    bangles = list(range(len(ANGLES))) if ctx.thorough else [3, 4, 5]
    for ai in range(nA):
        for bj in range(nA):
            items.append(("pair", (ai, bj, bangles)))
            items.append(("integ", (ai, bj)))
    # derivatives: axis pairs (thorough: all 32x32, quick: 32 x 9)
    bsel = list(range(nA)) if ctx.thorough else [0, 4, 9, 12, 13, 21, 25, 27, 30]
    for ai in range(nA):
        for bj in bsel:
            items.append(("dsub", (ai, bj)))
            items.append(("dquat", (ai, bj)))
    seqs = ["".join(s) for s in itertools.product("xyzXYZ", repeat=3)]
    for k in range(0, len(seqs), 18):
        items.append(("euler", seqs[k:k + 18]))
    items.append(("eulerbad", None))

    core.pmap(ctx, _chunk, items, nchunks=core.NCPU * 6)
    ctx.extra["functions_covered"] = len(FUNCS)
    ctx.extra["euler_sequences"] = len(seqs)
    ctx.extra["items"] = len(items)
    ctx.rule = ("lattice: %d axes (26 normalised cube directions + 6 permutations of (+-1,+-2,+-3)/sqrt14) x angles %s x quaternion "
                "scalings %s x vectors/positions; single-quaternion identities on the full product; pairs (a,b): a over all axes x "
                "all angles, b over all axes x %d angles (mulQuat/subQuat/mulPose/negPose/trnVecPose); quatIntegrate/subQuat inverse "
                "on all (axis,angle) quats x all velocity axes x |hv| in %s x h in %s; all 216 Euler sequences x %d angle triples + "
                "10 invalid strings; mjd_subQuat on relative angles %s and mjd_quatIntegrate on |hv| in %s x h in %s over %d axis "
                "pairs, central differences eps=1e-6; mju_quatZ2Vec / mju_mat2Rot / mju_cross / mju_transformSpatial per axis. "
                "non-trivial = non-zero angle / non-zero velocity / distinct axes (identity-shortcut cases count as trivial)"
                % (nA, ANGLES, SCALES, len(bangles), SPEEDS, HS, len(EULER_TRIPLES), REL_ANGLES, DQ_SPEEDS, DQ_HS, nA * len(bsel)))
    ctx.assumptions = ["reference algebra in numpy (Rodrigues, Hamilton product, exp/log) is trusted",
                       "tolerances: 1e-11 algebraic (1e-14 for closed forms), 1e-6 for central differences with eps=1e-6",
                       "non-unit quaternions: only documented-implied identities; mju_rotVecQuat assumed to need a unit quaternion",
                       "derivatives are in the 3D tangent space with local (right-multiplied) perturbations, as mju_quatIntegrate",
                       "mju_derivQuat: the frame of the angular velocity is not documented; the global-frame reading "
                       "(qdot = 0.5 (0,w) q, rotated vectors move with w x Rx) is the one checked"]
