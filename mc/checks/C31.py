"""C31 Binary model files round-trip exactly; corrupt files are rejected.

Models: a 'kitchen' model that makes 485 of the 486 MJMODEL_POINTERS arrays non-empty (flex_texcoord stays empty) plus
five small alphabet models (2-8 KB images).
 * round trip (production build, Python): mj_saveModel -> mj_loadModelBuffer -> every size / option / array identical
   (vg_model_diff), mj_sizeModel == bytes written (guard bytes behind the buffer untouched), save(load(save)) == save;
   the file layout is derived from the reflection tables and self-checked (every array found at its derived offset,
   one poked element per int array changes exactly the predicted bytes).
 * fault enumeration (ASan/UBSan build, native/drivers/c31_mjb.cc): every truncation length, every int of the header,
   the size block, mjOption and every int / mjtSize array x hostile values; thorough adds all pairs of size fields
   x {0, n+1}^2 and every byte x {0x00, 0xFF, ^0x80} for images <= 8 KB.
   Oracle per point: NULL + warning, or a model for which an independent table of bounds relations written from
   mjmodel.h (mc/checks/_c31_bounds.py) holds and mj_makeData / mj_forward / mj_step / keyframe reset / name lookups
   raise no sanitizer report; a truncated image is never accepted; the loader never raises mju_error.
"""
from __future__ import annotations

import os
import re
import tempfile

import numpy as np

from .. import build, core, mj
from . import _c2x_run as rx
from . import _c31_bounds as B
from . import _c31_plan as P

LEVEL = "fault_enumeration"
META = dict(
    category=LEVEL,
    technique="bit-exact save/load round trip + exhaustive enumeration of truncation lengths and of (int field element x "
              "hostile value) corruptions of the MJB image in the ASan/UBSan build, independent bounds table as oracle",
    text="Validation gaps show only for one particular corrupted field, so every integer of the image is corrupted with "
         "each hostile value and every prefix of the file is tried; the fault space is finite and enumerated completely "
         "(caps for the 128 KB model in the quick tier are stated in the evidence).",
    note="Decoders for PNG/OBJ and qhull are shims (DESIGN §1): meshes are inline/STL, textures builtin.  Floating point "
         "payload corruptions are only covered by the byte sweep on small images.  Leaks on rejected images are counted "
         "as information, not as violations (the statement does not mention them).",
    design_ref="DESIGN.md §3 C31")


K_DERIVED = ("mj_loadModelBuffer overwrites the size mj_makeModel derived (nnames_map) with the file's value after comparing "
             "only nbuffer: an inconsistent size block whose padded total coincides is accepted and the array reads overflow "
             "inside m->buffer (out-of-bounds write in bufread)")


K_VALID_OVF = ("mj_validateReferences: adr + num is computed in int and overflows for large values (undefined behaviour; the "
               "wrapped sum passes the bound check)")


K_NEG1 = ("mj_validateReferences accepts -1 for every id / address array (generic test `adrsmin < -1`), also where -1 is "
          "not a legal value (e.g. body_parentid, geom_bodyid, *_adr of non-empty ranges)")


_MENTIONED = None
_SIZE_NAMES = set()      # names of the mjModel size fields (filled by run() before the workers are forked)


def _is_size(field: str) -> bool:
    return field in _SIZE_NAMES or field.startswith("opt.") or field.startswith("header")


def _mentioned():
    """names of the model arrays that mj_validateReferences looks at (only used to word the keys)."""
    global _MENTIONED
    if _MENTIONED is None:
        try:
            src = open(os.path.join(build.REPO, "src/engine/engine_io.c")).read()
            a = src.index("mj_validateReferences(const mjModel* m)")
            b = src.index("\n}\n", a)
            body = src[a:b]
            _MENTIONED = set(re.findall(r"X\((\w+),", body)) | set(re.findall(r"m->(\w+)\[", body))
            for row in re.findall(r"X\(\w+,\s*\w+,\s*\w+\s*,\s*m->(\w+)", body):
                _MENTIONED.add(row)
        except (OSError, ValueError):
            _MENTIONED = set()
    return _MENTIONED


def _gap_key(field: str, fault: str) -> str:
    """canonical key of a validation gap: by field and by the class of the corrupted value."""
    field = re.sub(r"\[\d+\]|_\d+$", "", field)
    if not _is_size(field) and "+" not in field and field not in _mentioned():
        return "mj_validateReferences does not check " + field
    try:
        v = int(fault.split()[-1])
    except ValueError:
        v = None
    if "+" in field:
        return "loader accepts inconsistent size pair"
    if v == -1 and not _is_size(field):
        return K_NEG1
    if v is not None and v < 0:
        return "loader accepts negative " + field
    return "loader accepts too large or inconsistent " + field


def _key(k: str, fault: str) -> str:
    """driver key -> canonical key."""
    if k.startswith("unvalidated:"):
        return _gap_key(k.split(":", 1)[1], fault)
    return k


class _DedupPart(core.Part):
    """Part.violation keeps at most 50 records: record each canonical key once per job so that no key is dropped."""

    def violation(self, key, what, replay=None):
        seen = self.__dict__.setdefault("_seen", set())
        if key in seen:
            return
        seen.add(key)
        core.Part.violation(self, key, what, replay)


def _job(job):
    exe, name, mjb, plan, table, lo, hi, exercise = job
    part = _DedupPart()
    objs = rx.objs_for("asan", exe)
    r = rx.subprocess.run([exe, "run", mjb, plan, table, str(lo), str(hi), "4096", str(exercise)], capture_output=True,
                          text=True, env=rx.env())
    if r.returncode != 0:
        raise RuntimeError("c31 driver failed rc=%d: %s" % (r.returncode, r.stderr[-1500:]))
    labels = None
    n = 0
    for line in r.stdout.splitlines():
        c = line[:2]
        if c == "R ":
            _, p, changed, cls = line.split(" ", 3)
            n += 1
            cls = re.sub(r"\s+", " ", cls)[:90]
            part.add("outcome %s" % cls, 1)
            if changed == "1":
                part["nontrivial_count"] += 1
            if len(part["samples"]) < 2 and changed == "1" and cls.startswith("rejected"):
                if labels is None:
                    labels = open(plan).read().splitlines()
                part["samples"].append({"model": name, "fault": labels[int(p)], "outcome": cls})
        elif c == "V ":
            _, p, rest = line.split(" ", 2)
            key, _, what = rest.partition("|")
            if labels is None:
                labels = open(plan).read().splitlines()
            fault = labels[int(p)] if p.isdigit() and int(p) < len(labels) else "?"
            part.add("violating_points", 1)
            ck = _key(key, fault)
            if key.startswith("unvalidated:"):
                part["extra"]["gap: %s | %s" % (ck[:60], re.sub(r"\[\d+\]|_\d+$", "", fault.split(" ", 1)[0]))] = 1
            part.violation(ck, "%s: %s [fault line: %s]" % (name, what, fault), dict(model=name, fault=fault))
        elif line.startswith("CRASH "):
            _, p, rest = line.split(" ", 2)
            if labels is None:
                labels = open(plan).read().splitlines()
            fault = labels[int(p)]
            field = re.sub(r"\[\d+\]|_\d+$", "", fault.split(" ", 1)[0])
            n += 1
            part["nontrivial_count"] += 1
            if rest.startswith("exit97"):
                # CPU limit of the point (a corrupted size of 2^31 makes mj_makeModel / mj_makeData allocate and clear GBs):
                # resource exhaustion, not a memory-safety verdict
                part.add("outcome cpu-limit (huge size accepted or being allocated)", 1)
                part.add("cpu_limit_points", 1)
                continue
            kind, fn, _ = rx.crash_key(rest, objs)
            names = [rx._frame_fn(f, objs) or "" for f in (rest.split("frames: ", 1)[1].split(" | ")[0].split("<") if "frames: " in rest else [])]
            part.add("crash_points", 1)
            if "bufread" in names and "mj_loadModelBuffer" in names:
                key = K_DERIVED
            elif "integer overflow" in kind and "mj_validateReferences" in names:
                key = K_VALID_OVF
            elif "mj_loadModelBuffer" in names or "mj_validateReferences" in names:
                key = "crash inside the loader after corrupting %s: %s" % (field, kind)
            else:
                # the loader accepted the image and the bounds table holds, but using the model is not memory safe
                key = _gap_key(field, fault)
                part["extra"]["gap: %s | %s" % (key[:60], field)] = 1
            part.violation(key, "%s: fault '%s': process died: %s; frames %s" % (name, fault, rest[:300], "<".join(names[:4])),
                           dict(model=name, fault=fault))
    part["evaluations"] += n
    part.add("points[%s]" % name, n)
    return part


def _chunk(chunk):
    ctx = core.Ctx("C31", "quick", 0, LEVEL)
    ctx.max_samples = 3
    for job in chunk:
        ctx.merge(_job(job))
    total = core.Part()
    total["evaluations"] = ctx.evaluations
    total["nontrivial_count"] = ctx.nontrivial_extra
    total["samples"] = ctx.samples[:2]
    total["violations"] = [{"key": k, "what": w, "replay": r} for k, w, r in ctx.violations]
    total["extra"] = ctx.extra
    return total


def _roundtrip(ctx, lib, name, m, offs):
    """save -> load -> compare, size bookkeeping, idempotence.  Returns the image."""
    sz = int(lib.mj_sizeModel(m))
    guard = 64
    buf = P.save(lib, m, cap=sz + guard, fill=0xA5)
    ctx.count(1, key="roundtrip:" + name)
    if not (buf[sz:] == 0xA5).all():
        ctx.violation("mj_saveModel writes beyond mj_sizeModel", "%s: bytes after offset %d modified" % (name, sz), dict(model=name))
    img = np.array(buf[:sz])
    # the last byte is written: saving into a buffer pre-filled with another pattern gives the same image
    img2 = np.array(P.save(lib, m, cap=sz, fill=0x3C))
    if not (img == img2).all():
        k = int(np.nonzero(img != img2)[0][0])
        ctx.violation("mj_saveModel leaves bytes of the image unwritten", "%s: byte %d of %d keeps the buffer's old content "
                      "(mj_sizeModel larger than what is written, or padding not initialised)" % (name, k, sz), dict(model=name))
    ptr = lib.mj_loadModelBuffer(img, sz)
    if not ptr:
        ctx.violation("saved model does not load", "%s: %s" % (name, lib.last_warning()), dict(model=name))
        return img
    m2 = mj.Model(lib, ptr)
    d = lib.model_diff(m, m2)
    if d is not None:
        ctx.violation("round trip changes " + d, "%s: field %s differs after save/load" % (name, d), dict(model=name))
    import ctypes
    for flg in ("flg_gravcomp", "flg_surfacevel", "flg_adhesion"):
        a = ctypes.c_ubyte.from_address(m.ptr + offs["offsetof_" + flg]).value
        b = ctypes.c_ubyte.from_address(m2.ptr + offs["offsetof_" + flg]).value
        if a != b:
            ctx.violation("round trip changes " + flg, "%s: mjModel.%s is %d before mj_saveModel and %d after "
                          "mj_loadModelBuffer" % (name, flg, a, b), dict(model=name))
    if int(lib.mj_sizeModel(m2)) != sz:
        ctx.violation("mj_sizeModel changes over a round trip", "%s: %d -> %d" % (name, sz, int(lib.mj_sizeModel(m2))), dict(model=name))
    img3 = np.array(P.save(lib, m2))
    if len(img3) != len(img) or not (img3 == img).all():
        ctx.violation("save(load(save(m))) differs from save(m)", "%s" % name, dict(model=name))
    m2.free()
    return img


def run(ctx):
    lib = mj.load("rel")
    exe = build.ensure_exe("c31_mjb", ["drivers/c31_mjb.cc"], variant="asan")
    offs = P.offsets(exe)
    tmp = tempfile.mkdtemp(prefix="verif_c31_")
    table = os.path.join(tmp, "bounds.tbl")
    with open(table, "w") as fh:
        fh.write(B.render())
    jobs = []
    stats = {}
    extra_models = [("adhesion", lib.load_xml(
        "<mujoco><size memory='64K'/><worldbody><geom type='plane' size='1 1 .1' surfacevel='0 0 0 1 0 0'/>"
        "<body pos='0 0 .1' gravcomp='1'><freejoint/><geom size='.1' adhesion='2'/></body></worldbody></mujoco>"))]
    for name, m in P.models(lib, offs) + extra_models:
        img = _roundtrip(ctx, lib, name, m, offs)
        if name == "adhesion":
            m.free()          # round trip only
            continue
        if not ctx.thorough and name not in ("kitchen", "hinge"):
            m.free()          # quick: round trip only for the other small models
            continue
        lay = P.Layout(lib, m, offs, img)               # raises HarnessError if the derived layout is wrong
        _SIZE_NAMES.update(nm for nm, _, _, _ in lay.sizes)
        ndiff = lay.differential_check(lib, m, img)
        size = len(img)
        sizes = {nm: v for nm, o, w, v in lay.sizes}
        header = [int.from_bytes(bytes(img[4 * k:4 * k + 4]), "little", signed=True) for k in range(P.NHEADER)]
        empty = [a[0] for a in lay.arrays if a[3] == 0]
        big = size > 16384
        plan = P.plan_identity()
        # truncation: every length; for the big image in quick: every length up to the end of the struct block, the two
        # lengths around every array boundary and every 64th length (cap stated)
        full_big = bool(os.environ.get("C31_FULL_BIG"))      # every length / every element of the 128 KB image: hours
        if big and not (ctx.thorough and full_big):
            L = set(range(0, lay.off_arrays + 64))
            for _, off, elsize, cnt, _ in lay.arrays:
                L.update(x for x in (off - 1, off, off + 1) if 0 <= x < size)
            L.update(range(0, size, 8 if ctx.thorough else 64))
            L.add(size - 1)
            plan += P.plan_truncation(size, sorted(L))
            ctx.exhaustive = False
            ctx.extra["cap: truncation lengths of %s" % name] = "%d of %d" % (len(L), size)
        else:
            plan += P.plan_truncation(size)
        ints, st = P.plan_ints(lay, sizes, header, (None if (ctx.thorough and full_big) else (8 if ctx.thorough else 2)) if big else None)
        if st["capped_arrays"]:
            ctx.exhaustive = False
            ctx.extra["cap: int arrays of %s limited to %s elements spread over the array" % (name, 8 if ctx.thorough else 2)] = st["capped_arrays"]
        plan += ints
        npairs = nbytes = 0
        if ctx.thorough:
            pr = P.plan_size_pairs(lay)
            npairs = len(pr)
            plan += pr
            if size <= 8192:
                by = P.plan_bytes(size)
                nbytes = len(by)
                plan += by
        stats[name] = dict(bytes=size, int_points=len(ints), elements=st["elements"], pairs=npairs, byte_points=nbytes,
                           layout_differential_checks=ndiff, empty_arrays=len(empty))
        if name == "kitchen":
            ctx.extra["arrays_empty_in_kitchen_model"] = empty
            ctx.extra["arrays_total"] = len(lay.arrays)
        mjb = os.path.join(tmp, name + ".mjb")
        with open(mjb, "wb") as fh:
            fh.write(bytes(img))
        pl = os.path.join(tmp, name + ".plan")
        with open(pl, "w") as fh:
            fh.write("\n".join(plan) + "\n")
        shard = 1500 if big else 2500
        for lo in range(0, len(plan), shard):
            # two models trip UBSan's nonnull check already unmodified (empty: mju_copy(NULL, NULL, 0); kitchen: its
            # first-party plugins have no plugin state and _resetData does memcpy(NULL, p, 0)): bounds table only there,
            # the use of the accepted model (makeData / forward / step / names) is exercised on the other models
            jobs.append((exe, name, mjb, pl, table, lo, min(len(plan), lo + shard), 0 if name in ("empty", "kitchen") else 1))
        m.free()
    core.pmap(ctx, _chunk, jobs, nchunks=len(jobs))
    ctx.extra["models"] = stats
    ctx.extra["violation_keys"] = sorted(k for k, _, _ in ctx.violations)
    ctx.extra["known_keys_hit"] = sorted(k for k, _ in ctx.known_hits)
    ctx.extra["bounds_table_rows"] = len(B.ROWS)
    ctx.rule = ("6 models (kitchen: 485/486 model arrays non-empty; empty, hinge, chain2, ballfree, tendon) x {identity; every "
                "truncation length; every header int / size field / mjOption int / element of every int or mjtSize array x "
                "{-2,-1,0,1,n,n+1,INT_MAX,INT_MIN} (sizes also +-2^32, 2^63-1, -2^63)%s}; oracle: NULL+warning or bounds table "
                "holds and makeData/forward/step/keyframe/name lookups are sanitizer-clean.  non-trivial = the fault changed "
                "at least one byte of the image" % ("; all pairs of size fields x {0,n+1}^2; every byte x {00,FF,^80} for images "
                                                     "<= 8 KB" if ctx.thorough else ""))
    ctx.assumptions = ["file layout derived from reflection tables and self-checked against the image (HarnessError otherwise)",
                       "bounds table _c31_bounds.py written from mjmodel.h comments is the definition of 'cross-references in bounds'",
                       "PNG/OBJ/qhull shims inert: assets are inline / STL / builtin"]
    try:
        for f in os.listdir(tmp):
            os.unlink(os.path.join(tmp, f))
        os.rmdir(tmp)
    except OSError:
        pass
