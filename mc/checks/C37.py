"""C37 Model loading never crashes and enforces the schema.

Crash-freedom (fault enumeration, `asan` build = ASan+UBSan, MuJoCo's own arena poisoning on):
  corpus  = one minimal valid document per schema edge (parent->child, main/default context; scaffold minimised by
            greedy deletion) + small shipped MJCF files + the URDF documents of test/xml/xml_urdf_test.cc;
  single deviations: at every attribute -- delete, duplicate, replace by each hostile value; for the target element
            every schema attribute (present or not) x hostile values; at every element -- delete, duplicate, re-parent
            under every other element, rename to every other tag; truncation at every byte (documents <= 2 KB);
  thorough: every 2nd corpus document, the full hostile-value list, all pairs of attribute deviations on one document
  (C37_PAIR_DOCS / C37_ALL_NODES / C37_RENAME_ALL enlarge it to the 5e5-document set, which needs hours).
  Each document goes through mj_parseXMLString (+ mj_compile of the returned spec) in a worker process that holds a
  batch; a dead worker (signal / sanitizer exit code) is attributed through its progress file and the culprit is re-run
  alone in a fresh process.  Oracle: model, or NULL with a non-empty message; never a signal, a sanitizer report, an
  escaped C++ exception (std::terminate for a C client) or mju_error reaching the global handler (exit() for a C client).
Schema enforcement: from mjcf.schema (tree parser): for every constraint all presence subsets of its attributes; for
  every child cardinality 0 / 2 occurrences; every enum keyword + a non-keyword; right / wrong type and arity per
  attribute; unknown attribute; required attribute removed.  Oracle: violating documents are rejected, conforming ones
  are never rejected with a schema-type message.
"""
from __future__ import annotations

import json
import os
import re
import subprocess
import time

from .. import build, core, mj
from . import _c32_gen as G
from . import _c32_rt as R
from . import _c37_docs as D

LEVEL = "fault_enumeration"
META = dict(
    category=LEVEL,
    technique="exhaustive single-deviation enumeration (attribute x hostile value, element delete/duplicate/re-parent/rename, "
              "truncation at every byte; pairs on a small corpus) over a schema-derived minimal corpus, ASan/UBSan build; "
              "schema-derived conforming/violating documents with expected verdicts",
    text="Every schema edge gets a minimal valid document; every single deviation of it is loaded by the tree's reader and "
         "compiler inside an ASan/UBSan build with crash attribution by re-running singly. Every presence constraint, "
         "cardinality, enum keyword and attribute type of mjcf.schema is turned into conforming and violating documents "
         "whose accept/reject verdict is compared with the schema.",
    note="XML well-formedness decisions are expat's (tinyxml2 is an expat-backed shim): byte-level malformed-XML behaviour "
         "of production builds is outside what is decided here. Documents asking for unbounded resources (INT_MAX counts) "
         "that run out of time / memory are counted as resource exhaustion, not decided.",
    design_ref="DESIGN.md §3 C37")

CPU_LIMIT = 25.0        # CPU-seconds one document may use before it is declared a hang (quick: 8; normal documents: milliseconds)


def asan_env():
    rt = subprocess.run(["clang", "-print-file-name=libclang_rt.asan-x86_64.so"], capture_output=True, text=True).stdout.strip()
    return dict(os.environ, LD_PRELOAD=rt,
                # no rss-limit option: it starts a sanitizer background thread, and a fork()ed child of a multi-threaded
                # server can spin forever on a lock owned by a thread that does not exist in the child
                ASAN_OPTIONS="detect_leaks=0:abort_on_error=0:exitcode=99:allocator_may_return_null=1:max_allocation_size_mb=3000:"
                             "detect_stack_use_after_return=0:handle_segv=1",
                UBSAN_OPTIONS="halt_on_error=1:exitcode=98:print_stacktrace=1", PYTHONHASHSEED="0",
                OPENBLAS_NUM_THREADS="1", OMP_NUM_THREADS="1", MKL_NUM_THREADS="1")


def cpu_seconds(pid):
    try:
        with open("/proc/%d/stat" % pid) as fh:
            f = fh.read().rsplit(")", 1)[1].split()
        return (int(f[11]) + int(f[12])) / os.sysconf("SC_CLK_TCK")
    except (OSError, IndexError, ValueError):
        return None


def rss_mb(pid):
    try:
        with open("/proc/%d/statm" % pid) as fh:
            return int(fh.read().split()[1]) * os.sysconf("SC_PAGE_SIZE") / 1e6
    except (OSError, IndexError, ValueError):
        return 0.0


RSS_LIMIT_MB = 5000.0
CPU_LIMIT_CONFIRM = 40.0     # a hang is only reported if the document, alone in a fresh process, burns this much CPU (or the RSS limit)


def report_key(stderr):
    """Canonical identification of a sanitizer report: error kind + first frames inside the tree."""
    kind = "signal"
    m = re.search(r"ERROR: AddressSanitizer: ([\w-]+)", stderr)
    if m:
        kind = "asan " + m.group(1)
    else:
        m = re.search(r"runtime error: ([^\n]{0,80})", stderr)
        if m:
            kind = "ubsan " + re.sub(r"0x[0-9a-f]+|\d+", "N", m.group(1))
        elif "hard rss limit" in stderr or "rss limit" in stderr:
            kind = "rss-limit"
        elif "terminate called" in stderr:
            kind = "terminate"
    frames = []
    for m in re.finditer(r"#\d+ 0x[0-9a-f]+ in ([^\s(]+)[^\n]*?(/repo|/tmp/wt[^/]*)?/(src|plugin)/([\w/.]+):(\d+)", stderr):
        fn = m.group(1)
        frames.append("%s@%s" % (fn, os.path.basename(m.group(4))))
        if len(frames) >= 2:
            break
    return kind + (" in " + " <- ".join(frames) if frames else "")


class Server:
    """One fork server (worker process with the library loaded)."""

    def __init__(self, variant, env, tmp, k):
        self.base = os.path.join(tmp, "s%d_%d" % (os.getpid(), k))
        self.p = subprocess.Popen(["/venv/bin/python", "-m", "mc.checks._c37_worker", variant], env=env, cwd=core.VERIF,
                                  stdin=subprocess.PIPE, stdout=subprocess.PIPE, stderr=open(self.base + ".boot", "w"), text=True, bufsize=1)
        self.job = None
        self.ready = False
        self.n = 0
        os.set_blocking(self.p.stdout.fileno(), False)
        self.buf = ""

    def lines(self):
        try:
            d = self.p.stdout.read()
        except (BlockingIOError, TypeError):
            d = None
        if d:
            self.buf += d
        out = []
        while "\n" in self.buf:
            l, self.buf = self.buf.split("\n", 1)
            out.append(l)
        return out

    def start(self, docs):
        self.n += 1
        b = "%s_%d" % (self.base, self.n)
        with open(b + ".in", "w") as fh:
            for i, x in docs:
                fh.write(json.dumps({"i": i, "x": x}) + "\n")
        with open(b + ".prog", "w") as fh:
            fh.write("%-12d" % -2)
        self.job = dict(b=b, docs=docs, pid=None, cur=None, cpu0=None, status=None)
        self.p.stdin.write("RUN %s.in %s.out %s.prog %s.err\n" % (b, b, b, b))
        self.p.stdin.flush()

    def quit(self):
        try:
            self.p.stdin.write("QUIT\n")
            self.p.stdin.flush()
            self.p.wait(timeout=10)
        except Exception:
            self.p.kill()


class Runner:
    """Feeds documents to fork servers; a crashing document costs one fork.  Returns ({id: (outcome, msg)}, {id: crash})."""

    def __init__(self, variant, nproc, tmp, cpu_limit):
        self.variant = variant
        self.nproc = nproc
        self.tmp = tmp
        self.cpu_limit = cpu_limit
        self.env = asan_env() if variant == "asan" else dict(os.environ)
        self.env["C37_ASAN_LIB"] = os.environ.get("C37_ASAN_LIB", "")
        self.nspawn = 0
        self.servers = [Server(variant, self.env, tmp, k) for k in range(nproc)]
        t0 = time.time()
        while not all(s.ready for s in self.servers):
            for s in self.servers:
                if not s.ready:
                    if any(l == "READY" for l in s.lines()):
                        s.ready = True
                    elif s.p.poll() is not None:
                        raise RuntimeError("C37 worker could not start: " + open(s.base + ".boot").read()[-800:])
            time.sleep(0.1)
            if time.time() - t0 > 1800:
                raise RuntimeError("C37 workers did not become ready")

    def close(self):
        for s in self.servers:
            s.quit()

    @staticmethod
    def _collect(job, results):
        done = set()
        try:
            with open(job["b"] + ".out") as fh:
                for line in fh:
                    try:
                        d = json.loads(line)
                    except ValueError:
                        continue
                    results[d["i"]] = (d["o"], d["m"])
                    done.add(d["i"])
        except OSError:
            pass
        return done

    def run(self, docs, group=None, max_crashes_per_group=6):
        """group: {id: base document name}.  After max_crashes_per_group confirmed crashes of one base document its
        remaining deviations are not evaluated (returned in self.skipped): such a base crashes on nearly any variation
        and every crash costs two forks."""
        results, crashes = {}, {}
        self.skipped = []
        gcount = {}
        group = group or {}
        t_last = time.time()
        if not docs:
            return results, crashes
        per = max(1, min(2000, -(-len(docs) // (self.nproc * 3))))
        queue = [("batch", docs[k:k + per]) for k in range(0, len(docs), per)]
        pending_confirm = {}
        busy = 0
        while queue or any(s.job for s in self.servers):
            if time.time() - t_last > 60:
                t_last = time.time()
                import sys
                sys.stderr.write("C37: %d results, %d crashes, %d queued batches, %d skipped\n" % (len(results), len(crashes), len(queue), len(self.skipped)))
            for s in self.servers:
                if s.job is None and queue:
                    kind, d = queue.pop(0)
                    keep = [x for x in d if gcount.get(group.get(x[0]), 0) < max_crashes_per_group or kind == "single"]
                    self.skipped += [x[0] for x in d if x not in keep]
                    d = keep
                    if not d:
                        continue
                    s.start(d)
                    s.job["kind"] = kind
                    self.nspawn += 1
            time.sleep(0.02)
            for s in self.servers:
                job = s.job
                if job is None:
                    continue
                for l in s.lines():
                    if l.startswith("PID "):
                        job["pid"] = int(l.split()[1])
                    elif l.startswith("EXIT "):
                        job["status"] = int(l.split()[1])
                if s.p.poll() is not None:
                    raise RuntimeError("C37 fork server died: " + open(s.base + ".boot").read()[-800:])
                try:
                    cur = int(open(job["b"] + ".prog").read().strip() or -2)
                except (OSError, ValueError):
                    cur = -2
                hang = False
                if job["status"] is None:
                    if job["pid"]:
                        cpu = cpu_seconds(job["pid"])
                        if cur != job["cur"]:
                            job["cur"], job["cpu0"] = cur, cpu
                        elif cur >= 0 and ((cpu is not None and job["cpu0"] is not None and
                                            cpu - job["cpu0"] > (self.cpu_limit if job.get("kind") == "batch" else CPU_LIMIT_CONFIRM))
                                           or rss_mb(job["pid"]) > RSS_LIMIT_MB):
                            try:
                                os.kill(job["pid"], 9)
                            except OSError:
                                pass
                            job["hang"] = True
                    continue
                # child finished
                s.job = None
                done = self._collect(job, results)
                ids = [i for i, _ in job["docs"]]
                status = job["status"]
                if status == 0 and len(done) == len(ids):
                    self._cleanup(job)
                    continue
                try:
                    stderr = open(job["b"] + ".err", errors="replace").read()[-20000:]
                except OSError:
                    stderr = ""
                rc = "hang" if job.get("hang") else (("signal %d" % (status & 0x7f)) if status & 0x7f else "exit %d" % (status >> 8))
                culprit = cur if cur in ids and cur not in done else None
                rest = [d for d in job["docs"] if d[0] not in done and d[0] != culprit]
                if culprit is None:
                    if len(rest) == len(job["docs"]):
                        raise RuntimeError("C37 batch made no progress (%s): %s" % (rc, stderr[-600:]))
                elif job["kind"] == "batch" and len(ids) > 1:
                    pending_confirm[culprit] = dict(rc=rc, stderr=stderr)
                    queue.insert(0, ("single", [(culprit, dict(job["docs"])[culprit])]))
                else:
                    first = pending_confirm.pop(culprit, None)
                    crashes[culprit] = dict(rc=rc, stderr=stderr, confirmed_single=True)
                    g = group.get(culprit)
                    gcount[g] = gcount.get(g, 0) + 1
                if rest:
                    queue.insert(0, ("batch", rest))
                self._cleanup(job)
        # crashes seen in a batch that did not reproduce alone
        for c, info in pending_confirm.items():
            if c not in crashes:
                crashes[c] = dict(info, confirmed_single=False, single_outcome=results.get(c))
        return results, crashes

    @staticmethod
    def _cleanup(job):
        for ext in (".in", ".out", ".prog", ".err"):
            try:
                os.unlink(job["b"] + ext)
            except OSError:
                pass


# ------------------------------------------------------------------ corpus (built with the rel library, in parallel)


def _corpus_init():
    lib = mj.load()
    return lib, G.make_vfs(lib)


def _corpus_item(state, part, edge):
    lib, vfs = state
    it = D.corpus_item(lib, vfs, edge)
    if it is not None:
        part["extra"].setdefault("corpus", []).append(it)
    else:
        part["extra"].setdefault("nocorpus", []).append("%s/%s[%s]" % edge)


def build_corpus(ctx):
    """Cached under .cache/c37 keyed by the rel library build (content-addressed: any change of the tree changes it),
    the schema text and the generator sources."""
    import hashlib
    h = hashlib.sha1()
    h.update(build.ensure("rel").encode())
    for f in (os.path.join(build.REPO, "src", "xml", "mjcf.schema"), G.__file__, D.__file__):
        h.update(open(f, "rb").read())
    cdir = os.path.join(build.CACHE, "c37")
    os.makedirs(cdir, exist_ok=True)
    cfile = os.path.join(cdir, "corpus_%s.json" % h.hexdigest()[:16])
    if os.path.exists(cfile):
        try:
            with open(cfile) as fh:
                d = json.load(fh)
            return d["corpus"], d["nocorpus"]
        except (ValueError, KeyError):
            pass
    corpus, nocorpus = _build_corpus(ctx)
    tmpf = cfile + ".%d.tmp" % os.getpid()
    with open(tmpf, "w") as fh:
        json.dump({"corpus": corpus, "nocorpus": nocorpus}, fh)
    os.replace(tmpf, cfile)
    return corpus, nocorpus


def _build_corpus(ctx):
    seen = set()
    edges = []
    for parent, child, card, cx in G.edges():
        if (parent, child, cx) in seen:
            continue
        seen.add((parent, child, cx))
        edges.append((parent, child, cx))
    sub = core.Ctx(ctx.pid, ctx.tier, ctx.seed, ctx.level)
    R.rpmap(sub, _corpus_item, edges, init=_corpus_init)
    corpus = sorted(sub.extra.get("corpus", []), key=lambda d: d["name"])
    cards = {(p, c, x): card for p, c, card, x in G.edges()}
    for it in corpus:
        it["card"] = cards[(it["parent"], it["child"], it["ctx"])]
    return corpus, sorted(sub.extra.get("nocorpus", []))


# ------------------------------------------------------------------ run


def run(ctx):
    mj.load()
    os.environ["C37_ASAN_LIB"] = D.ensure_asan_lib()
    S, sc = G.schema()
    tmp = R.tmpdir()
    corpus, nocorpus = build_corpus(ctx)
    all_tags = sorted({sc.elements[e].xml_name() for e in sc.elements} | {"include", "robot", "link"})
    hostile = [k for k, _ in D.HOSTILE] if ctx.thorough else D.HOSTILE_QUICK
    docs = []          # (text)
    meta = []          # dict(kind, desc, base, hk, expect)

    def add(kind, desc, base, hk, xml, expect=None):
        docs.append(xml)
        meta.append((kind, desc, base, hk, expect))

    ntrunc_docs = 0
    nsub = 0
    for ci, it in enumerate(corpus):
        base = G.parse(it["xml"])
        child = it["child"]
        # quick: deviations on every 4th corpus document, thorough: on every 2nd (C37_ALL_DOCS=1: all); schema documents on all
        deviate = (ci % 2 == 0 or bool(os.environ.get("C37_ALL_DOCS"))) if ctx.thorough else ci % 4 == 0
        nsub += deviate
        sattrs = [a.name for a in (G.projected_attrs(child) if it["ctx"] == "default" else G.attrs_of(child))]
        add("valid", "corpus", it["name"], None, it["xml"], "accept")
        # thorough: every corpus document and the full hostile-value list on the target element; deviating every attribute of EVERY
        # node of every document (C37_ALL_NODES=1, ~5e5 documents) is not part of the registered tier
        all_nodes = bool(ctx.thorough and os.environ.get("C37_ALL_NODES"))
        for kind, desc, hk, xml in (D.attr_deviations(base, it["path"], sattrs, hostile, all_nodes=all_nodes) if deviate else ()):
            add(kind, desc, it["name"], hk, xml)
        tgt = D.node_at(base, it["path"])
        # renames: the target element to every schema tag (thorough) / to the tags of its document and the structural ones (quick);
        # every node of the document to every tag would be 1.8e5 documents and is not run (C37_RENAME_ALL=1 enables it)
        if ctx.thorough and os.environ.get("C37_RENAME_ALL"):
            rn = all_tags
        else:
            rn = sorted({n.tag for n in base.nodes()} | {"body", "geom", "default", "plugin", "frame", "include"})
        only_target = not (ctx.thorough and os.environ.get("C37_RENAME_ALL"))
        for kind, desc, hk, xml in (D.elem_deviations(base, it["path"], rn, reparent=True, only=it["path"] if only_target else None) if deviate else ()):
            add(kind, desc, it["name"], hk, xml)
        if len(it["xml"]) <= 2048 and ci % 12 == 0:
            ntrunc_docs += 1
            for kind, desc, hk, xml in D.truncations(it["xml"]):
                add(kind, desc, it["name"], hk, xml)
        # schema enforcement
        for desc, xml, exp in D.constraint_docs(it):
            add("schema-constraint", desc, it["name"], None, xml, exp)
        for desc, xml, exp in D.cardinality_docs(it, it["card"]):
            add("schema-cardinality", desc, it["name"], None, xml, exp)
        for desc, xml, exp in D.typed_docs(it):
            add("schema-type", desc, it["name"], None, xml, exp)
    # shipped small MJCF and URDF
    urdf = D.urdf_corpus()
    extra = [("urdf %d" % i, t) for i, t in enumerate(urdf if ctx.thorough else urdf[:3])] + D.shipped_small(2000, ctx.q(4, 12))
    for name, text in extra:
        add("valid", "shipped", name, None, text, None)
        try:
            base = G.parse(text)
        except Exception:
            continue
        attrs_here = []
        for kind, desc, hk, xml in D.attr_deviations(base, [], attrs_here, hostile if ctx.thorough else hostile[:3], all_nodes=True):
            add(kind, desc, name, hk, xml)
        for kind, desc, hk, xml in D.elem_deviations(base, [], sorted({n.tag for n in base.nodes()} | {"mujoco", "robot", "body", "geom"}),
                                                    reparent=len(base.nodes()) <= 12):
            add(kind, desc, name, hk, xml)
        if len(text) <= 2048:
            ntrunc_docs += 1
            for kind, desc, hk, xml in D.truncations(text):
                add(kind, desc, name, hk, xml)
    # pairs of attribute deviations on a 10-document corpus (thorough)
    if ctx.thorough:
        pick = [it for it in corpus if it["child"] in ("geom", "joint", "numeric", "hfield", "texture", "mesh", "key", "general", "flexcomp", "composite")
                and it["parent"] in ("body", "asset", "custom", "keyframe", "actuator")][:int(os.environ.get("C37_PAIR_DOCS", "1"))]
        hv = [(k, v) for k, v in D.HOSTILE if k in (("empty", "nan", "-1", "x", "intmax", "501numbers", "20numbers", "0")
                                                    if os.environ.get("C37_PAIR_DOCS") else ("empty", "nan", "-1", "intmax"))]
        for it in pick:
            base = G.parse(it["xml"])
            names = [a.name for a in G.attrs_of(it["child"])]
            for a, b in itertools_combinations(names):
                for (ka, va), (kb, vb) in ((x, y) for x in hv for y in hv):
                    d = base.clone()
                    t = D.node_at(d, it["path"])
                    t.set(a, va)
                    t.set(b, vb)
                    add("attr-pair", "%s=%s,%s=%s" % (a, ka, b, kb), it["name"], ka if ka in D.HUGE else (kb if kb in D.HUGE else None), d.xml())
    # de-duplicate identical texts (keep first meta)
    index = {}
    uniq = []
    also = {}          # first id -> other ids with the same text (their expectations are judged too)
    for k, x in enumerate(docs):
        if x not in index:
            index[x] = k
            uniq.append((k, x))
        else:
            also.setdefault(index[x], []).append(k)
    import collections
    import sys
    sys.stderr.write("C37: generated %d documents (%d distinct) by kind %s\n" % (
        len(docs), len(uniq), dict(collections.Counter(meta[k][0] for k, _ in uniq))))
    only = os.environ.get("C37_ONLY")            # debugging aid: restrict to document kinds with this prefix
    if only:
        uniq = [(k, x) for k, x in uniq if any(meta[kk][0].startswith(only) for kk in [k] + also.get(k, []))]
        ctx.exhaustive = False
    onlybase = os.environ.get("C37_BASE")        # debugging aid: restrict to corpus documents whose name contains this
    if onlybase:
        uniq = [(k, x) for k, x in uniq if onlybase in meta[k][2]]
        ctx.exhaustive = False
    bykind = collections.Counter(meta[k][0] for k, _ in uniq)
    ctx.extra["documents_by_kind"] = dict(bykind)
    sys.stderr.write("C37: %d distinct documents: %s\n" % (len(uniq), dict(bykind)))
    r = ctx.seed % max(1, len(uniq))
    order = uniq[r:] + uniq[:r]
    runner = Runner(os.environ.get("C37_VARIANT", "asan"), min(core.NCPU, 16), tmp, ctx.q(5.0, CPU_LIMIT))
    try:
        results, crashes = runner.run(order, group={k: meta[k][2] for k, _ in uniq})
    finally:
        runner.close()
    # hangs are only believed if the document also exhausts the CPU / RSS limit in the plain (rel) build: a stall inside the
    # sanitizer runtime (seen: spinning in its allocator when the compiler's error handler unwinds an engine error) is not
    # a property of the tree
    hang_ids = [k for k, c in crashes.items() if c["rc"] == "hang" and c.get("confirmed_single")]
    rel_hang = set()
    if hang_ids and runner.variant != "rel":
        xmls = dict(uniq)
        rr = Runner("rel", min(4, core.NCPU), tmp, CPU_LIMIT)
        try:
            _, rc2 = rr.run([(k, xmls[k]) for k in hang_ids])
        finally:
            rr.close()
        rel_hang = {k for k, c in rc2.items() if c.get("confirmed_single")}
        for k in hang_ids:
            if k not in rel_hang:
                ctx.extra["sanitizer_only_stalls"] = ctx.extra.get("sanitizer_only_stalls", 0) + 1
                crashes[k]["asan_only"] = True
    # ---------------------------------------------------------- judge
    skipped = set(runner.skipped)
    if skipped:
        ctx.exhaustive = False
    ctx.extra["documents_skipped_after_repeated_crashes_of_their_base"] = len(skipped)
    outcomes = {}
    nschema = 0
    for k, x in uniq:
        kind, desc, base, hk, expect = meta[k]
        ident = "%s | %s %s" % (base, kind, desc)
        if k in crashes and not crashes[k].get("confirmed_single") and k in results:
            # a worker death that did not reproduce when the document was run alone: harness event, counted
            ctx.extra["unreproduced_worker_deaths"] = ctx.extra.get("unreproduced_worker_deaths", 0) + 1
            del crashes[k]
        if k in crashes and crashes[k].get("asan_only"):
            ctx.count(1)
            continue
        if k in crashes:
            c = crashes[k]
            rc = c["rc"]
            key = report_key(c.get("stderr", ""))
            if rc == "hang" or key.startswith("rss-limit"):
                if hk in D.HUGE:
                    ctx.extra["resource_exhaustion_on_huge_values"] = ctx.extra.get("resource_exhaustion_on_huge_values", 0) + 1
                    ctx.count(1)
                    continue
                key = "hang / unbounded memory (CPU or RSS limit exceeded) on " + hang_desc(kind, desc, base)
            ctx.count(1, key=("crash", key))
            ctx.violation("crash: " + key, "%s: worker died (rc=%s, reproduced alone=%s): %s" % (ident, rc, c.get("confirmed_single"), key),
                          {"xml": x, "rc": str(rc), "stderr_tail": c.get("stderr", "")[-3000:]})
            continue
        if k in skipped:
            continue
        if k not in results:
            raise RuntimeError("no result for document %d (%s)" % (k, ident))
        o, m = results[k]
        outcomes[o] = outcomes.get(o, 0) + 1
        nontriv = o in ("cerror", "perror") and kind != "truncate"
        ctx.count(1, key=(kind, base, desc) if nontriv else None,
                  sample={"kind": kind, "deviation": desc, "base": base, "outcome": o, "message": m[:120], "xml": x[:600]} if (k % 9973 == 1) else None)
        if o in ("perror0", "cerror0"):
            ctx.violation("NULL without an error message: %s %s" % (kind, desc.split("=")[0]), "%s returned NULL with an empty message" % ident, {"xml": x})
        elif o == "mjuerror":
            ctx.violation("mju_error outside the compiler's handler (exit() for a C client): " + re.sub(r"'[^']*'|\d+", "N", m)[:120],
                          "%s: %s" % (ident, m), {"xml": x})
        elif o == "exception":
            ctx.violation("C++ exception escapes the C API (std::terminate for a C client): " + m[:100], "%s: %s" % (ident, m), {"xml": x})
        for kk in [k] + also.get(k, []):
          kind, desc, base, hk, expect = meta[kk]
          ident = "%s | %s %s" % (base, kind, desc)
          if expect is not None:
            nschema += 1
            rejected = o in ("perror", "cerror", "perror0", "cerror0")
            el = base.split("/")[1].split("[")[0] if "/" in base else base
            par = base.split("/")[0]
            where = "[default]" if "[default]" in base else ""
            tested = tested_attr(desc)
            if expect == "accept" and o != "model":
                ctx.violation("corpus document rejected: " + base, "%s: %s %s" % (ident, o, m), {"xml": x})
            elif expect == "reject" and o == "model":
                if par in ("frame", "replicate") or el in ("frame", "replicate"):
                    ctx.violation("schema violation accepted: nothing below <frame>/<replicate> is validated (mjXSchema::Check only recurses into <body>)",
                                  "%s: the document violates mjcf.schema but a model was returned" % ident, {"xml": x})
                else:
                    ctx.violation("schema violation accepted: %s%s %s" % (el, where, key_desc(desc)),
                                  "%s: the document violates mjcf.schema but a model was returned" % ident, {"xml": x})
            elif expect == "noschema" and rejected and D.SCHEMA_MSG.search(m) and (
                    tested is None or "Schema violation" in m or ("'%s'" % tested) in m or "keyword" in m):
                # (a format / arity message about *another* attribute is a semantic dependency, e.g. numeric size vs data)
                ctx.violation("conforming document rejected for a schema reason: %s%s %s: %s" % (el, where, key_desc(desc), norm(m)),
                              "%s: conforms to mjcf.schema but was rejected with: %s" % (ident, m), {"xml": x})
    ctx.extra["violation_keys"] = sorted(v[0] for v in ctx.violations)
    ctx.extra["findings"] = [{"key": v[0], "what": v[1][:300], "xml": (v[2] or {}).get("xml", "")[:1500]} for v in ctx.violations]
    ctx.extra["corpus_documents_with_deviations"] = nsub
    ctx.extra.update(corpus_documents=len(corpus), edges_without_corpus=nocorpus, documents_generated=len(docs), documents_distinct=len(uniq),
                     outcomes=outcomes, schema_expectation_documents=nschema, truncated_corpus_documents=ntrunc_docs,
                     worker_processes=runner.nspawn, crashing_documents=len(crashes), hostile_values=hostile)
    ctx.rule = ("corpus: one greedily minimised valid document per schema edge (%d) + shipped small MJCF + URDF literals; every single "
                "deviation: target element x every schema attribute x hostile values %s (thorough: also every present attribute of every "
                "element), delete/duplicate of every attribute, delete/duplicate/re-parent(under every other element)/rename of every "
                "element, truncation at every byte (quick: every 6th corpus document + shipped), schema-derived documents (all presence "
                "subsets per constraint, cardinality 0/2, every enum keyword + non-keyword, right/wrong type and arity, unknown attribute); "
                "thorough: deviations on every 2nd corpus document with the full hostile list, all pairs of attribute deviations on 1 document x 4 values, truncation at every byte of every 12th corpus document and 12 shipped files. non-trivial = distinct document that the reader/compiler "
                "rejects with a message after getting past XML well-formedness" % (len(corpus), hostile))
    ctx.assumptions = ["ASan+UBSan build of the tree (mjUSEASAN arena poisoning active); one process per batch, culprit confirmed alone",
                       "XML well-formedness is expat's (shim); truncation documents mostly exercise that layer",
                       "documents that ask for unbounded resources through INT_MAX-like values and run out of CPU (%.0f s) or memory are "
                       "counted (resource_exhaustion_on_huge_values), not decided" % ctx.q(5.0, CPU_LIMIT)]
    if not ctx.thorough:
        ctx.exhaustive = False


def hang_desc(kind, desc, base):
    """Root-cause oriented name of a hanging document: the element of the corpus document + the deviating attribute."""
    el = base.split("/")[1].split("[")[0] if "/" in base else base
    return "%s %s (%s)" % (el, re.sub(r"=\w+$", "", desc), kind)


def itertools_combinations(names):
    import itertools
    return itertools.combinations(names, 2)


def tested_attr(desc):
    """attribute under test of a schema-type document description (None for constraint / cardinality documents)."""
    m = re.match(r"(?:enum|flags|bool|int|double|float|chars)(?:\[[^\]]*\])? (\w+)", desc)
    return m.group(1) if m else None


def key_desc(desc):
    """description without the concrete value: one key per (attribute, kind of test)."""
    a = tested_attr(desc)
    if a is None:
        return re.sub(r" present=\[.*\]$", "", desc)[:110]
    kind = desc.split()[0].split("[")[0]
    tail = "keyword" if kind in ("enum", "flags", "bool") else desc.split(a, 1)[1].strip(" =")
    if kind in ("enum", "flags", "bool") and "notakeyword" in desc:
        tail = "non-keyword"
    return "%s %s (%s)" % (kind, a, tail)


def schema_desc(desc):
    return re.sub(r"present=\[.*\]$", lambda m: m.group(0), desc)[:110]


def norm(m):
    m = re.sub(r"line \d+", "line N", m)
    m = re.sub(r"'[^']*'", "'X'", m)
    return " | ".join(x.strip() for x in m.strip().splitlines())[:120]
