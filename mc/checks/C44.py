"""C44 MJX batching, compilation and data transfer are transparent.

Five exhaustive sub-enumerations over the C43 alphabet (all on the TREE's MJX):
  transform : f in {kinematics, com_pos, forward, step, ...}: jit(f), vmap(f), jit(vmap(f)) == eager per-sample f
  transfer  : get_data(put_data(d)) == d and get_data_into, per field both sides define, per lattice state
  state     : state_size / get_state / set_state for EVERY signature 0..2^14-1, against the tree C library's
              mj_stateSize / mj_getState / mj_setState on the same content
  makedata  : make_data(m) == put_data(m, fresh MjData), leaf by leaf (structure, shape, dtype, value)
  pytree    : flatten/unflatten, replace, tree_replace, tree_map round trips of Model and Data
  rebind    : ONE jitted function that takes the Model as an ARGUMENT, called with a sequence of sibling models that differ
              in one static (numpy, pytree-metadata) field: (a) the projection onto the static fields, for EVERY static
              field of the model x a perturbation lattice {first element + 0.375 | +1 | flipped, last element changed by
              2^-30 relative | +1 | flipped, two unequal elements swapped}; (b) forward / step, for MJCF siblings that differ
              in one attribute stored in a static float field (sensor cutoff, fixed-tendon coefficient).  Oracle: the
              sibling's own numpy values (a) / a freshly created jit (empty cache) called with that sibling only (b).
"""
from __future__ import annotations

import os

import numpy as np

from .. import core, mj
from . import _c43_gen as G
from . import _c43_mjx as H

LEVEL = "exploration"
META = dict(
    category=LEVEL,
    technique="bounded exhaustive enumeration: models x functions x lattice states (jit/vmap vs eager), all 2^14 state "
              "signatures (vs the tree C state API), per-field transfer round trips, every static model field x perturbation "
              "lattice through one reused jitted function; differential / round-trip oracles",
    text="jit(f), vmap(f) and jit(vmap(f)) of the MJX pipeline functions are compared leaf by leaf with eager per-sample "
         "evaluation on every state of the lattice; put_data/get_data/get_data_into round trips are compared field by field; "
         "state_size/get_state/set_state are run for every one of the 16384 signatures and cross-checked with the tree-built "
         "C library's mj_stateSize/mj_getState/mj_setState on identical content; make_data is compared with put_data of a "
         "fresh MjData leaf by leaf; Model/Data pytrees are round-tripped through flatten/unflatten/replace/tree_replace; one jitted "
         "function that receives the Model as an argument is reused over sequences of sibling models that differ in a single static "
         "(pytree-metadata) field and must return each sibling's own result (stale jit-cache entries).",
    note="MJX runs on the PyPI binding; MjData used as the transfer source is produced by the binding's C library (it is "
         "only a data container here, the property is a round trip). Eager evaluation is slow (op-by-op dispatch), so the "
         "eager baseline covers every function on a sub-lattice and jit-per-sample (itself checked against eager) covers the "
         "whole lattice. Equality is required up to 1e-12+1e-9*scale (XLA fusion may reorder floating-point sums).",
    design_ref="DESIGN.md §3 C44")

RTOL, ATOL = 1e-9, 1e-12
RTOL_SOLVE, ATOL_SOLVE = 1e-6, 1e-7      # leaves downstream of the (Newton, tolerance 1e-14) constraint solve
NSTATE = 14


def nerr(a, b, rtol=RTOL, atol=ATOL):
    a = np.asarray(a)
    b = np.asarray(b)
    if a.shape != b.shape:
        return float("inf")
    if a.size == 0:
        return 0.0
    if a.dtype == bool or b.dtype == bool or np.issubdtype(a.dtype, np.integer):
        return 0.0 if np.array_equal(a, b) else float("inf")
    a = a.astype(float).reshape(-1)
    b = b.astype(float).reshape(-1)
    if not np.array_equal(np.isnan(a), np.isnan(b)):
        return float("inf")
    m = ~np.isnan(a)
    if not m.any():
        return 0.0
    a, b = a[m], b[m]
    if not (np.all(np.isfinite(a)) and np.all(np.isfinite(b))):
        return 0.0 if np.array_equal(a, b) else float("inf")
    scale = max(np.max(np.abs(a)), np.max(np.abs(b)))
    return float(np.max(np.abs(a - b)) / (atol + rtol * scale))


def exact(a, b):
    a, b = np.asarray(a), np.asarray(b)
    if a.shape != b.shape:
        return False
    if a.dtype.kind == "f" or b.dtype.kind == "f":
        return bool(np.array_equal(a, b, equal_nan=True))
    return bool(np.array_equal(a, b))


def leaves_with_names(J, tree):
    out = []
    for path, leaf in J.jax.tree_util.tree_flatten_with_path(tree)[0]:
        out.append((J.jax.tree_util.keystr(path), leaf))
    return out


# ------------------------------------------------------------------------------------------------ transform

def fn_table(J):
    mjx, fwd, smooth = J.mjx, J.fwd, J.smooth

    def chain_pos(m, d):
        return smooth.com_pos(m, smooth.kinematics(m, d))

    def chain_crb(m, d):
        d = smooth.com_pos(m, smooth.kinematics(m, d))
        d = smooth.camlight(m, d)
        d = smooth.tendon(m, d)
        return smooth.factor_m(m, smooth.tendon_armature(m, smooth.crb(m, d)))

    return {"kinematics": smooth.kinematics, "com_pos": chain_pos, "crb_factor": chain_crb,
            "fwd_position": fwd.fwd_position, "forward": fwd.forward, "step": fwd.step,
            "step2": lambda m, d: fwd.step(m, fwd.step(m, d))}


def check_transform(J, lib, part, item):
    jax = J.jax
    mw = J.mujoco.MjModel.from_xml_string(item["xml"])
    mt = lib.load_xml(item["xml"])
    try:
        mx = J.mjx.put_model(mw)
        dx0 = J.mjx.make_data(mw)
    except NotImplementedError:
        part.add("rejected_not_implemented")
        mt.free()
        return
    states = H.states_for(mt, item["kind"], item["nstate"])
    S = H.batch_states(J, states)
    f = fn_table(J)[item["fn"]]

    def g(s):
        return f(mx, H.apply_state(dx0, s))
    n = len(states)
    full = item.get("mode", "full") == "full"          # "full": + un-jitted vmap; "eager": eager baseline without it; "jit": jit only
    with_eager = item.get("mode", "full") in ("full", "eager")
    res = {}
    if full:
        res["vmap"] = jax.vmap(g)(S)
    res["jit_vmap"] = jax.jit(jax.vmap(g))(S)
    jg = jax.jit(g)
    per = [jg({k: v[i] for k, v in S.items()}) for i in range(n)]
    eager_idx = list(range(min(item["neager"], n))) if with_eager else []
    eager = {i: g({k: v[i] for k, v in S.items()}) for i in eager_idx}
    stats = part.setdefault("stats", {})
    fam = item["name"].split("#")[0]
    constrained = int(np.asarray(dx0._impl.efc_type).size) > 0
    # leaves downstream of the iterative constraint solver carry its stopping noise
    SOLVER_LEAVES = {"qacc", "efc_force", "qfrc_constraint", "cacc", "cfrc_int", "cfrc_ext", "sensordata"}
    if item["fn"] in ("step", "step2"):
        SOLVER_LEAVES |= {"qvel", "qpos", "qacc_warmstart"}

    def cmp(tag, a_tree, b_tree, i):
        la, lb = leaves_with_names(J, a_tree), leaves_with_names(J, b_tree)
        if [n_ for n_, _ in la] != [n_ for n_, _ in lb]:
            part.violation("%s changes the pytree structure of %s" % (tag, item["fn"]),
                           "structure differs for model %s" % item["name"], {"xml": item["xml"], "fn": item["fn"]})
            return
        for (name, a), (_, b) in zip(la, lb):
            last = name.replace("'", "").replace("]", "").replace("[", ".").split(".")[-1]
            loose = constrained and item["fn"] in ("forward", "step", "step2") and (item["fn"] == "step2" or last in SOLVER_LEAVES)
            e = nerr(a, b, RTOL_SOLVE, ATOL_SOLVE) if loose else nerr(a, b)
            k = tag + ":" + item["fn"] + (":solver" if loose else "")
            stats[k] = max(stats.get(k, 0.0), e if np.isfinite(e) else 1e300)
            if e > 1:
                part.violation("%s(%s) != per-sample eager: leaf %s @ %s" % (tag.split("/")[0], item["fn"], name, fam),
                               "%s vs %s of %s, leaf %s: normalised err %.3g (tol 1) model %s sample %d"
                               % (tag.split("/")[0], tag.split("/")[1], item["fn"], name, e, item["name"], i),
                               {"xml": item["xml"], "fn": item["fn"], "sample": i,
                                "state": {k_: np.asarray(v).tolist() for k_, v in states[i].items()}})
    take = lambda tree, i: jax.tree_util.tree_map(lambda x: x[i], tree)
    for i in range(n):
        nontrivial = (item["name"], item["fn"], i)
        part.count(1, key=nontrivial, sample={"model": item["name"], "fn": item["fn"], "sample": i, "eager": i in eager}
                   if i == 0 else None)
        if i in eager:
            cmp("jit/eager", per[i], eager[i], i)
            if full:
                cmp("vmap/eager", take(res["vmap"], i), eager[i], i)
            cmp("jit_vmap/eager", take(res["jit_vmap"], i), eager[i], i)
        else:
            if full:
                cmp("vmap/jit", take(res["vmap"], i), per[i], i)
            cmp("jit_vmap/jit", take(res["jit_vmap"], i), per[i], i)
    part.add("eager_samples", len(eager))
    mt.free()


# ------------------------------------------------------------------------------------------------ transfer

# fields whose MjData representation is legitimately not the put_data source (documented in io.py)
def check_transfer(J, lib, part, item):
    mujoco, mjx = J.mujoco, J.mjx
    mw = mujoco.MjModel.from_xml_string(item["xml"])
    mt = lib.load_xml(item["xml"])
    try:
        mjx.put_model(mw)
    except NotImplementedError:
        part.add("rejected_not_implemented")
        mt.free()
        return
    states = H.states_for(mt, item["kind"], item["nstate"])
    if mt.neq:
        # equalities switched off at run time: d.ne drops below the model's static count, so the row blocks of the source
        # MjData and of MJX's fixed layout no longer start at the same offsets (first equality off / all off)
        for which in ("first", "all"):
            st = {k_: np.array(v, copy=True) for k_, v in states[1 % len(states)].items()}
            e = np.array(st["eq_active"], copy=True)
            if which == "first":
                e[0] = 1 - e[0]
            else:
                e[:] = 0
            st["eq_active"] = e
            states.append(st)
    fam = item["name"].split("#")[0]
    names = [f.name for f in J.types.Data.fields() if f.name != "_impl"] + [f.name for f in J.types.DataJAX.fields()]
    names = [n for n in names if n in mujoco.MjData.__dict__ and n not in ("contact",)]
    dxs = []
    srcs = []
    for i, st in enumerate(states):
        d = mujoco.MjData(mw)
        d.qpos[:] = st["qpos"]
        d.qvel[:] = st["qvel"]
        if mw.nu:
            d.ctrl[:] = st["ctrl"]
        if mw.na:
            d.act[:] = st["act"]
        d.qfrc_applied[:] = st["qfrc_applied"]
        d.xfrc_applied[:] = st["xfrc_applied"]
        if mw.neq:
            d.eq_active[:] = st["eq_active"]
        if mw.nmocap:
            d.mocap_pos[:] = st["mocap_pos"]
            d.mocap_quat[:] = st["mocap_quat"]
        d.time = 0.25 * i
        if item.get("stepfirst"):
            mujoco.mj_step(mw, d)
        mujoco.mj_forward(mw, d)
        try:
            dx = mjx.put_data(mw, d)
        except ValueError as e:
            part.violation("put_data raises on a valid MjData @ %s" % fam, "put_data: %s (model %s state %d)" % (e, item["name"], i),
                           {"xml": item["xml"], "state_index": i})
            continue
        dxs.append(dx)
        srcs.append(d)
        for mode in ("get_data", "get_data_into"):
            if mode == "get_data":
                d2 = mjx.get_data(mw, dx)
            else:
                d2 = mujoco.MjData(mw)
                mjx.get_data_into(d2, mw, dx)
            part.count(1, key=(item["name"], i, mode), sample={"model": item["name"], "state": i, "mode": mode,
                                                                "ncon": int(d.ncon), "nefc": int(d.nefc)} if i == 1 else None)
            rp = {"xml": item["xml"], "state_index": i, "mode": mode,
                  "state": {k_: np.asarray(v).tolist() for k_, v in st.items()}}
            # contacts: same multiset of (geom pair, dist)
            ca = sorted((int(c.geom[0]), int(c.geom[1]), round(float(c.dist), 12)) for c in d2.contact)
            cb = sorted((int(c.geom[0]), int(c.geom[1]), round(float(c.dist), 12)) for c in d.contact)
            dropped = False
            if ca != cb:
                dropped = [c for c in cb if c[2] <= 0] == ca and any(c[2] > 0 for c in cb)
                key = ("get_data drops contacts with 0 < dist < margin (it keeps only dist <= 0)" if dropped
                       else "get_data(put_data(d)).contact != d.contact @ %s" % fam)
                part.violation(key, "%s: contacts after round trip %s != source %s (model %s state %d)"
                               % (mode, ca[:6], cb[:6], item["name"], i), dict(rp, field="contact"))
            for n_ in names:
                if dropped and (n_ in ("ncon", "nefc", "nJ", "nl", "nf", "ne") or n_.startswith("efc_")):
                    continue   # consequences of the dropped contacts (arrays are re-sized with them)
                a, b = np.asarray(getattr(d2, n_)), np.asarray(getattr(d, n_))
                if n_ == "solver_niter":
                    a, b = a.reshape(-1)[:1], b.reshape(-1)[:1]
                if n_ == "efc_J" and mujoco.mj_isSparse(mw):
                    def dn(dd):
                        out = np.zeros((dd.nefc, mw.nv))
                        if dd.nefc:
                            mujoco.mju_sparse2dense(out, dd.efc_J, dd.efc_J_rownnz, dd.efc_J_rowadr, dd.efc_J_colind)
                        return out
                    a, b = dn(d2), dn(d)
                if n_.startswith("efc_"):
                    a, b = a.reshape(-1), b.reshape(-1)
                e = nerr(a, b) if a.size == b.size else float("inf")
                if e > 1:
                    part.violation("get_data(put_data(d)).%s != d.%s" % (n_, n_),
                                   "%s round trip changes field %s (normalised err %.3g; sizes %d vs %d) model %s state %d"
                                   % (mode, n_, e, a.size, b.size, item["name"], i), dict(rp, field=n_))
    # batched get_data: list of MjData, element i == unbatched round trip
    if len(dxs) >= 2:
        try:
            batched = J.jax.tree_util.tree_map(lambda *x: J.jp.stack(x), *dxs)
            lst = mjx.get_data(mw, batched)
            for i, (d2, d) in enumerate(zip(lst, srcs)):
                for n_ in ("qpos", "qvel", "xpos", "qacc", "sensordata", "qfrc_bias"):
                    if nerr(getattr(d2, n_), getattr(d, n_)) > 1:
                        part.violation("batched get_data element != source: %s @ %s" % (n_, fam),
                                       "batched get_data element %d field %s differs (model %s)" % (i, n_, item["name"]),
                                       {"xml": item["xml"], "state_index": i})
            part.count(1, key=(item["name"], "batched"))
        except Exception as e:   # shapes of padded contact/efc arrays are static, stacking must work
            part.violation("batched get_data raises @ %s" % fam, "%s: %s" % (type(e).__name__, e), {"xml": item["xml"]})
    mt.free()


# ------------------------------------------------------------------------------------------------ state API

def check_state(J, lib, part, item):
    mujoco, mjx, jp = J.mujoco, J.mjx, J.jp
    mw = mujoco.MjModel.from_xml_string(item["xml"])
    mt = lib.load_xml(item["xml"])
    mx = mjx.put_model(mw)
    dx = mjx.make_data(mw)
    d = lib.make_data(mt)
    # identical sentinel content on both sides
    rng = {}

    def sent(name, shape, base):
        n = int(np.prod(shape)) if len(shape) else 1
        v = (base + 0.001 * np.arange(n)).reshape(shape) if len(shape) else np.float64(base)
        rng[name] = v
        return v
    vals = dict(time=sent("time", (), 0.125), qpos=sent("qpos", (mt.nq,), 1.0), qvel=sent("qvel", (mt.nv,), 2.0),
                act=sent("act", (mt.na,), 3.0), history=sent("history", (mt.nhistory,), 3.5),
                qacc_warmstart=sent("qacc_warmstart", (mt.nv,), 4.0),
                ctrl=sent("ctrl", (mt.nu,), 5.0), qfrc_applied=sent("qfrc_applied", (mt.nv,), 6.0),
                xfrc_applied=sent("xfrc_applied", (mt.nbody, 6), 7.0),
                mocap_pos=sent("mocap_pos", (mt.nmocap, 3), 8.0), mocap_quat=sent("mocap_quat", (mt.nmocap, 4), 9.0),
                userdata=sent("userdata", (mt.nuserdata,), 10.0), plugin_state=sent("plugin_state", (mt.npluginstate,), 11.0))
    eq = np.array([(i + 1) % 2 for i in range(mt.neq)], dtype=np.uint8)
    dx_jax = dx.replace(**{k: jp.asarray(v) for k, v in vals.items()}, eq_active=jp.asarray(eq.astype(bool)))
    for k, v in vals.items():
        if k == "time":
            d.time = float(v)
        elif np.asarray(v).size:
            getattr(d, k)[...] = v
    if mt.neq:
        d.eq_active[:] = eq
    full = (1 << NSTATE) - 1
    nfull = lib.mj_stateSize(mt, full)
    fam = item["name"].split("#")[0]
    lo = item["siglist"][0]
    d2 = lib.make_data(mt)
    dx, conv = dx_jax, jp.asarray
    for sig in item["siglist"]:
        n_c = lib.mj_stateSize(mt, sig)
        buf = np.zeros(n_c)
        lib.mj_getState(mt, d, buf, sig)
        nbits = bin(sig).count("1")
        part.count(1, key=(item["name"], sig) if nbits >= 2 else None,
                   sample={"model": item["name"], "sig": sig, "size": n_c} if sig == lo + 5 else None)
        rp = {"xml": item["xml"], "sig": sig}
        try:
            n_x = int(mjx.state_size(mx, sig))
            gx = np.asarray(mjx.get_state(mx, dx, sig))
        except Exception as e:
            part.violation("state API raises for a valid signature @ %s" % fam, "sig=%d: %s: %s" % (sig, type(e).__name__, e), rp)
            continue
        if n_x != n_c:
            part.violation("state_size != mj_stateSize", "sig=%d: mjx %d vs C %d (model %s)" % (sig, n_x, n_c, item["name"]), rp)
            continue
        if gx.shape != (n_c,) or not np.array_equal(gx.astype(float), buf):
            part.violation("get_state != mj_getState", "sig=%d: mjx %s vs C %s (model %s)" % (sig, gx[:8], buf[:8], item["name"]), rp)
            continue
        # set_state: write a shifted vector, then the FULL state must equal C's mj_setState result
        vec = buf + 100.0
        if sig & (1 << 9):   # eq_active slots carry 0/1
            off = 0
            for b in range(NSTATE):
                if sig & (1 << b):
                    sz = lib.mj_stateSize(mt, 1 << b)
                    if b == 9:
                        vec[off:off + sz] = 1.0 - buf[off:off + sz]
                    off += sz
        lib.mj_copyData(d2, mt, d)
        lib.mj_setState(mt, d2, vec, sig)
        after_c = np.zeros(nfull)
        lib.mj_getState(mt, d2, after_c, full)
        dx2 = mjx.set_state(mx, dx, conv(vec), sig)
        after_x = np.asarray(mjx.get_state(mx, dx2, full)).astype(float)
        if after_x.shape != after_c.shape or not np.array_equal(after_x, after_c):
            part.violation("set_state != mj_setState", "sig=%d: full state after set differs (model %s): first diff at %s"
                           % (sig, item["name"], np.nonzero(after_x != after_c)[0][:5] if after_x.shape == after_c.shape else "shape"), rp)
        back = np.asarray(mjx.get_state(mx, dx2, sig)).astype(float)
        if not np.array_equal(back, vec):
            part.violation("get_state(set_state(x)) != x", "sig=%d (model %s)" % (sig, item["name"]), rp)
    # invalid signatures are rejected, like the C API does
    for bad in (1 << NSTATE, (1 << NSTATE) + 3):
        try:
            mjx.get_state(mx, dx_jax, bad)
            part.violation("get_state accepts an invalid signature", "sig=%d accepted" % bad, {"sig": bad})
        except ValueError:
            pass
    d2.free()
    d.free()
    mt.free()


# ------------------------------------------------------------------------------------------------ make_data / pytree

def check_makedata(J, lib, part, item):
    mujoco, mjx, jax = J.mujoco, J.mjx, J.jax
    mw = mujoco.MjModel.from_xml_string(item["xml"])
    try:
        mx = mjx.put_model(mw)
        a = mjx.make_data(mw)
    except NotImplementedError:
        part.add("rejected_not_implemented")
        return
    fam = item["name"].split("#")[0]
    b = mjx.put_data(mw, mujoco.MjData(mw))
    c = mjx.make_data(mx)
    for tag, x, y in (("make_data(MjModel) vs put_data(fresh MjData)", a, b), ("make_data(mjx.Model) vs make_data(MjModel)", c, a)):
        la, lb = leaves_with_names(J, x), leaves_with_names(J, y)
        ta, tb = jax.tree_util.tree_structure(x), jax.tree_util.tree_structure(y)
        part.count(1, key=(item["name"], tag), sample={"model": item["name"], "cmp": tag, "leaves": len(la)})
        if [n for n, _ in la] != [n for n, _ in lb]:
            part.violation("%s: pytree leaf sets differ" % tag, "model %s: %s" % (item["name"], sorted(set(n for n, _ in la) ^ set(n for n, _ in lb))[:8]),
                           {"xml": item["xml"]})
            continue
        if ta != tb:
            part.violation("%s: pytree structure (static metadata) differs" % tag, "model %s" % item["name"], {"xml": item["xml"]})
        for (n, u), (_, v) in zip(la, lb):
            u, v = np.asarray(u), np.asarray(v)
            if u.shape != v.shape:
                part.violation("%s: leaf %s shape" % (tag, n), "%s vs %s (model %s)" % (u.shape, v.shape, item["name"]), {"xml": item["xml"]})
            elif u.dtype != v.dtype:
                part.violation("%s: leaf dtypes differ (%s vs %s)" % (tag, u.dtype, v.dtype),
                               "leaf %s: %s vs %s (model %s)" % (n, u.dtype, v.dtype, item["name"]), {"xml": item["xml"], "leaf": n})
            elif nerr(u, v) > 1:
                part.violation("%s: leaf %s value" % (tag, n), "%s vs %s (model %s)" % (u.reshape(-1)[:4], v.reshape(-1)[:4], item["name"]),
                               {"xml": item["xml"]})


def check_pytree(J, lib, part, item):
    mujoco, mjx, jax, jp = J.mujoco, J.mjx, J.jax, J.jp
    mw = mujoco.MjModel.from_xml_string(item["xml"])
    try:
        mx = mjx.put_model(mw)
        dx = mjx.make_data(mw)
    except NotImplementedError:
        part.add("rejected_not_implemented")
        return
    fam = item["name"].split("#")[0]

    def same(x, y):
        lx, ly = leaves_with_names(J, x), leaves_with_names(J, y)
        return [n for n, _ in lx] == [n for n, _ in ly] and all(
            np.asarray(u).dtype == np.asarray(v).dtype and exact(u, v)
            for (_, u), (_, v) in zip(lx, ly)) and jax.tree_util.tree_structure(x) == jax.tree_util.tree_structure(y)
    for tag, obj in (("Model", mx), ("Data", dx)):
        leaves, td = jax.tree_util.tree_flatten(obj)
        part.count(1, key=(item["name"], tag, "flatten"), sample={"model": item["name"], "obj": tag, "leaves": len(leaves)})
        if not same(jax.tree_util.tree_unflatten(td, leaves), obj):
            part.violation("%s: tree_unflatten(tree_flatten(x)) != x" % tag, "model %s" % item["name"], {"xml": item["xml"]})
        if not same(jax.tree_util.tree_map(lambda x: x, obj), obj):
            part.violation("%s: tree_map(identity) != x" % tag, "model %s" % item["name"], {"xml": item["xml"]})
        # jit identity: static metadata must hash/compare consistently (no retrace explosion, same values)
        if not same(jax.jit(lambda x: x)(obj), obj):
            part.violation("%s: jit(identity) != x" % tag, "model %s" % item["name"], {"xml": item["xml"]})
    # replace: exactly the named field changes
    for fname in ("qpos", "qvel", "ctrl", "time", "xfrc_applied"):
        old = getattr(dx, fname)
        new = old + 1.5
        d2 = dx.replace(**{fname: new})
        part.count(1, key=(item["name"], "replace", fname))
        for f in J.types.Data.fields():
            u, v = getattr(d2, f.name), getattr(dx, f.name)
            if f.name == fname:
                ok = exact(u, new)
            elif f.name == "_impl":
                ok = same(u, v)
            else:
                ok = exact(u, v)
            if not ok:
                part.violation("Data.replace(%s) touches/keeps the wrong field" % fname, "field %s (model %s)" % (f.name, item["name"]), {"xml": item["xml"]})
        if not exact(getattr(dx, fname), old):
            part.violation("Data.replace mutates the original", fname, {"xml": item["xml"]})
    for path in ("_impl.M", "_impl.efc_force", "_impl.contact.dist", "qacc"):
        cur = dx
        for p in path.split("."):
            cur = getattr(cur, p)
        new = cur + 2.0
        d2 = dx.tree_replace({path: new})
        got = d2
        for p in path.split("."):
            got = getattr(got, p)
        part.count(1, key=(item["name"], "tree_replace", path))
        if not exact(got, new):
            part.violation("tree_replace(%s) does not set the leaf" % path, "model %s" % item["name"], {"xml": item["xml"]})
        la, lb = leaves_with_names(J, d2), leaves_with_names(J, dx)
        changed = [n for (n, u), (_, v) in zip(la, lb) if not exact(u, v)]
        if len(changed) > 1 or (np.asarray(new).size and len(changed) != 1):
            part.violation("tree_replace(%s) changes other leaves" % path, "changed %s (model %s)" % (changed[:5], item["name"]), {"xml": item["xml"]})


# ------------------------------------------------------------------------------------------------ rebind

def static_fields(J, obj, prefix=()):
    """[(path tuple, ndarray)] of every numpy-valued field that is pytree METADATA (not a leaf), through nested dataclasses
    and tuples of arrays."""
    import dataclasses as dc
    leaves = set(id(x) for x in J.jax.tree_util.tree_leaves(obj))
    out = []
    for f in dc.fields(obj):
        v = getattr(obj, f.name)
        if isinstance(v, np.ndarray):
            if id(v) not in leaves:
                out.append((prefix + (f.name,), v))
        elif isinstance(v, tuple) and v and all(isinstance(x, np.ndarray) for x in v):
            out += [(prefix + (f.name, k), x) for k, x in enumerate(v) if id(x) not in leaves]
        elif dc.is_dataclass(v) and not isinstance(v, type):
            out += static_fields(J, v, prefix + (f.name,))
    return out


def get_path(obj, path):
    for p in path:
        obj = obj[p] if isinstance(p, int) else getattr(obj, p)
    return obj


def set_path(obj, path, val):
    if len(path) == 1:
        return obj.replace(**{path[0]: val})
    if len(path) == 2 and isinstance(path[1], int):
        t = list(getattr(obj, path[0]))
        t[path[1]] = val
        return obj.replace(**{path[0]: tuple(t)})
    return obj.replace(**{path[0]: set_path(getattr(obj, path[0]), path[1:], val)})


def path_str(path):
    return "".join("[%d]" % p if isinstance(p, int) else "." + p for p in path).lstrip(".")


def perturbations(a):
    """Sibling values of one static array: [(tag, array)] (same shape and dtype, at least one byte different)."""
    kind = a.dtype.kind
    flat = a.reshape(-1)

    def mod(i, fn):
        b = a.copy()
        bf = b.reshape(-1)
        with np.errstate(all="ignore"):
            bf[i] = fn(bf[i])
        return b
    out = []
    if kind == "f":
        out.append(("first+0.375", mod(0, lambda x: x + 0.375)))
        out.append(("last*(1+2^-30)", mod(-1, lambda x: x * (1.0 + 2.0 ** -30) if x != 0 else 2.0 ** -30)))
    elif kind == "b":
        out.append(("first flipped", mod(0, lambda x: not x)))
        out.append(("last flipped", mod(-1, lambda x: not x)))
    elif kind in "iu":
        out.append(("first+1", mod(0, lambda x: x + 1)))
        out.append(("last+1", mod(-1, lambda x: x + 1)))
    else:
        return []
    for j in range(1, flat.size):      # permutation: first pair of unequal elements swapped (multiset of values unchanged)
        if flat[j] != flat[0] and not (flat[j] != flat[j] or flat[0] != flat[0]):
            b = a.copy()
            bf = b.reshape(-1)
            bf[0], bf[j] = flat[j], flat[0]
            out.append(("two elements swapped", b))
            break
    return [(t, b) for t, b in out if b.tobytes() != a.tobytes()]


KIND_NAME = {"f": "float", "i": "int", "u": "int", "b": "bool"}


def check_rebind_fields(J, lib, part, item):
    """jit(projection onto the static fields)(model): one jitted function, the model is its argument, called for the base
    model, every sibling (one static field perturbed) and the base model again."""
    jax, jp = J.jax, J.jp
    mw = J.mujoco.MjModel.from_xml_string(item["xml"])
    try:
        mx = J.mjx.put_model(mw)
    except NotImplementedError:
        part.add("rejected_not_implemented")
        return
    fields = [(p_, a) for p_, a in static_fields(J, mx) if a.size and a.dtype.kind in "fiub"]
    part.add("rebind_static_fields", len(fields))
    part.add("rebind_static_fields_empty_skipped", len(static_fields(J, mx)) - len(fields))
    paths = [p_ for p_, _ in fields]

    def project(m):      # under jit the static fields of m are numpy constants: one device constant per call
        return jp.asarray(np.concatenate([np.asarray(get_path(m, p_)).astype(float).reshape(-1) for p_ in paths]))

    def eager(m):
        return np.concatenate([np.asarray(get_path(m, p_)).astype(float).reshape(-1) for p_ in paths])
    shared = jax.jit(project)
    base_struct = jax.tree_util.tree_structure(mx)

    def judge(m, tag, path, kind, i):
        got = np.asarray(shared(m))
        want = eager(m)
        if got.shape != want.shape or not np.array_equal(got, want, equal_nan=True):
            part.violation("reused jit(f)(model) returns the previous model's constants: static %s field" % kind,
                           "jit(projection)(sibling) != the sibling's own values after the same jitted function was called with the base "
                           "model: field %s, perturbation %s, model %s (%d entries differ)"
                           % (path, tag, item["name"], int(np.sum(got != want)) if got.shape == want.shape else -1),
                           {"xml": item["xml"], "field": path, "perturbation": tag, "index": i})
    judge(mx, "base", "-", "any", -1)
    n = 0
    for p_, a in fields:
        for tag, b in perturbations(a):
            sib = set_path(mx, p_, b)
            n += 1
            kind = KIND_NAME[a.dtype.kind]
            part.count(1, key=(item["name"], "rebind", path_str(p_), tag),
                       sample={"model": item["name"], "field": path_str(p_), "perturbation": tag} if n == 2 else None)
            if jax.tree_util.tree_structure(sib) == base_struct:
                part.violation("pytree metadata of two models with different static %s arrays compares equal" % kind,
                               "tree_structure(model) == tree_structure(sibling) although field %s differs (%s), model %s"
                               % (path_str(p_), tag, item["name"]), {"xml": item["xml"], "field": path_str(p_), "perturbation": tag})
            judge(sib, tag, path_str(p_), kind, n)
    judge(mx, "base again", "-", "any", n)
    part.add("rebind_field_siblings", n)


REBIND_EDITS = [     # (static float field, anchor text in the base model, replacement): one MJCF attribute per sibling
    ("sensor_cutoff", 'cutoff="0.5"', 'cutoff="0.9"'),
    ("wrap_prm(fixed-tendon coef)", 'coef="1.3"', 'coef="1.7"'),
    ("sensor_cutoff", 'cutoff="0.1"', 'cutoff="0.19"'),
    ("wrap_prm(fixed-tendon coef)", 'coef="-0.7"', 'coef="-0.2"'),
    ("sensor_cutoff", 'cutoff="0.5"', 'cutoff="0.05"'),
]


def check_rebind_pipeline(J, lib, part, item):
    """jit(f)(model, data, states) / jit(vmap f): one jitted function reused for MJCF siblings that differ in one attribute
    kept in a static float field; each result must equal that of a freshly created jit (empty cache) called with that sibling only."""
    jax = J.jax
    f = fn_table(J)[item["fn"]]
    xmls = [("base", item["xml"], "-")]
    for fld, a_, b_ in item["edits"]:
        if a_ not in item["xml"]:
            raise ValueError("rebind anchor %r not in model %s" % (a_, item["name"]))
        xmls.append(("%s->%s" % (a_, b_), item["xml"].replace(a_, b_, 1), fld))
    xmls.append(("base again", item["xml"], "-"))
    mt = lib.load_xml(item["xml"])
    states = H.states_for(mt, item["kind"], item["nstate"])
    S = H.batch_states(J, states)
    mt.free()
    batched = item["wrap"] == "jit_vmap"

    def h(m, d0, s):
        g = lambda s_: f(m, H.apply_state(d0, s_))
        return jax.vmap(g)(s) if batched else g(s)
    shared = jax.jit(h)
    arg = S if batched else {k: v[1] for k, v in S.items()}
    stats = part.setdefault("stats", {})
    prev = None
    for k, (label, xml, axis) in enumerate(xmls):
        mw = J.mujoco.MjModel.from_xml_string(xml)
        mx = J.mjx.put_model(mw)
        dx0 = J.mjx.make_data(mw)
        got = shared(mx, dx0, arg)

        def fresh(m, d0, s):       # a new function object per sibling: its jit cache is empty, so it is traced with THIS model
            return h(m, d0, s)
        want = jax.jit(fresh)(mx, dx0, arg)
        lg, lw = leaves_with_names(J, got), leaves_with_names(J, want)
        differs = prev is not None and any(nerr(a, b) > 1 for (_, a), (_, b) in zip(lw, prev))
        prev = lw
        part.count(1, key=(item["name"], item["fn"], item["wrap"], label, k) if (differs or k == 0) else None,
                   sample={"model": item["name"], "fn": item["fn"], "wrap": item["wrap"], "field": axis, "sibling": label} if k == 1 else None)
        if k and not differs:
            part.add("rebind_sibling_without_effect")
        worst, wname = 0.0, None
        for (name, a), (_, b) in zip(lg, lw):
            e = nerr(a, b)
            if e > worst:
                worst, wname = e, name
        kk = "rebind:%s(%s)" % (item["wrap"], item["fn"])
        stats[kk] = max(stats.get(kk, 0.0), worst if np.isfinite(worst) else 1e300)
        if [n_ for n_, _ in lg] != [n_ for n_, _ in lw] or worst > 1:
            part.violation("reused %s(%s) with the model as argument != fresh jit of the same model after a change of a static float field"
                           % (item["wrap"], item["fn"]),
                           "sibling %d (%s; field %s) of model %s: leaf %s differs from a fresh jit called with this sibling only (normalised err %.3g, tol 1)"
                           % (k, label, axis, item["name"], wname, worst),
                           {"xml": xml, "base_xml": item["xml"], "fn": item["fn"], "wrap": item["wrap"], "sibling": label})


KINDS = {"transform": check_transform, "transfer": check_transfer, "state": check_state, "makedata": check_makedata,
         "pytree": check_pytree, "rebind-fields": check_rebind_fields, "rebind-pipeline": check_rebind_pipeline}


def _chunk(chunk):
    part = core.Part()
    lib = mj.load()
    J = H.setup()
    import time
    for item in chunk:
        t0 = time.process_time()
        KINDS[item["task"]](J, lib, part, item)
        part.add("cpu_s_%s%s" % (item["task"], ("_" + item["fn"] + "_" + item.get("mode", "")) if "fn" in item else ""),
                 round(time.process_time() - t0, 2))
    return part


# ------------------------------------------------------------------------------------------------ alphabet

def state_model(opt):
    """A model in which every state component has non-zero size (except history/plugin, not expressible here)."""
    it = G.tree_model("statemodel", (-1, 0), ("free", "slidehinge"), opt, tendon=True, actuators=2, sensors=0,
                      equality=["connect", "weld", "inactive"], mocap=True)
    it["xml"] = it["xml"].replace("<worldbody>", '<size nuserdata="3"/>\n  <worldbody>', 1)
    return it


def newton(k, **kw):
    """option k of the product but always Newton: iterative-solver noise must not be mistaken for a jit/vmap effect"""
    o, desc = G.option_cover(k, **kw)
    return o.replace('solver="CG"', 'solver="Newton"')


def alphabet(thorough):
    items = []
    # mini models: small op count, so the eager (op-by-op) baseline is affordable in the quick tier
    n0 = G.tree_model("mini-smooth[hinge,slide]", (-1, 0), ("hinge", "slide"), newton(0), tendon=False, actuators=1, sensors=0)
    n1 = G.tree_model("mini-constr[hinge,slide]", (-1, 0), ("hinge", "slide"), newton(4), limits=True, friction=True,
                      equality=["connect_site"], tendon=False, actuators=0, sensors=0)
    n2 = G.contact_model("mini-contact[plane-sphere]", newton(6), [("plane", "sphere")], condim=3, sensors=False)
    minis = [n0, n1, n2]
    m0 = G.tree_model("smooth[-1,0:free,hinge]", (-1, 0), ("free", "hinge"), newton(1), tendon=True, gravcomp=True, actuators=1, sensors=1)
    m1 = G.tree_model("constr[-1,0:ball,slide]", (-1, 0), ("ball", "slide"), newton(2), limits=True, friction=True,
                      equality=["connect", "joint"], tendon="full", actuators=1, sensors=1)
    m2 = G.contact_model("contact[plane+body,condim3]", newton(3), [("plane", "sphere"), ("plane", "capsule"), ("sphere", "capsule")],
                         condim=3, margin=0.01)
    m3 = G.tree_model("smooth[-1,-1:hinge,slide]", (-1, -1), ("hinge", "slide"), newton(5), tendon=True, actuators=2, sensors=2,
                      spatial="plain", camera=True, mocap=True)
    m4 = G.contact_model("contact[plane-box,condim4]", newton(14), [("plane", "box"), ("capsule", "capsule")], condim=4, margin=0.005,
                         explicit_pair=True)
    m5 = G.tree_model("constr[-1:hinge2]", (-1,), ("hinge2",), newton(16), limits=True, friction=True, equality=["weld", "joint"],
                      tendon="full", actuators=1, sensors=1)
    models = [m0, m1, m2, m3, m4, m5]
    if thorough:
        for ti, (par, js) in enumerate(G.QUICK_TREES):
            models.append(G.tree_model("smooth[%s]" % ",".join(js), par, js, newton(ti), tendon=True, actuators=1, sensors=1))
    # transform.  mode "full": vmap (un-jitted), jit(vmap), jit per sample, eager per sample (neager samples);
    #             mode "jit":  jit(vmap) vs jit per sample on the whole lattice (eager is unaffordable on these models in quick)
    quick_heavy = {0: {"forward": "full", "step": "full"}, 1: {"step": "eager"}, 2: {"forward": "eager"}}
    for mi, m in enumerate(minis):
        for fn in ["kinematics", "crb_factor", "forward", "step"] + (["com_pos", "fwd_position", "step2"] if thorough else []):
            heavy = fn in ("forward", "step", "step2", "fwd_position")
            mode = "full" if (thorough or not heavy) else quick_heavy[mi].get(fn)
            if mode is None:
                continue
            items.append(dict(m, task="transform", fn=fn, nstate=8 if thorough else 4, neager=4 if thorough else (1 if heavy else 2),
                              mode=mode))
    for mi, m in enumerate(models):
        if thorough:
            fns = ["kinematics", "com_pos", "crb_factor", "fwd_position", "forward", "step"]
        else:
            fns = [["forward"], ["step"], ["step"], ["forward"], [], []][mi]
        for fn in fns:
            heavy = fn in ("forward", "step", "fwd_position")
            mode = "jit" if not thorough else ("full" if (mi < 6 or not heavy) else "jit")
            items.append(dict(m, task="transform", fn=fn, nstate=8, neager=1 if mode != "jit" else 0, mode=mode))
    for mi, m in enumerate(models):
        items.append(dict(m, task="transfer", nstate=8 if thorough else 4, stepfirst=bool(mi % 2)))
        items.append(dict(m, task="makedata"))
        items.append(dict(m, task="pytree"))
    # rebind: one jitted function, the model is an argument, sequence of sibling models (see module docstring)
    for m in ([m3, m4] if not thorough else models[:6] + minis):
        items.append(dict(m, task="rebind-fields"))
    r0 = G.tree_model("rebind[hinge,slide]", (-1, 0), ("hinge", "slide"), newton(0), tendon=True, actuators=0, sensors=1)
    # quick: one sequence base -> cutoff sibling -> tendon-coefficient sibling -> base through jit(forward);
    # thorough: all five siblings through {jit, jit(vmap)} x {forward, step}
    combos = [("forward", "jit", REBIND_EDITS[:2])] if not thorough else [(fn, w_, REBIND_EDITS) for fn in ("forward", "step") for w_ in ("jit", "jit_vmap")]
    for fn, w_, ed in combos:
        items.append(dict(r0, task="rebind-pipeline", edits=ed, fn=fn, wrap=w_, nstate=4))
    # all 2^14 signatures on the state model (+ one more model in thorough), sharded
    sm = [state_model(newton(0))] + ([dict(m1, name="constr-state")] if thorough else [])
    # every signature costs one XLA compilation of a differently shaped concatenate (~30 ms): the quick tier enumerates
    # every signature with <= 3 or >= 11 of the 14 components (940 of them), the thorough tier all 16384
    sigs = [g for g in range(1 << NSTATE) if thorough or bin(g).count("1") <= 3 or bin(g).count("1") >= 11]
    nshard = 32 if thorough else 16
    for m in sm:
        for s_ in range(nshard):
            items.append(dict(m, task="state", siglist=sigs[s_::nshard]))
    return items


class _Merger:
    def __init__(self, ctx):
        self.ctx, self.seed, self.stats = ctx, ctx.seed, {}

    def merge(self, part):
        for k, v in part.pop("stats", {}).items():
            self.stats[k] = max(self.stats.get(k, 0.0), v)
        self.ctx.merge(part)

    def violation(self, *a, **kw):
        self.ctx.violation(*a, **kw)


def run(ctx):
    mj.load()
    items = alphabet(ctx.thorough)
    only = os.environ.get("VERIF_ONLY")      # debugging aid (mutation demos): restrict to items whose name/task contains a token
    if only:
        items = [it for it in items if any(t in (it["name"] + " " + it.get("task", "") + " " + it.get("fn", "")) for t in only.split(";"))]
        ctx.exhaustive = False
    order = {"transform": 0, "rebind-pipeline": 0, "state": 1, "rebind-fields": 1, "transfer": 2, "makedata": 3, "pytree": 4}
    items.sort(key=lambda it: (order[it["task"]], 0 if it.get("fn") in ("step", "step2", "forward") else 1))
    mg = _Merger(ctx)
    core.pmap(mg, _chunk, items, nchunks=len(items))
    ctx.extra["items"] = len(items)
    ctx.extra["max_err_over_tol"] = {k: float("%.3g" % v) for k, v in sorted(mg.stats.items())}
    ctx.extra["violation_keys"] = sorted(k for k, _, _ in ctx.violations)
    ctx.extra["known_finding_keys"] = sorted(k for k, _ in ctx.known_hits)
    ctx.rule = ("%d work items: transform = models x functions {kinematics, com_pos, crb+factor, fwd_position, forward, step} x lattice "
                "states, comparing jit / vmap / jit(vmap) with eager per-sample (eager on a sub-lattice, jit-per-sample elsewhere); "
                "transfer = models x lattice states x {get_data, get_data_into} over every field both sides define + contacts + batched; "
                "state = %s signatures x {state_size, get_state, set_state} vs the tree C API with sentinel content; "
                "makedata / pytree = per model; rebind = one jitted function with the Model as ARGUMENT over a sequence of sibling "
                "models: (a) projection onto the static fields for every non-empty static numpy field of %s x perturbations {first "
                "element +0.375|+1|flipped, last element *(1+2^-30)|+1|flipped, two unequal elements swapped} (counts: "
                "extra.rebind_static_fields / rebind_field_siblings), (b) %s over MJCF siblings differing in one static float attribute "
                "(sensor cutoff, fixed-tendon coefficient), base model revisited at the end. "
                "non-trivial = every (model, function, sample), (model, state, mode), signature with "
                ">=2 components, (model, static field, perturbation), pipeline sibling whose result differs from its predecessor's."
                % (len(items), "all 16384" if ctx.thorough else "all 940 with <=3 or >=11 of the 14 components (of 16384)",
                   "9 models" if ctx.thorough else "2 models (smooth+camera+mocap+spatial tendon, contact+explicit pair)",
                   "{jit, jit(vmap)} x {forward, step} x 5 siblings" if ctx.thorough else "jit(forward) x 2 siblings"))
    ctx.assumptions = ["equality up to 1e-12 + 1e-9*scale for jit/vmap vs eager (XLA may reorder sums); bit-equality for the state API",
                       "history / plugin state components have size 0 in the alphabet (not expressible without plugins/delays)"]
