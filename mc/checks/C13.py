"""C13 Contacts report true geometry.

The 11 analytic colliders of mjCOLLISIONFUNC (plane-{sphere,capsule,cylinder,box}, sphere-{sphere,capsule,cylinder,
box}, capsule-{capsule,box}, box-box), each in its own two-body model (both geom orders), 2 size sets, margin in
{0,.05} x gap in {0,.02} (given per geom, so the pair value is the documented sum), and a relative pose lattice:
5x5x5 positions scaled to the sizes x 12 rotations x 2 placements of the first geom (identity / generic world pose).
Bodies are moved by writing qpos, then mj_kinematics + mj_collision (no recompilation per pose).
Every contact: unit normal, orthonormal frame with the normal first, dist <= margin+gap, includemargin/exclude as
documented.  Analytic part: a contact exists iff the closed-form signed distance is below margin+gap; the smallest
contact distance equals it; the normal (geom[0] -> geom[1]) attains the support-function maximum; pos lies between
the surfaces; mj_geomDistance is symmetric (fromto swapped), equals the closed form and the contact distance.
"""
import itertools
import math

import numpy as np

from .. import alphabet as A
from .. import core, mj
from ..mjutil import quat2mat, quat_mul
from . import _c13_ref as G

LEVEL = "exploration"
META = dict(
    category=LEVEL,
    technique="exhaustive relative-pose lattice per analytic collider, closed-form signed distances / support functions as oracle",
    text="Each of the 11 dedicated primitive colliders is driven through the real broad/narrow phase (mj_collision) on a "
         "full product lattice of sizes x positions x rotations x margin x gap x geom order, and every contact is compared "
         "with closed-form geometry (signed distance = max over directions of the support gap, evaluated exactly per pair "
         "type).  Exhaustive on the lattice: face / edge / vertex / parallel / contained branches are all reached, and "
         "the driver's type-ordering swap is exercised by both geom orders.",
    note="Trusted: the numpy closed forms in _c13_ref.py (cross-validated among themselves: pair distance vs support gap).  "
         "Poses within 1e-9 of the detection threshold are boundary-excluded.  Pairs routed to mjc_Convex are C15's subject.  "
         "For multi-contact manifolds only the deepest contact is required to equal the signed distance; the others must "
         "be >= it and lie inside the margin-inflated overlap.",
    design_ref="DESIGN.md §3 C13")

TOL = 1e-9        # primitives: observed noise <= 1e-14
TOL_CCD = 1e-6    # mj_geomDistance(box,box) goes through GJK/EPA with ccd_tolerance 1e-8
P, S, C, Y, B = G.PLANE, G.SPHERE, G.CAPSULE, G.CYLINDER, G.BOX
TN = {P: "plane", S: "sphere", C: "capsule", Y: "cylinder", B: "box"}
PAIRS = [(P, S), (P, C), (P, Y), (P, B), (S, S), (S, C), (S, Y), (S, B), (C, C), (C, B), (B, B)]
SIZES = {
    P: [(0.0, 0.0, 0.1), (1.0, 1.0, 0.1)],
    S: [(0.1,), (0.25,)],
    C: [(0.06, 0.2), (0.15, 0.05)],
    Y: [(0.12, 0.18), (0.25, 0.04)],
    B: [(0.1, 0.15, 0.2), (0.3, 0.05, 0.12)],
}
MARGINS = [(0.0, 0.0), (0.02, 0.03)]    # per-geom margins (geom1, geom2): pair margin = sum
GAPS = [(0.0, 0.0), (0.02, 0.0)]
LEVELS = [-2.0, -1.0, 0.0, 0.87, 1.93]


def nq(q):
    q = np.array(q, float)
    return q / np.linalg.norm(q)


def axq(axis, deg):
    a = math.radians(deg) / 2
    v = np.array(axis, float)
    v = v / np.linalg.norm(v)
    return np.concatenate([[math.cos(a)], math.sin(a) * v])


ROTS = [
    ("id", np.array([1.0, 0, 0, 0])), ("x90", axq((1, 0, 0), 90)), ("y90", axq((0, 1, 0), 90)), ("z90", axq((0, 0, 1), 90)),
    ("x45", axq((1, 0, 0), 45)), ("y45", axq((0, 1, 0), 45)), ("z45", axq((0, 0, 1), 45)),
    ("x90z45", quat_mul(axq((1, 0, 0), 90), axq((0, 0, 1), 45))),
    ("generic", nq((0.8, 0.2, -0.4, 0.4))), ("tilt3", axq((1, 1, 0), 3)),
    ("generic_inv", nq((0.8, -0.2, 0.4, -0.4))), ("tilt3n", axq((-1, 0.5, 0), 3)),
]
T1S = [("id", np.zeros(3), np.array([1.0, 0, 0, 0])), ("generic", np.array([0.3, -0.2, 0.4]), nq((0.7, -0.1, 0.5, 0.3)))]


def fmt(v):
    return " ".join("%.17g" % x for x in v)


def geom_attr(t, size):
    return 'type="%s" size="%s"' % (TN[t], fmt(size))


def ext(t, size):
    """half extents along the local axes"""
    if t == S:
        return np.array([size[0]] * 3)
    if t == C:
        return np.array([size[0], size[0], size[0] + size[1]])
    if t == Y:
        return np.array([size[0], size[0], size[1]])
    if t == B:
        return np.array(size[:3])
    return np.zeros(3)


def build(tA, tB, si, order, mi, gi, t1i, pairvariant):
    """Model with geom A (canonical first type) and geom B; `order` 1 puts B's body first in the file."""
    sA = SIZES[tA][si]
    sB = SIZES[tB][si if tA != tB else 1 - si]
    mA, mB = MARGINS[mi]
    gA, gB = GAPS[gi]
    if pairvariant:
        ca = 'contype="0" conaffinity="0"'
        g1n, g2n = ("gA", "gB") if order == 0 else ("gB", "gA")
        sect = '<contact><pair geom1="%s" geom2="%s" margin="%.17g" gap="%.17g"/></contact>\n' % (g1n, g2n, mA + mB, gA + gB)
        ma = mb = ""
    else:
        ca, sect = "", ""
        ma = 'margin="%.17g" gap="%.17g"' % (mA, gA)
        mb = 'margin="%.17g" gap="%.17g"' % (mB, gB)
    _, p1, q1 = T1S[t1i]
    if tA == P:
        bodyA = '<body name="bA" pos="%s" quat="%s"><geom name="gA" %s %s %s/></body>' % (fmt(p1), fmt(q1), geom_attr(tA, sA), ma, ca)
    else:
        bodyA = '<body name="bA"><freejoint/><geom name="gA" %s %s %s/></body>' % (geom_attr(tA, sA), ma, ca)
    bodyB = '<body name="bB"><freejoint/><geom name="gB" %s %s %s/></body>' % (geom_attr(tB, sB), mb, ca)
    body = (bodyA + "\n" + bodyB) if order == 0 else (bodyB + "\n" + bodyA)
    xml = A.mjcf(body, option_elem='  <option ccd_tolerance="1e-8" ccd_iterations="200"/>', sections=sect)
    return xml, sA, sB


K_COINCIDE = ("sphere-sphere kernel: when the two reduced sphere centres coincide (sphere centre on a capsule segment / cylinder axis, "
              "crossing or collinear capsule segments) the fallback normal cross(z1,z2) or (1,0,0) is not a direction of minimal penetration")
K_CAPPAR = ("capsule-capsule, parallel axes: contacts are taken at the first capsule's segment endpoints and the search returns "
            "after two of them, so dist is not the distance between the capsules when the other segment lies inside that span")
K_CAPBOX = ("capsule-box: when the capsule's segment passes through the box the closest-feature search (segment endpoints vs faces, "
            "segment vs edges) ignores interior segment points: depth, normal and even the existence of the contact are wrong")


K_BOXSAT = ("box-box: separated boxes are tested and measured with the 15-axis separation instead of the Euclidean distance, so "
            "vertex/edge feature pairs inside margin+gap get a too small dist, a missing or a spurious contact")
K_BOXFACE = ("box-box: face-preferring tie-breaks (edge bias, 8deg/5% face substitution, clipped incident vertices) report a face "
             "manifold whose deepest dist / normal differ from the true penetration depth (by design up to 5%)")


def boxface_excused(obs, dtrue):
    """True if a box-box answer deviates from the true signed distance only in the ways the collider's documented design
    allows: the contact normal is one of the 15 candidate axes whose support gap is within 5% of the optimum, and the
    deepest reported point is the support gap along that axis, unless the deepest incident vertices are legitimately
    clipped away (they lie outside the reference face rectangle)."""
    if not obs["n"]:
        return False
    g0, g1, nrm, dmin = obs["g0"], obs["g1"], obs["normal"], obs["dmin"]
    gg = G.gap(g0, g1, nrm)
    if gg < dtrue - (0.05 + 1e-6) * abs(dtrue) - 1e-12:
        return False
    tol = 1e-9 * (1 + abs(dtrue))
    if dmin < gg - tol:
        return False
    if abs(dmin - gg) <= tol:
        return True
    # face axis whose deepest incident vertex is clipped by the reference rectangle?
    for ref, inc, sgn in ((g0, g1, 1.0), (g1, g0, -1.0)):
        loc = ref[3].T @ (sgn * nrm)
        a = int(np.argmax(np.abs(loc)))
        if abs(loc[a]) < 1 - 1e-9:
            continue
        V = (G.box_vertices(inc[1], inc[2], inc[3]) - ref[2]) @ ref[3]      # incident vertices in the reference frame
        h = np.sign(loc[a]) * V[:, a]
        deep = h <= h.min() + 1e-9
        lat = [k for k in range(3) if k != a]
        outside = np.any(np.abs(V[:, lat]) > np.asarray(ref[1][:3])[lat] + 1e-9, axis=1)
        if np.all(outside[deep]):
            return True
    return False


def root_cause(gA, gB, dtrue, kind="contact", obs=None):
    """Map a failing analytic check to a known root cause (None = unclassified)."""
    tA, tB = gA[0], gB[0]
    if (tA, tB) == (B, B):
        if kind != "contact":
            if np.linalg.norm(gA[2] - gB[2]) < 1e-12:
                return G.K_GJK0
            return G.K_EPAW if kind == "witness" else None
        if dtrue > 0:
            if G.sat_separation_boxbox(gA, gB) < dtrue - 1e-9:
                return K_BOXSAT
        return K_BOXFACE if obs is not None and boxface_excused(obs, dtrue) else None
    if (tA, tB) in ((S, C), (S, Y), (C, C)):
        rsum = gA[1][0] + gB[1][0]
        if (tA, tB) == (C, C):
            za, zb = gA[3][:, 2], gB[3][:, 2]
            if np.linalg.norm(np.cross(za, zb)) < 1e-7:
                return K_CAPPAR
        if abs(dtrue + rsum) < 1e-12:
            return K_COINCIDE
        if (tA, tB) == (S, Y):
            q = gB[3].T @ (gA[2] - gB[2])
            if np.hypot(q[0], q[1]) < 1e-12 and abs(q[2]) < gB[1][1]:
                return K_COINCIDE
    if (tA, tB) == (C, B):
        a, b = G._seg(gA[1], gA[2], gA[3])
        if G.seg_clip_box(gB[1][:3], gB[3].T @ (a - gB[2]), gB[3].T @ (b - gB[2])) is not None:
            return K_CAPBOX
    return None


def check_pose(lib, part, m, d, info, gA, gB, ida, idb, margin, gap_, label, xml, qpos):
    tA, tB = gA[0], gB[0]
    pname = "%s-%s" % (TN[tA], TN[tB])
    dtrue = G.pair_distance(gA, gB)
    thr = margin + gap_
    lib.mj_kinematics(m, d)
    lib.mj_collision(m, d)
    n = d.ncon
    con = d.contact[:n] if n else None
    rp = {"xml": xml, "qpos": qpos, "pose": label, "true_distance": dtrue, "margin": margin, "gap": gap_}
    geoms = {ida: gA, idb: gB}

    obs = {"n": 0}

    def bad(key, what, extra=None, analytic=False, kind="contact"):
        rc = root_cause(gA, gB, dtrue, kind, obs) if analytic else None
        part.violation(rc or "%s: %s" % (pname, key), "%s: %s [%s] %s" % (pname, key, label, what), dict(rp, **(extra or {})))

    # ---- universal checks on every contact
    for k in range(n):
        c = con[k]
        F = np.array(c["frame"]).reshape(3, 3)
        if abs(np.linalg.norm(F[0]) - 1) > 1e-12:
            bad("normal is not unit", "|n|=%.17g" % np.linalg.norm(F[0]))
        if np.abs(F @ F.T - np.eye(3)).max() > 1e-12:
            bad("frame not orthonormal", "frame=%s" % F.tolist())
        if c["dist"] > thr + 1e-12:
            bad("dist > margin+gap", "dist=%.17g margin+gap=%.17g" % (c["dist"], thr))
        if c["includemargin"] != margin:
            bad("includemargin != pair margin (sum of geom margins)", "includemargin=%.17g margin=%.17g" % (c["includemargin"], margin))
        if abs(c["dist"] - margin) > 1e-9 and bool(c["exclude"]) != (c["dist"] >= margin):
            bad("exclude flag != (dist >= margin)", "dist=%.17g margin=%.17g exclude=%d" % (c["dist"], margin, c["exclude"]))
        if set(int(x) for x in c["geom"]) != {ida, idb}:
            bad("contact between wrong geoms", "geom=%s" % c["geom"])
    if n:
        k0 = int(np.argmin(con["dist"]))
        obs.update(n=int(n), dmin=float(con["dist"][k0]), normal=np.array(con[k0]["frame"][:3]),
                   g0=geoms[int(con[k0]["geom"][0])], g1=geoms[int(con[k0]["geom"][1])])
    # ---- existence
    if abs(dtrue - thr) < 1e-9:
        part.add("boundary_excluded")
        return
    expect = dtrue < thr
    part.count(1, key=(pname, label) if expect else None,
               sample={"pair": pname, "pose": label, "true_distance": dtrue, "ncon": int(n)} if (expect and info.get("sample")) else None)
    if expect:
        info["sample"] = False
        part.add("penetrating" if dtrue < 0 else "within_margin")
    if expect != (n > 0):
        bad("contact missing although distance < margin+gap" if expect else "contact reported although distance > margin+gap",
            "true distance %.17g margin+gap %.17g ncon %d%s" % (dtrue, thr, n, "" if not n else " dist=%s" % con["dist"].tolist()), analytic=True)
    # ---- analytic checks
    if n:
        kmin = int(np.argmin(con["dist"]))
        dmin = float(con["dist"][kmin])
        tol = TOL * (1 + abs(dtrue))
        if abs(dmin - dtrue) > tol:
            if True:
                bad("smallest contact dist != true signed distance", "dist=%.17g true=%.17g (err %.3g) ncon=%d" % (dmin, dtrue, dmin - dtrue, n),
                    {"contact_dist": con["dist"].tolist()}, analytic=True)
        for k in range(n):
            c = con[k]
            g0, g1 = geoms[int(c["geom"][0])], geoms[int(c["geom"][1])]
            nrm = np.array(c["frame"][:3])
            pos = np.array(c["pos"])
            dk = float(c["dist"])
            if dk < dtrue - tol:
                bad("a contact reports less than the true signed distance", "dist[%d]=%.17g true=%.17g" % (k, dk, dtrue), analytic=True)
            s0 = G.sdf(g0[0], g0[1], g0[2], g0[3], pos)
            s1 = G.sdf(g1[0], g1[1], g1[2], g1[3], pos)
            if k == kmin:
                gg = G.gap(g0, g1, nrm)
                if not (gg >= dtrue - 1e-7 * (1 + abs(dtrue))):
                    bad("normal of the deepest contact is not a direction of minimal separation/penetration from geom[0] to geom[1]",
                        "normal=%s gap along normal=%.17g true=%.17g geom=%s" % (nrm, gg, dtrue, c["geom"]), analytic=True)
            lim = abs(dk) / 2 + 1e-7
            midway = abs(s0) <= lim and abs(s1) <= lim
            inside = s0 <= max(dk, 0.0) / 2 + 1e-7 and s1 <= max(dk, 0.0) / 2 + 1e-7
            if not (midway or (k != kmin and inside)):
                bad("pos is not between the surfaces (deepest contact: |sdf_i(pos)| <= |dist|/2; others: that, or inside the overlap)",
                    "contact %d%s pos=%s sdf0=%.17g sdf1=%.17g dist=%.17g" % (k, " (deepest)" if k == kmin else "", pos, s0, s1, dk), analytic=True)
    # ---- mj_geomDistance
    ft = np.zeros(6)
    ft2 = np.zeros(6)
    DM = 1.0
    d12 = lib.mj_geomDistance(m, d, ida, idb, DM, ft)
    d21 = lib.mj_geomDistance(m, d, idb, ida, DM, ft2)
    ccd = (tA == B and tB == B)
    gt = (TOL_CCD if ccd else TOL) * (1 + abs(dtrue))
    if abs(d12 - d21) > gt or np.abs(ft[:3] - ft2[3:]).max() > (1e-4 if ccd else 1e-9) or np.abs(ft[3:] - ft2[:3]).max() > (1e-4 if ccd else 1e-9):
        # witness points of parallel faces/edges are not unique: only flag fromto when the distance differs or the
        # swapped segment is not a valid witness pair either
        w_ok = (abs(d12 - d21) <= gt and abs(np.linalg.norm(ft2[3:] - ft2[:3]) - abs(d21)) <= 1e-6
                and abs(np.linalg.norm(ft[3:] - ft[:3]) - abs(d12)) <= 1e-6)
        if not w_ok:
            bad("mj_geomDistance not symmetric", "d(1,2)=%.17g fromto=%s ; d(2,1)=%.17g fromto=%s" % (d12, ft, d21, ft2), analytic=True, kind="geomdist")
        else:
            part.add("nonunique_witness")
    want = min(dtrue, DM)
    if abs(d12 - want) > gt:
        degenerate = False
        if ccd and np.linalg.norm(gA[2] - gB[2]) > 1e-12:
            # GJK/EPA: is it a measure-zero degeneracy (cured by a 1e-7 shift of the second body)?
            adr = 7 if (m.nq == 14 and np.allclose(qpos[7:10], gB[2])) else 0
            q2 = np.array(qpos)
            q2[adr:adr + 3] += 1e-7 * np.array([1.0, 2.0, -1.0])
            d.qpos[:] = q2
            lib.mj_kinematics(m, d)
            gB2 = (gB[0], gB[1], q2[adr:adr + 3].copy(), gB[3])
            dd2 = lib.mj_geomDistance(m, d, ida, idb, DM, None)
            degenerate = abs(dd2 - min(G.pair_distance(gA, gB2), DM)) <= gt
            d.qpos[:] = qpos
            lib.mj_kinematics(m, d)
        if degenerate:
            part.violation(G.K_EPADEG, "%s: mj_geomDistance != true signed distance [%s] geomDistance=%.17g true=%.17g" % (pname, label, d12, want), rp)
        else:
            bad("mj_geomDistance != true signed distance", "geomDistance=%.17g true=%.17g" % (d12, want), analytic=True, kind="geomdist")
    if n and abs(d12 - float(con["dist"].min())) > gt and abs(float(con["dist"].min()) - dtrue) <= TOL * (1 + abs(dtrue)):
        bad("mj_geomDistance != smallest contact dist", "geomDistance=%.17g contact=%.17g" % (d12, float(con["dist"].min())), analytic=True, kind="geomdist")
    if dtrue < DM - 1e-6:
        wt = 1e-5 if ccd else 1e-7
        for (first, second, fto, dd, name) in ((gA, gB, ft, d12, "(g1,g2)"), (gB, gA, ft2, d21, "(g2,g1)")):
            a, b = fto[:3], fto[3:]
            sa = G.sdf(first[0], first[1], first[2], first[3], a)
            sb = G.sdf(second[0], second[1], second[2], second[3], b)
            ln = np.linalg.norm(b - a)
            if abs(sa) > wt or abs(sb) > wt or abs(ln - abs(dd)) > wt:
                bad("mj_geomDistance fromto is not a witness segment from the first argument's surface to the second's",
                    "call %s fromto=%s sdf_first(from)=%.3g sdf_second(to)=%.3g |to-from|=%.17g dist=%.17g" % (name, fto, sa, sb, ln, dd),
                    analytic=True, kind="witness" if (abs(ln - abs(dd)) <= wt and abs(dd - want) <= gt) else "geomdist")


def run_model(lib, part, item):
    (tA, tB), si, order, mi, gi, t1list, pairvariant, rot_idx = item
    for t1i in t1list:
        xml, sA, sB = build(tA, tB, si, order, mi, gi, t1i, pairvariant)
        m = lib.load_xml(xml)
        d = lib.make_data(m)
        ida = lib.mj_name2id(m, 5, b"gA")
        idb = lib.mj_name2id(m, 5, b"gB")
        margin = sum(MARGINS[mi])
        gap_ = sum(GAPS[gi])
        _, p1, q1 = T1S[t1i]
        R1 = quat2mat(q1)
        eA = ext(tA, sA)
        info = {"sample": True}
        # qpos layout: bodies in file order
        freeA = tA != P
        adrA = (0 if order == 0 else 7) if freeA else None
        adrB = (7 if (order == 0 and freeA) else 0)
        for ri in rot_idx:
            rname, qrel = ROTS[ri]
            Rrel = quat2mat(qrel)
            gBl = (tB, sB, np.zeros(3), Rrel)
            step = np.array([0.515 * (eA[k] + G.support(tB, sB, Rrel, np.eye(3)[k])) for k in range(3)])
            if tA == P:
                step = np.array([0.3, 0.3, 0.515 * G.support(tB, sB, Rrel, np.array([0, 0, 1.0]))])
            for lv in itertools.product(LEVELS, repeat=3):
                prel = np.array(lv) * step
                if tA == P and (lv[0] != lv[1]):   # in-plane offsets do not matter for a plane: keep the diagonal only
                    continue
                cB = p1 + R1 @ prel
                qB = quat_mul(q1, qrel)
                qpos = np.zeros(m.nq)
                if freeA:
                    qpos[adrA:adrA + 3] = p1
                    qpos[adrA + 3:adrA + 7] = q1
                qpos[adrB:adrB + 3] = cB
                qpos[adrB + 3:adrB + 7] = qB
                d.qpos[:] = qpos
                gA = (tA, sA, p1, R1)
                gB = (tB, sB, cB, R1 @ Rrel)
                label = "size%d order%d m%d g%d %s T1=%s rot=%s lv=%s" % (si, order, mi, gi, "pair" if pairvariant else "geom",
                                                                          T1S[t1i][0], rname, lv)
                check_pose(lib, part, m, d, info, gA, gB, ida, idb, margin, gap_, label, xml, qpos)
        d.free()
        m.free()


class DPart(core.Part):
    def violation(self, key, what, replay=None):
        self.add("violating_cases")
        if any(v["key"] == key for v in self["violations"]):
            return
        core.Part.violation(self, key, what, replay)


def _chunk(chunk):
    lib = mj.load()
    part = DPart()
    for item in chunk:
        try:
            run_model(lib, part, item)
        except mj.MjError as e:
            part.violation("engine error", "unexpected mju_error / compile error: %s on %r" % (e, item), {"item": repr(item)})
    return part


def self_test():
    """Cross-validate the closed forms: pair_distance must equal the maximum of the support gap over a dense direction set
    (lower bound) and never be exceeded by it."""
    worst = 0.0
    dirs = np.array([v for v in itertools.product(np.linspace(-1, 1, 9), repeat=3) if any(v)], float)
    dirs /= np.linalg.norm(dirs, axis=1, keepdims=True)
    for (tA, tB) in PAIRS:
        if tA == P:
            continue
        for ri in (0, 4, 8, 9):
            R2 = quat2mat(ROTS[ri][1])
            for prel in ((0.05, 0.02, 0.3), (0.3, 0.25, 0.1), (0.01, 0.0, 0.02), (0.5, 0.4, 0.45)):
                gA = (tA, SIZES[tA][0], np.zeros(3), np.eye(3))
                gB = (tB, SIZES[tB][1 if tA == tB else 0], np.array(prel), R2)
                dt = G.pair_distance(gA, gB)
                best = max(G.gap(gA, gB, n) for n in dirs)
                if best > dt + 1e-9:
                    return "support gap %.6g exceeds closed-form distance %.6g for %s-%s" % (best, dt, TN[tA], TN[tB])
                worst = max(worst, dt - best)
    if worst > 0.03:
        return "closed-form distance exceeds the best sampled support gap by %.3g" % worst
    return None


def run(ctx):
    mj.load()
    err = self_test()
    if err:
        raise RuntimeError("oracle self-test failed: " + err)
    items = []
    allrot = list(range(len(ROTS)))
    for pair in PAIRS:
        for si in (0, 1):
            for order in (0, 1):
                for mi in (0, 1):
                    for gi in (0, 1):
                        variants = (False, True) if ctx.thorough else (False,)
                        for pv in variants:
                            if pv and (mi, gi) != (1, 1):
                                continue
                            t1 = [0, 1]
                            # split rotations over two work items for load balance
                            items.append((pair, si, order, mi, gi, t1, pv, allrot[:6]))
                            items.append((pair, si, order, mi, gi, t1, pv, allrot[6:]))
    core.pmap(ctx, _chunk, items, nchunks=min(len(items), 128))
    ctx.extra["models"] = len(items)
    ctx.rule = ("11 analytic pairs x 2 size sets x 2 geom orders x margin {0,.05 (=.02+.03)} x gap {0,.02} (per geom; thorough also via "
                "<contact><pair>) x first-geom placement {identity, generic} x 12 relative rotations {id, 90deg x/y/z, 45deg x/y/z, "
                "x90*z45, generic and its inverse, two 3deg tilts} x 5x5x5 relative positions (levels {-2,-1,0,.87,1.93} x 0.515 x (extent1+support2) per axis; "
                "plane pairs: 5 heights x 5 in-plane offsets).  non-trivial = the closed-form distance is below margin+gap (contact expected)")
    ctx.assumptions = ["pair margin/gap = sum of the geoms' values (doc: computation/index.rst 'margin and gap')",
                       "tolerance 1e-9*(1+|d|) for primitive colliders; 1e-6 for mj_geomDistance(box,box) (GJK/EPA, ccd_tolerance 1e-8)",
                       "poses with |distance-(margin+gap)| < 1e-9 boundary-excluded; non-unique witness points (parallel features) "
                       "accepted for the fromto symmetry when both segments are valid witnesses"]
