"""Model alphabet for the MJX checks C43/C44/C45 (pure Python, imports neither jax nor mujoco).

Every model is MJCF text; both the tree's compiler (reference side) and the binding's compiler (MJX side) read the
same text.  A model is a kinematic forest (parents, joint menu entry per body) plus *feature bundles*; the option
lattice (integrator x solver x cone x jacobian x flags) is attached per model by a covering rotation.
"""
from __future__ import annotations

import itertools

from .. import alphabet as A

GEOMS = {
    "sphere": 'type="sphere" size="0.07"',
    "capsule": 'type="capsule" size="0.04 0.1"',
    "ellipsoid": 'type="ellipsoid" size="0.05 0.07 0.09"',
    "cylinder": 'type="cylinder" size="0.05 0.08"',
    "box": 'type="box" size="0.05 0.07 0.09"',
}
GEOM_ORDER = ["capsule", "box", "sphere", "ellipsoid", "cylinder"]


def option(integrator="Euler", solver="Newton", cone="pyramidal", jacobian=None, flags=None, impratio=None,
           iterations=100, tolerance="1e-14", timestep="0.005", extra=""):
    kw = dict(integrator=integrator, solver=solver, cone=cone, jacobian=jacobian, impratio=impratio,
              iterations=iterations, tolerance=tolerance, ls_iterations=50, ls_tolerance="1e-4", timestep=timestep,
              gravity="0.3 -0.5 -9.81", magnetic="0.1 -0.4 0.2")
    attrs = " ".join('%s="%s"' % (k, v) for k, v in kw.items() if v is not None)
    if extra:
        attrs += " " + extra
    if flags:
        return '  <option %s><flag %s/></option>' % (attrs, " ".join('%s="%s"' % kv for kv in flags.items()))
    return "  <option %s/>" % attrs


def joint_names(joints):
    """-> dict kind -> list of joint names, in model order."""
    out = {"hinge": [], "slide": [], "ball": [], "free": [], "scalar": [], "all": []}
    for i, j in enumerate(joints):
        for k, (jt, _) in enumerate(A.JOINTS[j]):
            n = "j%d_%d" % (i, k)
            out[jt].append(n)
            out["all"].append((n, jt))
            if jt in ("hinge", "slide"):
                out["scalar"].append(n)
    return out


def forest_xml(parents, joints, *, jattr=None, battr=None, gattr=None, geoms=None, extra_in_body=None, frame=None,
               axis=None, anchor=None):
    """<worldbody> content for a forest.  Per-body lists (or a single value) for every keyword."""
    n = len(parents)

    def pick(x, i, default):
        if x is None:
            return default
        if isinstance(x, (list, tuple)):
            return x[i]
        return x

    def body(i, indent):
        pos, quat = A.FRAMES[pick(frame, i, 1 + i % 2) % len(A.FRAMES)]
        s = '%s<body name="b%d" pos="%s" quat="%s" %s>\n' % (indent, i, pos, quat, pick(battr, i, ""))
        for jn, (jt, aoff) in enumerate(A.JOINTS[joints[i]]):
            ja = pick(jattr, i, "")
            if isinstance(ja, dict):
                ja = ja.get(jt, "")
            if jt == "free":
                s += '%s  <joint name="j%d_%d" type="free" %s/>\n' % (indent, i, jn, ja)
            elif jt == "ball":
                s += '%s  <joint name="j%d_%d" type="ball" pos="%s" %s/>\n' % (
                    indent, i, jn, A.ANCHORS[pick(anchor, i, (i + 1) % 2) % 2], ja)
            else:
                s += '%s  <joint name="j%d_%d" type="%s" axis="%s" pos="%s" %s/>\n' % (
                    indent, i, jn, jt, A.AXES[(pick(axis, i, i % 3) + aoff) % len(A.AXES)],
                    A.ANCHORS[pick(anchor, i, (i + 1) % 2) % 2], ja)
        g = pick(geoms, i, GEOM_ORDER[i % len(GEOM_ORDER)])
        s += '%s  <geom name="g%d" %s pos="0.03 0.02 -0.05" quat="0.9 0.1 0.3 -0.2" %s/>\n' % (
            indent, i, GEOMS[g], pick(gattr, i, 'contype="0" conaffinity="0"'))
        s += '%s  <site name="s%d" pos="0.02 -0.04 0.06" quat="0.7 -0.1 0.5 0.3"/>\n' % (indent, i)
        s += '%s  <site name="t%d" pos="-0.05 0.03 0.02"/>\n' % (indent, i)
        if extra_in_body is not None:
            s += pick(extra_in_body, i, "")
        for k in range(n):
            if parents[k] == i:
                s += body(k, indent + "  ")
        s += "%s</body>\n" % indent
        return s

    return "".join(body(r, "    ") for r in range(n) if parents[r] == -1)


def mjcf(world, *, opt, sections="", default="", compiler='angle="radian"', world_extra="", size="", custom=""):
    s = "<mujoco>\n  <compiler %s/>\n%s\n" % (compiler, opt)
    if size:
        s += "  <size %s/>\n" % size
    if custom:
        s += "  <custom>%s</custom>\n" % custom
    if default:
        s += "  <default>\n%s\n  </default>\n" % default
    s += "  <worldbody>\n%s%s  </worldbody>\n%s</mujoco>\n" % (world_extra, world, sections)
    return s


# ---------------------------------------------------------------------------------------------- feature bundles

J_SMOOTH = {"hinge": 'armature="0.013" damping="0.3" stiffness="2.5" springref="0.2"',
            "slide": 'armature="0.02" damping="0.5" stiffness="11" springref="-0.1"',
            "ball": 'armature="0.011" damping="0.2" stiffness="1.7"',
            "free": 'armature="0.007"'}
J_LIMIT = {"hinge": 'limited="true" range="-1 0.3" margin="0.02" solreflimit="0.03 0.9" solimplimit="0.8 0.95 0.01 0.4 3"',
           "slide": 'limited="true" range="-0.5 0.3" solreflimit="-300 -20"',
           "ball": 'limited="true" range="0 1.0" margin="0.01"',
           "free": ""}
J_FRICTION = {"hinge": 'frictionloss="0.4" solreffriction="0.04 1.1" solimpfriction="0.7 0.9 0.002 0.5 2"',
              "slide": 'frictionloss="1.1"', "ball": 'frictionloss="0.2"', "free": ""}


def merge_attr(*ds):
    out = {}
    for k in ("hinge", "slide", "ball", "free"):
        out[k] = " ".join(d.get(k, "") for d in ds)
    return out


def tendon_section(names, *, spatial_sites=None, limited=False, friction=False, armature=False, springy=True,
                   pulley=False):
    """<tendon> with a fixed tendon over the first two scalar joints (one if only one) and optionally a spatial
    tendon through sites."""
    sc = names["scalar"]
    s = ""
    if sc:
        attr = ""
        if springy:
            attr += ' stiffness="3.1" damping="0.7" springlength="0.05 0.1"'
        if limited:
            attr += ' limited="true" range="-0.3 0.25" margin="0.01"'
        if friction:
            attr += ' frictionloss="0.3"'
        if armature:
            attr += ' armature="0.021"'
        s += '    <fixed name="tf"%s><joint joint="%s" coef="1.3"/>' % (attr, sc[0])
        if len(sc) > 1:
            s += '<joint joint="%s" coef="-0.7"/>' % sc[-1]
        s += "</fixed>\n"
    if spatial_sites:
        attr = ' stiffness="5" damping="0.4"' if springy else ""
        if armature:
            attr += ' armature="0.03"'
        if limited:
            attr += ' limited="true" range="0.05 0.4"'
        s += '    <spatial name="ts"%s>' % attr
        for k, st in enumerate(spatial_sites):
            if pulley and k == 2:
                s += '<pulley divisor="2"/><site site="%s"/>' % spatial_sites[k - 1]
            s += '<site site="%s"/>' % st
        s += "</spatial>\n"
    return "  <tendon>\n%s  </tendon>\n" % s if s else ""


def actuator_section(names, nbody, level=1, has_tf=False, has_ts=False):
    """Actuator menu.  level 1: quick subset; level 2: everything MJX claims to support; level 3: + refsite transmission."""
    sc = names["scalar"]
    a = []
    if sc:
        a.append('<motor name="a_motor" joint="%s" gear="1.5" ctrllimited="true" ctrlrange="-1 1"/>' % sc[0])
        a.append('<position name="a_pos" joint="%s" kp="20" kv="1.5" forcelimited="true" forcerange="-8 8"/>' % sc[-1])
        a.append('<general name="a_gen" joint="%s" dyntype="filter" dynprm="0.1" gaintype="affine" gainprm="1.2 0.5 0.2" '
                 'biastype="affine" biasprm="0.1 -0.4 -0.3" ctrllimited="true" ctrlrange="-1.5 1.5"/>' % sc[0])
        if level >= 2:
            a.append('<velocity name="a_vel" joint="%s" kv="2"/>' % sc[0])
            a.append('<intvelocity name="a_iv" joint="%s" kp="7" actrange="-0.4 0.4"/>' % sc[-1])
            a.append('<general name="a_fe" joint="%s" dyntype="filterexact" dynprm="0.05" gainprm="3"/>' % sc[-1])
            a.append('<general name="a_int" joint="%s" dyntype="integrator" gainprm="0.7" actlimited="true" actrange="-0.2 0.3"/>' % sc[0])
            a.append('<muscle name="a_mus" joint="%s" lengthrange="-1 1" force="30"/>' % sc[0])
    if names["ball"]:
        a.append('<motor name="a_ball" joint="%s" gear="0.4 -1 0.7"/>' % names["ball"][0])
        if level >= 2:
            a.append('<general name="a_ballp" joint="%s" gear="1 0.2 -0.3" biastype="affine" biasprm="0 -2 -0.1"/>' % names["ball"][0])
            a.append('<motor name="a_ballip" jointinparent="%s" gear="0.3 0.5 -1"/>' % names["ball"][0])
    if names["free"]:
        a.append('<motor name="a_free" joint="%s" gear="1 -0.5 0.3 0.2 0.7 -0.4"/>' % names["free"][0])
        if level >= 2:
            a.append('<motor name="a_freeip" jointinparent="%s" gear="0.2 0.1 -0.3 1 -0.6 0.4"/>' % names["free"][0])
    if has_tf:
        a.append('<general name="a_ten" tendon="tf" gear="0.8" gainprm="2" biastype="affine" biasprm="0 -1.5 -0.2"/>')
    if has_ts and level >= 2:
        a.append('<motor name="a_ts" tendon="ts" gear="1.1"/>')
    a.append('<motor name="a_site" site="s%d" gear="0.5 -0.2 0.9 0.1 0.3 -0.6"/>' % (nbody - 1))
    if nbody >= 2 and level >= 3:   # refsite transmissions change actuator_acc0 (version-skew prone): only in a few models
        a.append('<general name="a_siteref" site="s%d" refsite="t0" gear="1 0.3 -0.4 0.2 -0.5 0.6" biastype="affine" biasprm="0 -3 0"/>' % (nbody - 1))
    return "  <actuator>\n    %s\n  </actuator>\n" % "\n    ".join(a)


def sensor_section(names, nbody, level=1, has_tf=False, actuators=(), contact=False, cutoff=True):
    last = nbody - 1
    s = []
    site = "s%d" % last
    s += ['<framepos objtype="site" objname="%s"/>' % site,
          '<framequat objtype="body" objname="b%d"/>' % last,
          '<framexaxis objtype="geom" objname="g%d"/>' % last,
          '<subtreecom body="b0"/>',
          '<velocimeter site="%s"/>' % site, '<gyro site="%s"/>' % site,
          '<framelinvel objtype="site" objname="%s"/>' % site,
          '<frameangvel objtype="xbody" objname="b%d"/>' % last,
          '<accelerometer site="%s"/>' % site,
          '<framelinacc objtype="site" objname="%s"/>' % site,
          '<frameangacc objtype="body" objname="b%d"/>' % last,
          '<clock/>']
    if level >= 2:
        s += ['<magnetometer site="%s"/>' % site,
              '<frameyaxis objtype="xbody" objname="b%d"/>' % last, '<framezaxis objtype="site" objname="t0"/>',
              '<subtreelinvel body="b0"/>', '<subtreeangmom body="b0"/>',
              '<force site="%s"/>' % site, '<torque site="t0"/>',
              '<framepos objtype="body" objname="b%d" reftype="site" refname="t0"/>' % last,
              '<framequat objtype="site" objname="%s" reftype="xbody" refname="b0"/>' % site,
              '<framexaxis objtype="site" objname="%s" reftype="geom" refname="g0"/>' % site,
              '<framelinvel objtype="body" objname="b%d" reftype="site" refname="t0"/>' % last,
              '<frameangvel objtype="site" objname="%s" reftype="body" refname="b0"/>' % site]
    if cutoff:
        s += ['<framepos objtype="xbody" objname="b%d" cutoff="0.1"/>' % last, '<gyro site="t0" cutoff="0.5"/>']
    for n, jt in names["all"]:
        if jt in ("hinge", "slide"):
            s += ['<jointpos joint="%s"/>' % n, '<jointvel joint="%s"/>' % n]
            if actuators:
                s += ['<jointactuatorfrc joint="%s"/>' % n]
        elif jt == "ball":
            s += ['<ballquat joint="%s"/>' % n, '<ballangvel joint="%s"/>' % n]
    if has_tf:
        s += ['<tendonpos tendon="tf"/>', '<tendonvel tendon="tf"/>']
        if "a_ten" in actuators and level >= 2:
            s += ['<tendonactuatorfrc tendon="tf"/>']
    for a in actuators[:3] if level < 2 else actuators:
        s += ['<actuatorpos actuator="%s"/>' % a, '<actuatorvel actuator="%s"/>' % a, '<actuatorfrc actuator="%s"/>' % a]
    if contact:
        s += ['<touch site="%s"/>' % site]
    return "  <sensor>\n    %s\n  </sensor>\n" % "\n    ".join(s)


def actuator_names(section):
    import re
    return tuple(re.findall(r'name="(a_[a-z]+)"', section))


# ---------------------------------------------------------------------------------------------- tree models

J_ACTFRC = {"hinge": 'actuatorfrcrange="-2 1.5" actuatorgravcomp="true"', "slide": 'actuatorfrcrange="-3 3"', "ball": "", "free": ""}


def tree_model(name, parents, joints, opt, *, smooth=True, limits=False, friction=False, equality=None,
               tendon=None, actuators=1, sensors=1, gravcomp=False, camera=False, mocap=False, spatial=False,
               tendon_armature=False, actfrc=False, post=None, marker=None):
    """One kinematic-forest model with feature bundles; returns the alphabet item (dict).

    marker (mass-distribution dimension, default None = every body carries a geom):
      "leaf"  : the last body gets a jointless child body ``mk`` that carries only a site (``smk``): body mass AND subtree
                mass are exactly zero (the usual end-effector / target-frame idiom);
      "frame" : ``mk`` is a massless frame body (site only) that carries a jointless massive child ``mk2``: body mass zero,
                subtree mass positive.
    With sensors, the pose and velocity of ``smk`` are reported by two extra sensors."""
    n = len(parents)
    names = joint_names(joints)
    ja = merge_attr(J_SMOOTH if smooth else {}, J_LIMIT if limits else {}, J_FRICTION if friction else {},
                    J_ACTFRC if actfrc else {})
    battr = [('gravcomp="%s"' % ("0.7" if i == 0 else "1.3")) if gravcomp else "" for i in range(n)]
    extra = [""] * n
    if camera:
        extra[n - 1] = ('      <camera name="c0" pos="0.1 0 0.2" quat="0.9 0.1 -0.2 0.3" mode="fixed"/>\n'
                        '      <camera name="c1" pos="0 0.1 0.3" mode="track"/>\n'
                        '      <camera name="c2" pos="0.2 0.1 0.3" mode="trackcom"/>\n'
                        '      <camera name="c3" pos="0.3 0.2 0.5" mode="targetbody" target="b0"/>\n'
                        '      <camera name="c4" pos="-0.3 0.2 0.4" mode="targetbodycom" target="b0"/>\n')
    if marker:
        if marker not in ("leaf", "frame"):
            raise ValueError("marker=%r" % (marker,))
        inner = ('<body name="mk2" pos="0.04 0.02 -0.03"><geom name="gmk" type="sphere" size="0.03" contype="0" conaffinity="0"/></body>'
                 if marker == "frame" else "")
        extra[n - 1] += ('      <body name="mk" pos="0.06 -0.05 0.11" quat="0.9 -0.2 0.1 0.3"><site name="smk" pos="0.01 0.02 -0.01"/>%s</body>\n'
                         % inner)
    world = forest_xml(parents, joints, jattr=ja, battr=battr, extra_in_body=extra)
    world_extra = '    <site name="w0" pos="0.3 0.1 0.4"/>\n'
    if mocap:
        world_extra += ('    <body name="mc" mocap="true" pos="0.1 0.4 0.3" quat="0.8 0.1 0.2 -0.3"><geom name="gm" type="sphere" size="0.03" '
                        'contype="0" conaffinity="0"/><site name="sm"/></body>\n')
    has_tf = bool(tendon) and bool(names["scalar"])
    sites = None
    if spatial:
        sites = ["w0", "s0"] + (["t%d" % (n - 1)] if n > 1 else ["t0"])
        if spatial == "pulley":
            sites = ["w0", "s0", "t%d" % (n - 1), "s%d" % (n - 1)] if n > 1 else ["w0", "s0", "t0", "w0"]
    sections = ""
    if tendon or spatial:
        sections += tendon_section(names if tendon else {"scalar": []}, spatial_sites=sites,
                                   limited=(limits and tendon == "full"), friction=(friction and tendon == "full"),
                                   armature=tendon_armature, pulley=(spatial == "pulley"))
    acts = ()
    if actuators:
        asec = actuator_section(names, n, level=actuators, has_tf=has_tf, has_ts=bool(spatial))
        acts = actuator_names(asec)
        sections += asec
    if equality:
        e = []
        sc = names["scalar"]
        for kind in equality:
            if kind == "connect":
                e.append('<connect name="e_con" body1="b%d" anchor="0.05 -0.02 0.03" solref="0.03 1.2"/>' % (n - 1))
            elif kind == "connect2" and n >= 2:
                e.append('<connect name="e_con2" body1="b%d" body2="b0" anchor="0.1 0.05 -0.03"/>' % (n - 1))
            elif kind == "connect_site":
                e.append('<connect name="e_cs" site1="s%d" site2="w0"/>' % (n - 1))
            elif kind == "weld":
                e.append('<weld name="e_weld" body1="b%d" torquescale="0.7" solimp="0.85 0.97 0.005 0.5 2"/>' % (n - 1))
            elif kind == "weld2" and n >= 2:
                e.append('<weld name="e_weld2" body1="b%d" body2="b0" anchor="0.02 0.03 -0.01" relpose="0.1 -0.05 0.02 0.9 0.1 0.2 -0.1"/>' % (n - 1))
            elif kind == "weld_site":
                e.append('<weld name="e_ws" site1="s%d" site2="w0"/>' % (n - 1))
            elif kind == "joint" and sc:
                if len(sc) > 1:
                    e.append('<joint name="e_jnt" joint1="%s" joint2="%s" polycoef="0.1 0.8 0.2 -0.1 0.05"/>' % (sc[0], sc[-1]))
                else:
                    e.append('<joint name="e_jnt" joint1="%s" polycoef="0.15 0 0 0 0"/>' % sc[0])
            elif kind == "tendon" and has_tf:
                e.append('<tendon name="e_ten" tendon1="tf" polycoef="0.05 0 0 0 0"/>')
            elif kind == "inactive":
                e.append('<connect name="e_off" body1="b0" anchor="0 0 0.1" active="false"/>')
        if e:
            sections += "  <equality>\n    %s\n  </equality>\n" % "\n    ".join(e)
    if sensors:
        sections += sensor_section(names, n, level=sensors, has_tf=has_tf, actuators=acts)
        if marker:
            sections = sections.replace("  </sensor>", '    <framepos objtype="site" objname="smk"/>\n'
                                        '    <framelinvel objtype="site" objname="smk"/>\n  </sensor>')
        if camera and sensors >= 2:
            sections = sections.replace("  </sensor>", '    <camprojection site="w0" camera="c0"/>\n'
                                        '    <framepos objtype="camera" objname="c3"/>\n  </sensor>')
    xml = mjcf(world, opt=opt, sections=sections, world_extra=world_extra)
    for a_, b_ in (post or ()):
        if a_ not in xml:
            raise ValueError("post-edit anchor %r not in model %s" % (a_, name))
        xml = xml.replace(a_, b_, 1)
    return dict(name=name, xml=xml, kind="tree", parents=tuple(parents), joints=tuple(joints),
                constrained=bool(limits or friction or equality))


# ---------------------------------------------------------------------------------------------- contact scenes

def contact_model(name, opt, pairs, *, condim=3, margin=0.0, gap=0.0, friction="0.9 0.02 0.003", solref=None,
                  priority=False, explicit_pair=False, sensors=True, exclude=False, floor_attr="", geom_attr=""):
    """Free bodies resting on / slightly above a plane and/or touching each other.

    pairs: list of (geomA, geomB) with geomA == 'plane' for body-on-plane."""
    world_extra = ""
    bodies = ""
    contact_sec = ""
    k = 0
    has_plane = any(a == "plane" for a, _ in pairs)
    gcommon = 'condim="%d" margin="%g" gap="%g" friction="%s"' % (condim, margin, gap, friction)
    if solref:
        gcommon += ' solref="%s"' % solref
    if has_plane:
        world_extra += '    <geom name="floor" type="plane" size="2 2 0.1" pos="0 0 0" %s%s %s/>\n' % (
            gcommon.replace('friction="%s"' % friction, 'friction="0.6 0.01 0.002"'), ' priority="1"' if priority else "",
            floor_attr)
    gcommon += " " + geom_attr
    # resting heights: lowest point of the (tilted) geom is about 5 mm below the plane
    REST = {"sphere": 0.065, "capsule": 0.035, "box": 0.045, "ellipsoid": 0.045, "cylinder": 0.075}
    TILT = {"sphere": "1 0 0 0", "capsule": "0.7071 0 0.7071 0", "box": "1 0 0 0", "ellipsoid": "1 0 0 0",
            "cylinder": "1 0 0 0"}
    x = 0.0
    for a, b in pairs:
        if a == "plane":
            bodies += ('    <body name="b%d" pos="%g 0 %g" quat="%s"><joint name="f%d" type="free"/>'
                       '<geom name="g%d" %s %s/><site name="s%d" pos="0 0 0" size="0.2"/></body>\n'
                       % (k, x, REST[b], TILT[b], k, k, GEOMS[b], gcommon, k))
            k += 1
            x += 0.5
        else:
            # two free bodies side by side along x, overlapping by ~4 mm; far above the plane
            ext = {"sphere": 0.07, "capsule": 0.04, "box": 0.05, "ellipsoid": 0.05, "cylinder": 0.05}
            sep = ext[a] + ext[b] - 0.004
            bodies += ('    <body name="b%d" pos="%g 0.01 1.0"><joint name="f%d" type="free"/><geom name="g%d" %s %s/>'
                       '<site name="s%d" size="0.2"/></body>\n' % (k, x, k, k, GEOMS[a], gcommon, k))
            bodies += ('    <body name="b%d" pos="%g 0 1.02" quat="0.99 0.05 -0.1 0.08"><joint name="f%d" type="free"/><geom name="g%d" %s %s/>'
                       '<site name="s%d" size="0.2"/></body>\n' % (k + 1, x + sep, k + 1, k + 1, GEOMS[b], gcommon, k + 1))
            if explicit_pair:
                contact_sec += ('    <pair geom1="g%d" geom2="g%d" condim="%d" friction="0.8 0.7 0.01 0.002 0.001" margin="%g" '
                                'solreffriction="0.05 1.3"/>\n' % (k, k + 1, condim, margin))
            if exclude:
                contact_sec += '    <exclude body1="b%d" body2="b%d"/>\n' % (k, k + 1)
            k += 2
            x += 0.6
    sections = ""
    if contact_sec:
        sections += "  <contact>\n%s  </contact>\n" % contact_sec
    if sensors:
        sections += ('  <sensor>\n    <touch site="s0"/>\n    <accelerometer site="s0"/>\n    <force site="s0"/>\n'
                     '    <framelinacc objtype="body" objname="b0"/>\n  </sensor>\n')
    xml = mjcf(bodies, opt=opt, sections=sections, world_extra=world_extra)
    return dict(name=name, xml=xml, kind="contact", pairs=tuple(pairs), constrained=True)


# ---------------------------------------------------------------------------------------------- option lattice

INTEGRATORS = ["Euler", "RK4", "implicitfast"]
SOLVERS = ["Newton", "CG"]
CONES = ["pyramidal", "elliptic"]


def option_cover(k, **kw):
    """k-th element of the full product integrator x solver x cone x jacobian (24 combinations, k taken mod 24).
    Families walk through it with a stride coprime to 24, so every family sees every value of every factor."""
    k = k % 24
    integ = INTEGRATORS[k % 3]
    solver = SOLVERS[(k // 3) % 2]
    cone = CONES[(k // 6) % 2]
    jac = ["dense", "sparse"][(k // 12) % 2]
    return option(integrator=integ, solver=solver, cone=cone, jacobian=jac, **kw), (integ, solver, cone, jac)


SINGLE_TREES = [((-1,), ("hinge",)), ((-1,), ("slide",)), ((-1,), ("ball",)), ((-1,), ("free",)),
                ((-1,), ("hinge2",)), ((-1,), ("slidehinge",))]
QUICK_TREES = [   # every joint type as root and as child; a scalar joint after a quaternion joint AND before further dofs
    ((-1, 0), ("hinge", "hinge")), ((-1, 0), ("free", "hinge")), ((-1, 0), ("ball", "hinge2")),
    ((-1, 0), ("slidehinge", "ball")), ((-1, -1), ("hinge", "slide")), ((-1, -1), ("free", "ball")),
    ((-1, 0), ("none", "slide")), ((-1, 0), ("slide", "hinge2")),
]


def all_trees(nmax):
    for par in A.all_forests(nmax):
        doms = [A.joint_menu(p == -1) for p in par]
        for js in itertools.product(*doms):
            if all(j == "none" for j in js):
                continue
            yield tuple(par), tuple(js)
