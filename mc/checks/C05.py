"""C05 Time integration follows the documented schemes.

Every rooted ordered forest with <= N bodies x the full joint menu is compiled with a lattice of passive /
actuator variants; for every integrator / flag configuration and every state of a covering lattice the
state after mj_step is compared with a numpy re-statement of the update rule of doc/computation/index.rst
(geIntegration, geIntegrators, geActivation) applied to the engine's own forward quantities (M, qacc,
qfrc_smooth, qDeriv of an independent mj_forward on a copy):

  Euler        v+ = v + h*qacc ;  with eulerdamp:  (M + h*B) a = qfrc_smooth + qfrc_constraint, B = d(damping)/dv diagonal
  implicit     (M - h*D) a = qfrc,  D = mjd_smooth_vel(flg_bias=1)
  implicitfast D without the RNE term, symmetrised; standalone free bodies use the full D block
  RK4          classical tableau re-implemented with mj_forward as the derivative
  all          q+ = q (+) h*v+ on the manifold (own quaternion exponential), time+ == time + h bit-exactly,
               act+ per dyntype (integrator / filter / filterexact / muscle) with actrange clamp, actearly force,
               | |quat| - 1 | <= 1e-12, checked on 1 step from every lattice state and on each of 50 consecutive steps.
"""
import ctypes
import math

import numpy as np

from .. import alphabet as A
from .. import core, mj
from ..mjutil import relerr
from . import _c05_util as U

LEVEL = "exploration"
META = dict(
    category=LEVEL,
    technique="exhaustive enumeration of all kinematic forests <= N bodies x joint menu x passive/actuator variant lattice x "
              "integrator/flag lattice x state lattice; numpy reference of the documented update rule; per-step oracle on 50-step runs",
    text="mj_step is compared, state for state, with an independent numpy statement of the documented integrator update "
         "(Euler with/without implicit joint damping, implicit, implicitfast incl. the standalone-free-body rule, classical RK4), "
         "the manifold position update, exact time advance, per-dyntype activation update with actrange clamping and actearly. "
         "Exhaustive over the stated lattice, so an error that needs a particular joint type / tree shape / dyntype / flag "
         "combination cannot hide; says nothing about values outside the lattice.",
    note="The oracle consumes the engine's own M, qacc, qfrc_smooth, act_dot-free quantities and qDeriv (C06/C25 check those); "
         "act_dot itself is recomputed from the documentation. RK4 on quaternion joints: the classical tableau applied to the stage velocities directly (what the tree does) and "
         "its Lie-group (dexp^-1 corrected) form are both accepted; their order of accuracy is C08's subject. RK4 + filterexact/actrange: the final combination is passed through "
         "the same per-dyntype update as the single-step integrators (implementation convention, not spelled out in the docs). "
         "Constraints appear only as joint limits (variant limit; the oracle takes qfrc_constraint and qacc from the engine). Polynomial damping on ball/free joints is taken per dof. "
         "Not covered: dyntypes dcmotor / PID / user, plugin state advance, history buffers, the sleep-filtered and flex-CG code paths, "
         "SO3 / wrapped servo set-points (no reference in doc/computation); divergence auto-reset belongs to C30.",
    design_ref="DESIGN.md §3 C05")

H = 0.005
TOL_EXACT = 1e-12      # update rules that involve no linear solve (observed noise ~1e-16)
TOL_SOLVE = 1e-8       # rules that involve a linear solve with M-hat (observed noise ~1e-13)
TOL_QUAT = 1e-12

PASSIVE = {
    "plain": "",
    "damp": '<joint damping="0.05" armature="0.05"/>',
    "polydamp": '<joint damping="0.03 0.02 0.01" armature="0.05"/>',
    # joint limits that the lattice configurations violate: qfrc_constraint != 0 enters the velocity update
    "limit": '<joint damping="0.05" armature="0.05"/>',
}
LIMIT_ATTR = {"hinge": 'limited="true" range="-0.2 0.2"', "slide": 'limited="true" range="-0.2 0.2"', "hinge2": 'limited="true" range="-0.2 0.2"',
              "slidehinge": 'limited="true" range="-0.2 0.2"', "ball": 'limited="true" range="0 0.3"', "free": "", "none": ""}

# (name, dyntype, dynprm, actlimited, actearly, extra)
ACT_VARIANTS = [
    ("none", "none", "", 0, 0, ""),
    ("integrator", "integrator", "", 0, 0, ""),
    ("integrator_lim", "integrator", "", 1, 0, ""),
    ("integrator_lim_early", "integrator", "", 1, 1, ""),
    ("filter", "filter", "0.03", 0, 0, ""),
    ("filter_lim_early", "filter", "0.03", 1, 1, ""),
    ("filterexact", "filterexact", "0.003", 0, 1, ""),
    ("filterexact_lim", "filterexact", "0.003", 1, 0, ""),
    ("muscle", "muscle", "0.01 0.04 0", 0, 0, ""),
    ("muscle_smooth_lim_early", "muscle", "0.01 0.04 0.3", 1, 1, ""),
    ("actdamp", "none", "", 0, 0, 'damping="0.02 0.01 0.005"'),     # actuator-contributed joint damping (scalar joints)
    ("multi", None, None, 0, 0, ""),                               # three actuators: na=2, nu=3, act index != actuator index
]
ACTRANGE = (-0.05, 0.3)
CTRLRANGE = (-1.0, 1.0)
GAIN = 0.7
ACT0 = [0.0, 0.29]

# (integrator, disableflags, label)
CONFIGS = [
    (U.INT_EULER, 0, "Euler"),
    (U.INT_EULER, U.DSBL_EULERDAMP, "Euler/eulerdamp-off"),
    (U.INT_EULER, U.DSBL_DAMPER, "Euler/damper-off"),
    (U.INT_RK4, 0, "RK4"),
    (U.INT_IMPLICIT, 0, "implicit"),
    (U.INT_IMPLICITFAST, 0, "implicitfast"),
    (U.INT_IMPLICITFAST, U.DSBL_ACTUATION, "implicitfast/actuation-off"),
]


def actuator_xml(js, av):
    """XML of the <actuator> section for variant av (or None if not applicable) and a python description."""
    name, dyn, dynprm, lim, early, extra = av
    jn = U.joint_names(js)
    if not jn:
        return None, None
    if name == "actdamp":
        cand = [x for x in jn if x[1] in ("hinge", "slide")]
        if not cand:
            return None, None
        tgt = cand[-1]
    else:
        tgt = jn[0]
    gear = {"hinge": "1.3", "slide": "1.3", "ball": "1 0.5 -0.3", "free": "0.2 -0.1 0.3 1 0.5 -0.3"}[tgt[1]]

    def one(nm, dyn, dynprm, lim, early, extra):
        s = '<general name="%s" joint="%s" gear="%s" gainprm="%g" ctrllimited="true" ctrlrange="%g %g" dyntype="%s" ' % (
            nm, tgt[0], gear, GAIN, CTRLRANGE[0], CTRLRANGE[1], dyn)
        if dynprm:
            s += 'dynprm="%s" ' % dynprm
        if lim:
            s += 'actlimited="true" actrange="%g %g" ' % ACTRANGE
        if early:
            s += 'actearly="true" '
        return s + extra + "/>", dict(dyn=dyn, dynprm=[float(x) for x in dynprm.split()] if dynprm else [], lim=lim, early=early)
    if name == "multi":
        parts = [one("a0", "none", "", 0, 0, ""), one("a1", "filter", "0.03", 1, 0, ""), one("a2", "integrator", "", 0, 1, "")]
    else:
        parts = [one("a0", dyn, dynprm, lim, early, extra)]
    return "<actuator>" + "".join(p[0] for p in parts) + "</actuator>\n", [p[1] for p in parts]


# ------------------------------------------------------------------ reference: activation dynamics (from the docs)

def sigmoid(x):
    if x <= 0:
        return 0.0
    if x >= 1:
        return 1.0
    return x * x * x * (3 * x * (2 * x - 5) + 10)


def ref_act_dot(desc, u, w):
    dyn = desc["dyn"]
    if dyn == "integrator":
        return u
    if dyn in ("filter", "filterexact"):
        return (u - w) / desc["dynprm"][0]
    if dyn == "muscle":
        ta, td, sm = desc["dynprm"]
        uc = min(max(u, 0.0), 1.0)
        wc = min(max(w, 0.0), 1.0)
        tau_act = ta * (0.5 + 1.5 * wc)
        tau_deact = td / (0.5 + 1.5 * wc)
        dctrl = uc - w
        if sm <= 0:
            tau = tau_act if dctrl > 0 else tau_deact
        else:
            tau = tau_deact + (tau_act - tau_deact) * sigmoid(dctrl / sm + 0.5)
        return dctrl / tau
    raise ValueError(dyn)


def ref_next_act(desc, w, wdot, h):
    if desc["dyn"] == "filterexact":
        t = desc["dynprm"][0]
        w2 = w + wdot * t * (1 - math.exp(-h / t))      # = w + (u-w)(1-exp(-h/t))
    else:
        w2 = w + h * wdot
    if desc["lim"]:
        w2 = min(max(w2, ACTRANGE[0]), ACTRANGE[1])
    return w2


class Case:
    def __init__(self, lib, xml, adesc):
        self.lib = lib
        self.xml = xml
        self.m = lib.load_xml(xml)
        self.d = lib.make_data(self.m)
        self.d2 = lib.make_data(self.m)     # oracle: forward quantities of the pre-step state
        self.d3 = lib.make_data(self.m)     # oracle: RK4 stages
        self.mi = U.MInfo(self.m)
        self.adesc = adesc or []
        # activation address per actuator (documented: one activation per stateful actuator, in actuator order)
        self.act_of = []
        k = 0
        for a in self.adesc:
            if a["dyn"] != "none":
                self.act_of.append(k)
                k += 1
            else:
                self.act_of.append(-1)
        m = self.m
        self.damp = np.array(m.dof_damping, float)
        self.damppoly = np.array(m.dof_dampingpoly, float).reshape(m.nv, U.NPOLY)
        # actuator-contributed joint damping: damping * gear^2 on the target scalar joint
        if m.nactuator:
            ad = np.array(m.actuator_damping, float)
            adp = np.array(m.actuator_dampingpoly, float).reshape(-1, U.NPOLY)
            for i in range(m.nactuator):
                if ad[i] or adp[i].any():
                    j = int(m.actuator_trnid[i][0]) if m.actuator_trnid.ndim == 2 else int(m.actuator_trnid[2 * i])
                    g2 = float(m.actuator_gear[i][0]) ** 2
                    dof = self.mi.jnt_dofadr[j]
                    self.damp[dof] += ad[i] * g2
                    self.damppoly[dof] += adp[i] * g2

    def free(self):
        for x in (self.d, self.d2, self.d3):
            x.free()
        self.m.free()


def clamp_ctrl(u):
    return np.clip(u, CTRLRANGE[0], CTRLRANGE[1])


def forward_quantities(c: Case, d):
    m, lib = c.m, c.lib
    return dict(M=U.fullM(lib, m, d), qacc=np.array(d.qacc), qfrc=np.array(d.qfrc_smooth) + np.array(d.qfrc_constraint),
                act_dot=np.array(d.act_dot) if m.na else np.zeros(0))


def dexpinv(mi, vel, dq, h):
    """Lie-group (RKMK) form of a stage velocity: for quaternion joints w -> w + u x w/2 + u x (u x w)/12 with u = h*dq."""
    k = np.array(vel, float)
    for j in range(mi.njnt):
        t = mi.jnt_type[j]
        if t in (U.FREE, U.BALL):
            a = mi.jnt_dofadr[j] + (3 if t == U.FREE else 0)
            u = h * dq[a:a + 3]
            c1 = np.cross(u, k[a:a + 3])
            k[a:a + 3] = k[a:a + 3] + 0.5 * c1 + np.cross(u, c1) / 12.0
    return k


def ref_step(c: Case, integ, dflags, pre, rkmk=False):
    """Expected (qpos, qvel, act, time) after one step from `pre` = (qpos, qvel, act, ctrl, time); uses c.d2 / c.d3.
    rkmk: RK4 variant whose quaternion stages carry the dexp^-1 correction (4th order on the manifold); the plain variant
    sums the stage angular velocities directly (classical tableau applied component-wise, 2nd order for orientations)."""
    m, lib, mi = c.m, c.lib, c.mi
    h = float(m.opt.timestep)
    q0, v0, w0, u0, t0 = pre
    d2 = c.d2
    actuation = not (dflags & U.DSBL_ACTUATION)
    uc = clamp_ctrl(u0)

    def act_dots(w, d):
        """documented act_dot for every activation; also cross-checked against the engine's act_dot by the caller."""
        out = np.zeros(mi.na)
        for i, a in enumerate(c.adesc):
            k = c.act_of[i]
            if k >= 0:
                out[k] = ref_act_dot(a, float(uc[i]), float(w[k]))
        return out

    def next_acts(w, wdot):
        out = np.array(w, float)
        if not actuation:
            return out
        for i, a in enumerate(c.adesc):
            k = c.act_of[i]
            if k >= 0:
                out[k] = ref_next_act(a, float(w[k]), float(wdot[k]), h)
        return out

    fq = forward_quantities(c, d2)
    M = fq["M"]
    extra = {}
    if mi.na and actuation:
        wd = act_dots(w0, d2)
        extra["act_dot_ref"] = wd
        extra["act_dot_eng"] = fq["act_dot"]
    else:
        wd = np.zeros(mi.na)
    if integ == U.INT_EULER:
        if (dflags & U.DSBL_EULERDAMP) or (dflags & U.DSBL_DAMPER):
            a = fq["qacc"]
            extra["solve"] = False
        else:
            B = np.array([U.poly_dforce(c.damp[i], c.damppoly[i], v0[i], True) for i in range(mi.nv)])
            if np.any(B != 0):
                a = np.linalg.solve(M + h * np.diag(B), fq["qfrc"])
                extra["solve"] = True
            else:
                a = fq["qacc"]
                extra["solve"] = False
        v1 = v0 + h * a
        q1 = U.integrate_pos(mi, q0, v1, h)
        w1 = next_acts(w0, wd)
    elif integ in (U.INT_IMPLICIT, U.INT_IMPLICITFAST):
        lib.c.mjd_smooth_vel(m.ptr, d2.ptr, 1)
        D1 = U.denseD(m, d2)
        if integ == U.INT_IMPLICIT:
            Mhat = M - h * D1
        else:
            lib.c.mjd_smooth_vel(m.ptr, d2.ptr, 0)
            D0 = U.denseD(m, d2)
            Mhat = M - h * 0.5 * (D0 + D0.T)
            for adr in mi.free_blocks:
                s = slice(adr, adr + 6)
                Mhat[s, s] = M[s, s] - h * D1[s, s]
        a = np.linalg.solve(Mhat, fq["qfrc"])
        extra["solve"] = True
        v1 = v0 + h * a
        q1 = U.integrate_pos(mi, q0, v1, h)
        w1 = next_acts(w0, wd)
    else:   # RK4, classical tableau
        d3 = c.d3
        lib.mj_copyData(d3, m, d2)      # same warm start / inputs as the stepped data (matters only with active constraints)
        Acoef = [[], [0.5], [0.0, 0.5], [0.0, 0.0, 1.0]]
        Ccoef = [0.0, 0.5, 0.5, 1.0]
        Bcoef = [1 / 6, 1 / 3, 1 / 3, 1 / 6]
        Vs = [np.array(v0)]
        Ks = [np.array(v0)]            # position derivatives (== stage velocities unless rkmk)
        As = [fq["qacc"]]
        Ws = [wd if actuation else np.zeros(mi.na)]
        for i in range(1, 4):
            dq = sum(Acoef[i][j] * Ks[j] for j in range(i))
            dv = sum(Acoef[i][j] * As[j] for j in range(i))
            qi = U.integrate_pos(mi, q0, dq, h)
            vi = v0 + h * dv
            d3.qpos[:] = qi
            d3.qvel[:] = vi
            if mi.na:
                dw = sum(Acoef[i][j] * Ws[j] for j in range(i))
                wi = w0 + h * dw
                d3.act[:] = wi
            if mi.nu:
                d3.ctrl[:] = u0
            d3.time = t0 + Ccoef[i] * h
            lib.mj_forward(m, d3)
            Vs.append(vi)
            Ks.append(dexpinv(mi, vi, dq, h) if rkmk else vi)
            As.append(np.array(d3.qacc))
            Ws.append(np.array(d3.act_dot) if (mi.na and actuation) else np.zeros(mi.na))
        vbar = sum(Bcoef[j] * Ks[j] for j in range(4))
        abar = sum(Bcoef[j] * As[j] for j in range(4))
        wbar = sum(Bcoef[j] * Ws[j] for j in range(4))
        v1 = v0 + h * abar
        q1 = U.integrate_pos(mi, q0, vbar, h)
        w1 = next_acts(w0, wbar)
        extra["solve"] = False
    return q1, v1, w1, t0 + h, extra


def check_step(c: Case, part, integ, dflags, label, ident, stepno):
    """One mj_step on c.d compared with the reference. Returns False if a violation was recorded."""
    m, lib, mi, d = c.m, c.lib, c.mi, c.d
    pre = (np.array(d.qpos), np.array(d.qvel), np.array(d.act) if mi.na else np.zeros(0),
           np.array(d.ctrl) if mi.nu else np.zeros(0), float(d.time))
    lib.mj_copyData(c.d2, m, d)
    lib.mj_forward(m, c.d2)
    q1, v1, w1, t1, ex = ref_step(c, integ, dflags, pre)
    nwarn = int(np.array(d.warning)["number"][3:6].sum())
    lib.mj_step(m, d)
    if int(np.array(d.warning)["number"][3:6].sum()) != nwarn:
        # mj_checkPos/Vel/Acc detected a blow-up and reset the state (pipeline step 24, property C30): not an update-rule case
        part.add("autoreset_skipped")
        return False
    if integ == U.INT_RK4 and mi.quat_adr:
        # accept the Lie-group form of the classical RK4 as well (both use the classical tableau; see C08 for their order):
        # the candidate closer to the engine's result is the one it is held to
        alt = ref_step(c, integ, dflags, pre, rkmk=True)

        def dist(r):
            return relerr(np.array(d.qpos), r[0], atol=1e-3) + relerr(np.array(d.qvel), r[1], atol=1e-3)
        if dist(alt) < dist((q1, v1)):
            q1, v1, w1, t1, ex = alt
    ok = True
    rp = {"xml": c.xml, "integrator": U.INT_NAME[integ], "disableflags": dflags, "qpos": pre[0], "qvel": pre[1], "act": pre[2],
          "ctrl": pre[3], "time": pre[4], "step": stepno}

    def bad(name, msg):
        nonlocal ok
        ok = False
        part.violation("%s [%s] %s" % (name, label, ident), "%s: %s (step %d, %s, %s)" % (name, msg, stepno, label, ident), rp)
    tol = TOL_SOLVE if ex.get("solve") else TOL_EXACT
    if integ == U.INT_RK4:
        tol = 1e-10
    if float(d.time) != t1:
        bad("time+ != time + h", "%r vs %r" % (float(d.time), t1))
    e = relerr(np.array(d.qvel), v1, atol=1e-3)
    if e > tol:
        bad("qvel+ differs from documented update", "rel err %.3g" % e)
    e = relerr(np.array(d.qpos), q1, atol=1e-3)
    if e > max(tol, TOL_EXACT):
        bad("qpos+ differs from q (+) h*v+", "rel err %.3g" % e)
    # semi-implicit: position must use the engine's *new* velocity exactly
    qsemi = U.integrate_pos(mi, pre[0], np.array(d.qvel), float(m.opt.timestep))
    if integ != U.INT_RK4:
        e = relerr(np.array(d.qpos), qsemi, atol=1e-3)
        if e > TOL_EXACT:
            bad("qpos+ != qpos (+) h*qvel+ (semi-implicit order)", "rel err %.3g" % e)
    e = U.quat_norm_err(mi, np.array(d.qpos))
    if e > TOL_QUAT:
        bad("quaternion not unit after step", "| |q|-1 | = %.3g" % e)
    if mi.na:
        if "act_dot_ref" in ex:
            e = relerr(ex["act_dot_eng"], ex["act_dot_ref"], atol=1e-6)
            if e > 1e-10:
                bad("act_dot differs from documented activation dynamics", "rel err %.3g: %s vs %s" % (e, ex["act_dot_eng"], ex["act_dot_ref"]))
        e = float(np.max(np.abs(np.array(d.act) - w1)))
        if e > 1e-12 * (1 + float(np.max(np.abs(w1)))):
            bad("act+ differs from documented activation update", "abs err %.3g: %s vs %s" % (e, np.array(d.act), w1))
        for i, a in enumerate(c.adesc):
            if a["lim"] and not (ACTRANGE[0] <= d.act[c.act_of[i]] <= ACTRANGE[1]):
                bad("act outside actrange", "%r" % float(d.act[c.act_of[i]]))
        # actearly: force of the pre-step forward pass uses the next activation
        if not (dflags & U.DSBL_ACTUATION):
            frc = np.array(c.d2.actuator_force)
            for i, a in enumerate(c.adesc):
                k = c.act_of[i]
                if k < 0:
                    exp = GAIN * float(clamp_ctrl(pre[3])[i])
                elif a["early"] and integ != U.INT_RK4:
                    exp = GAIN * float(w1[k])
                elif a["early"]:
                    exp = GAIN * ref_next_act(a, float(pre[2][k]), float(ex["act_dot_ref"][k]), float(m.opt.timestep))
                else:
                    exp = GAIN * float(pre[2][k])
                if abs(frc[i] - exp) > 1e-12 * (1 + abs(exp)):
                    bad("actuator_force != gain * (ctrl | act | next act with actearly)", "actuator %d: %r vs %r" % (i, float(frc[i]), exp))
    return ok


def run_model(lib, part, par, js, pname, av):
    sections, adesc = "", None
    if av is not None:
        sections, adesc = actuator_xml(js, av)
        if sections is None:
            part.add("variant_not_applicable")
            return
    jattr = [LIMIT_ATTR[j] for j in js] if pname == "limit" else ""
    xml = U.std_tree_xml(par, js, default=PASSIVE[pname], sections=sections, jattr=jattr, option=A.option_elem(timestep=H))
    c = Case(lib, xml, adesc)
    m, d, mi = c.m, c.d, c.mi
    qs = A.qpos_lattice(m, limit=4)
    vs = A.qvel_lattice(mi.nv, units=False)
    if mi.nv:
        e = np.zeros(mi.nv)
        e[mi.nv - 1] = 1.0
        vs.append(e)
    states = []
    k = 0
    for q in qs[:4]:
        for v in vs:
            states.append((q, v, k))
            k += 1
    avname = av[0] if av else "-"
    ident = "parents=%s joints=%s passive=%s act=%s" % (par, js, pname, avname)
    for integ, dflags, label in CONFIGS:
        if (dflags & U.DSBL_ACTUATION) and not adesc:
            continue
        if (dflags & (U.DSBL_EULERDAMP | U.DSBL_DAMPER)) and pname == "plain" and avname != "actdamp":
            continue
        m.opt.integrator = integ
        m.opt.disableflags = dflags
        nontriv = (par, js, pname, avname, label) if (mi.nv >= 2 and (pname != "plain" or adesc or mi.quat_adr)) else None
        for q, v, k in states:
            long_run = k in (1, len(states) - 2)
            lib.mj_resetData(m, d)
            d.qpos[:] = q
            d.qvel[:] = v
            d.time = 0.125 * k
            if mi.na:
                d.act[:] = [ACT0[(k // 2 + j) % 2] for j in range(mi.na)]
            if mi.nu:
                d.ctrl[:] = [A.CTRLS[(k + j) % 4] for j in range(mi.nu)]
            nsteps = 50 if long_run else 1
            for s in range(nsteps):
                part.count(1, key=nontriv, sample={"parents": par, "joints": js, "passive": pname, "actuator": avname,
                                                   "config": label, "qpos": q, "qvel": v} if (k == 1 and s == 0 and integ == U.INT_IMPLICITFAST) else None)
                if not check_step(c, part, integ, dflags, label, ident, s):
                    break
            if pname == "limit" and np.any(np.array(c.d2.qfrc_constraint) != 0):
                part.add("runs_with_active_constraint")
            part.add("steps", nsteps)
            part.add("runs50" if long_run else "runs1")
    c.free()


def _chunk(chunk):
    lib = mj.load()
    lib.c.mjd_smooth_vel.argtypes = [ctypes.c_void_p, ctypes.c_void_p, ctypes.c_int]
    lib.c.mjd_smooth_vel.restype = None
    part = core.Part()
    for par, js, pname, av in chunk:
        try:
            run_model(lib, part, par, js, pname, av)
        except mj.MjError as e:
            part.violation("engine error parents=%s joints=%s passive=%s act=%s" % (par, js, pname, av[0] if av else "-"),
                           "unexpected mju_error/compile error: %s" % e, {"parents": par, "joints": js, "passive": pname, "act": av})
    return part


def items_for(nmax, menu):
    items = []
    for par, js in U.models(nmax, menu):
        for pname in PASSIVE:
            items.append((par, js, pname, None))
        for av in ACT_VARIANTS:
            items.append((par, js, "damp" if av[0] in ("filter", "muscle", "multi", "actdamp") else "plain", av))
    return items


def run(ctx):
    mj.load()
    nmax = ctx.q(2, 3)
    menu = None if not ctx.thorough else ["none", "hinge", "slide", "ball", "free", "hinge2"]
    items = items_for(nmax, menu)
    core.pmap(ctx, _chunk, items, nchunks=min(len(items), 256))
    ctx.extra["model_variants"] = len(items)
    ctx.rule = ("all rooted ordered forests with <=%d bodies x full product of the joint menu %s x {4 passive variants: plain, "
                "damping+armature, polynomial damping, violated joint limits} + {%d actuator variants: dyntype none/integrator/filter/filterexact/muscle x "
                "actlimited x actearly, actuator damping, 3-actuator model}; per model 7 integrator/flag configurations "
                "(Euler, Euler/eulerdamp-off, Euler/damper-off, RK4, implicit, implicitfast, implicitfast/actuation-off) x a covering "
                "state lattice (<=4 configurations x {zero, mixed, unit} velocity, act in {0,.29}, ctrl in {-1,0,.6,2}); 1 step "
                "from every state and 50 consecutive steps (each one checked) from two of them, h=%g. non-trivial = (model,variant,"
                "config) with nv>=2 and damping, an actuator or a quaternion joint" % (nmax, menu or list(A.JOINTS), len(ACT_VARIANTS), H))
    ctx.extra.setdefault("autoreset_skipped", 0)
    ctx.assumptions = ["a run in which the engine's divergence check (BADQPOS/BADQVEL/BADQACC) resets the state is cut there and counted "
                       "(autoreset_skipped; only the hostile joint-limit variant with 3 bodies produces such runs)",
                       "oracle uses the engine's M, qacc, qfrc_smooth and qDeriv of an independent mj_forward/mjd_smooth_vel on a copy (C06, C25)",
                       "tolerances: 1e-12 rel for solve-free rules, 1e-8 for rules with a linear solve, 1e-10 for RK4, 1e-12 quaternion norm",
                       "RK4 final activation update uses the per-dyntype rule with the tableau-averaged act_dot"]
