"""Shared machinery of C32 / C36 / C37: the tree's schema (parsed with the tree's own
doc/generate/mjcf_schema.py), a tiny XML node model, a universe document, a scaffold
table keyed by schema edge (parent element -> child element, context) and per-type
value menus.  Everything is a deterministic generator.

Nothing here decides a property: it produces documents; the checks own the oracles.
"""
from __future__ import annotations

import os
import sys
import xml.etree.ElementTree as ET

from .. import build

_SC = None


def schema():
    """(module, Schema) of the tree's MJCF schema language parser and mjcf.schema."""
    global _SC
    if _SC is None:
        p = os.path.join(build.REPO, "doc", "generate")
        if p not in sys.path:
            sys.path.insert(0, p)
        for k in list(sys.modules):
            if k == "mjcf_schema":
                f = getattr(sys.modules[k], "__file__", "") or ""
                if not f.startswith(build.REPO + "/"):
                    del sys.modules[k]
        import mjcf_schema as S
        _SC = (S, S.parse_file(os.path.join(build.REPO, "src", "xml", "mjcf.schema")))
    return _SC


# ------------------------------------------------------------------ XML nodes


class Node:
    __slots__ = ("tag", "attrs", "kids")

    def __init__(self, tag, attrs=None, kids=None):
        self.tag = tag
        self.attrs = list(attrs or [])      # ordered (name, value) pairs; duplicates representable
        self.kids = list(kids or [])

    def get(self, k, d=None):
        for a, v in self.attrs:
            if a == k:
                return v
        return d

    def set(self, k, v):
        for i, (a, _) in enumerate(self.attrs):
            if a == k:
                self.attrs[i] = (k, v)
                return self
        self.attrs.append((k, v))
        return self

    def delete(self, k):
        self.attrs = [(a, v) for a, v in self.attrs if a != k]
        return self

    def clone(self):
        return Node(self.tag, list(self.attrs), [c.clone() for c in self.kids])

    def add(self, child, index=None):
        if index is None:
            self.kids.append(child)
        else:
            self.kids.insert(index, child)
        return child

    def find(self, tag, **kw):
        for c in self.kids:
            if c.tag == tag and all(c.get(k) == v for k, v in kw.items()):
                return c
        return None

    def walk(self, parent=None, idx=0, depth=0):
        """pre-order (node, parent, index-in-parent)."""
        yield self, parent, idx
        for i, c in enumerate(self.kids):
            yield from c.walk(self, i, depth + 1)

    def nodes(self):
        return [n for n, _, _ in self.walk()]

    def xml(self, indent=0):
        pad = "  " * indent
        s = pad + "<" + self.tag
        for a, v in self.attrs:
            s += ' %s="%s"' % (a, esc(v))
        if not self.kids:
            return s + "/>\n"
        s += ">\n"
        for c in self.kids:
            s += c.xml(indent + 1)
        return s + pad + "</" + self.tag + ">\n"


def esc(v):
    return (str(v).replace("&", "&amp;").replace("<", "&lt;").replace(">", "&gt;").replace('"', "&quot;")
            .replace("\n", "&#10;").replace("\t", "&#9;"))


def from_et(e):
    n = Node(e.tag, list(e.attrib.items()))
    for c in e:
        if isinstance(c.tag, str):
            n.kids.append(from_et(c))
    return n


def parse(text):
    """Text -> Node (expat via ElementTree; comments dropped)."""
    return from_et(ET.fromstring(text))


def N(text):
    return parse(text)


# ------------------------------------------------------------------ schema views


def attrs_of(elname):
    S, sc = schema()
    return sc.expanded_attrs(sc.elements[elname])


def xml_tag(elname):
    S, sc = schema()
    return sc.elements[elname].xml_name()


def constraints_of(elname):
    """Element's own constraints + those of transitively used groups + the mutual exclusivity of
    `variant` groups (kind 'variant': at most one member present)."""
    S, sc = schema()
    el = sc.elements[elname]
    cons = [(c.kind, [tuple(b) for b in c.bundles]) for c in el.constraints()]
    seen = set()
    stack = [m.group for m in el.members if isinstance(m, S.Use)]
    while stack:
        g = stack.pop()
        if g in seen:
            continue
        seen.add(g)
        grp = sc.groups[g]
        for m in grp.members:
            if isinstance(m, S.Constraint):
                cons.append((m.kind, [tuple(b) for b in m.bundles]))
            elif isinstance(m, S.Use):
                stack.append(m.group)
        if grp.variant:
            cons.append(("variant", [(m.name,) for m in grp.members if isinstance(m, S.Attr)]))
    return cons


def projected_attrs(elname):
    """Attributes of `elname` admitted inside <default> (the generator's projection rule)."""
    return [a for a in attrs_of(elname) if a.name not in ("name", "class") and not a.facets.get("nodefault")]


_EDGES = None


def edges():
    global _EDGES
    if _EDGES is None:
        _EDGES = _edges()
    return _EDGES


def _edges():
    """All (parent element, child element, card, context) edges of the schema graph reachable from
    <mujoco>; context 'default' below <default> (projected rows), else 'main'.  Aliases
    (worldbody/frame/replicate) are ordinary elements here."""
    S, sc = schema()
    out = []
    seen = set()

    def visit(name, ctx):
        if (name, ctx) in seen:
            return
        seen.add((name, ctx))
        el = sc.elements[name]
        for ch in el.children():
            cctx = ctx
            if name == "default" and ch.name != "default":
                cctx = "default"
            if ctx == "default" and ch.name == "plugin":
                continue       # plugin configuration is not settable per class (generator rule)
            out.append((name, ch.name, ch.card, cctx))
            visit(ch.name, cctx)
    visit("mujoco", "main")
    # the root child `body` of mujoco is spelled <worldbody>
    return out


SYMBOLIC = {"mjNREF": 2, "mjNIMP": 5, "mjNDYN": 10, "mjNGAIN": 10, "mjNBIAS": 10}


def arity(a):
    lo, hi = a.arity.lo, a.arity.hi
    if isinstance(hi, str):
        hi = SYMBOLIC[hi]
    return lo, hi


# ------------------------------------------------------------------ universe document

TETRA = "0.1 0.1 0.1  0.1 -0.1 -0.1  -0.1 0.1 -0.1  -0.1 -0.1 0.1"

UNIVERSE = """<mujoco model="u">
  <compiler angle="radian" usethread="false"/>
  <default>
    <default class="c1">
      <default class="c2"/>
    </default>
  </default>
  <asset>
    <texture name="tex1" type="2d" builtin="checker" width="4" height="4" rgb1="1 0 0" rgb2="0 1 0"/>
    <material name="mat1" texture="tex1"/>
    <material name="mat2" rgba="0.2 0.3 0.4 1"/>
    <mesh name="m1" vertex="%s"/>
    <hfield name="hf1" nrow="2" ncol="3" size="1 1 0.5 0.1" elevation="0 0.5 1 1 0.5 0"/>
  </asset>
  <worldbody>
    <geom name="floor" type="plane" size="2 2 0.1"/>
    <camera name="cam1" pos="0 -1 1"/>
    <light name="l1" pos="0 0 2"/>
    <site name="s0" pos="0 0 0.5"/>
    <body name="b1" pos="0 0 1">
      <joint name="j1" type="hinge" axis="0 1 0" range="-1 1"/>
      <geom name="g1" type="capsule" size="0.05 0.1"/>
      <site name="s1" pos="0.1 0 0"/>
      <body name="b2" pos="0.3 0 0">
        <joint name="j2" type="slide" axis="1 0 0" range="-0.5 0.5"/>
        <geom name="g2" type="sphere" size="0.06"/>
        <site name="s2" pos="0 0 0.1"/>
      </body>
    </body>
    <body name="b3" pos="1 0 1">
      <joint name="j3" type="ball"/>
      <geom name="g3" type="box" size="0.05 0.06 0.07"/>
      <site name="s3"/>
    </body>
    <body name="bm" mocap="true" pos="0 1 1">
      <geom name="gm" size="0.02" contype="0" conaffinity="0"/>
    </body>
  </worldbody>
  <tendon>
    <fixed name="t1" range="-1 1">
      <joint joint="j1" coef="1"/>
      <joint joint="j2" coef="-0.5"/>
    </fixed>
    <spatial name="t2">
      <site site="s1"/>
      <site site="s2"/>
    </spatial>
  </tendon>
  <actuator>
    <motor name="a1" joint="j1"/>
  </actuator>
  <sensor>
    <jointpos name="sn1" joint="j1"/>
  </sensor>
</mujoco>
""" % TETRA

# name of an existing object per reference namespace of the schema
REFS = {
    "body": ["b1", "b2", "b3"], "joint": ["j1", "j2"], "geom": ["g1", "g2", "g3"], "site": ["s1", "s2", "s3"],
    "camera": ["cam1"], "light": ["l1"], "mesh": ["m1"], "material": ["mat2", "mat1"], "texture": ["tex1"],
    "hfield": ["hf1"], "tendon": ["t1", "t2"], "actuator": ["a1"], "sensor": ["sn1"], "default": ["c2", "c1"],
    "flex": ["fx1"], "instance": ["inst1"], "model": ["sub"], "frame": ["fr1"], "key": [], "skin": [],
    "pair": [], "exclude": [], "equality": [], "numeric": [], "text": [], "tuple": [],
}

SECTION_ORDER = ["compiler", "option", "size", "statistic", "visual", "default", "extension", "custom", "asset",
                 "worldbody", "deformable", "contact", "tendon", "equality", "actuator", "sensor", "keyframe"]


_UNI = None


def universe():
    global _UNI
    if _UNI is None:
        _UNI = parse(UNIVERSE)
    return _UNI.clone()


def section(doc, tag):
    """Find or create a top-level section in canonical order."""
    n = doc.find(tag)
    if n is not None:
        return n
    n = Node(tag)
    oi = SECTION_ORDER.index(tag)
    pos = len(doc.kids)
    for i, c in enumerate(doc.kids):
        if c.tag in SECTION_ORDER and SECTION_ORDER.index(c.tag) > oi:
            pos = i
            break
    doc.kids.insert(pos, n)
    return n


def body(doc, name):
    for n in doc.nodes():
        if n.tag == "body" and n.get("name") == name:
            return n
    raise KeyError(name)


# ------------------------------------------------------------------ scaffolds
#
# A scaffold places ONE new instance of schema element `child` below an instance of `parent`
# and returns (doc, target node).  Generic rule: the parent's instance is obtained recursively
# (canonical parent), the child is created with its required attributes (from the schema:
# `required` facet, `oneof` constraints -> first bundle) filled from REFS.  OVERRIDE holds the
# element-specific minimal valid forms (text with one element marked _t="1").

OVERRIDE = {
    # (parent, child): (where, snippet) ; where: 'root' | 'sec:<tag>' | 'body:<name>' | 'parent'
    ("mujoco", "compiler"): ("sec", None),
    ("mujoco", "body"): ("sec:worldbody", None),
    ("body", "body"): ("body:b1", '<body _t="1" name="nb" pos="0 0.2 0"><geom name="nbg" size="0.03"/></body>'),
    ("body", "frame"): ("body:b1", '<frame _t="1" name="fr1"><geom name="frg" size="0.03" pos="0 0.1 0"/></frame>'),
    ("body", "replicate"): ("body:b1", '<replicate _t="1" count="2" offset="0 0.15 0"><geom name="rg" size="0.02" pos="0 0 0.2"/></replicate>'),
    ("body", "inertial"): ("body:b1", '<inertial _t="1" pos="0.01 0.02 0.03" mass="1.5" diaginertia="0.01 0.02 0.025"/>'),
    ("body", "joint"): ("body:b1", '<joint _t="1" name="nj" type="hinge" axis="1 0 0"/>'),
    ("body", "freejoint"): ("sec:worldbody", '<body name="fb" pos="0 -1 1"><freejoint _t="1" name="fj"/><geom name="fbg" size="0.04"/></body>'),
    ("body", "geom"): ("body:b1", '<geom _t="1" name="ng" type="sphere" size="0.04" pos="0 0 0.2"/>'),
    ("body", "site"): ("body:b1", '<site _t="1" name="ns" pos="0 0 0.2"/>'),
    ("body", "camera"): ("body:b1", '<camera _t="1" name="ncam" pos="0 0 0.3"/>'),
    ("body", "light"): ("body:b1", '<light _t="1" name="nl" pos="0 0 0.3"/>'),
    ("body", "attach"): ("body:b1", '<attach _t="1" model="sub" body="cb" prefix="att_"/>'),
    ("body", "plugin"): ("sec:worldbody", '<body name="pb" pos="0 -2 1"><joint name="pbj"/><geom name="pbg" size="0.04"/><plugin _t="1" plugin="mujoco.elasticity.cable"><config key="twist" value="1e6"/><config key="bend" value="1e6"/></plugin></body>'),
    ("body", "composite"): ("sec:worldbody", '<composite _t="1" type="cable" curve="s" count="4 1 1" size="0.6" offset="0 -3 1" initial="none" prefix="cc"><joint kind="main" damping="0.01"/><geom type="capsule" size="0.01" rgba="0.8 0.2 0.1 1"/></composite>'),
    ("body", "flexcomp"): ("sec:worldbody", '<flexcomp _t="1" name="fx1" type="grid" count="3 3 1" spacing="0.1 0.1 0.1" pos="0 -4 1" radius="0.01" dim="2"/>'),
    ("composite", "composite_joint"): ("sec:worldbody", '<composite type="cable" curve="s" count="4 1 1" size="0.6" offset="0 -3 1" initial="none" prefix="cc"><joint _t="1" kind="main" damping="0.01"/><geom type="capsule" size="0.01" rgba="0.8 0.2 0.1 1"/></composite>'),
    ("composite", "composite_geom"): ("sec:worldbody", '<composite type="cable" curve="s" count="4 1 1" size="0.6" offset="0 -3 1" initial="none" prefix="cc"><joint kind="main" damping="0.01"/><geom _t="1" type="capsule" size="0.01"/></composite>'),
    ("composite", "composite_skin"): ("parent", '<skin _t="1"/>'),
    ("composite", "composite_site"): ("parent", '<site _t="1"/>'),
    ("composite", "plugin"): ("parent", '<plugin _t="1" plugin="mujoco.elasticity.cable"><config key="twist" value="1e6"/><config key="bend" value="1e6"/></plugin>'),
    ("flexcomp", "flexcomp_edge"): ("parent", '<edge _t="1"/>'),
    ("flexcomp", "elasticity"): ("parent", '<elasticity _t="1"/>'),
    ("flexcomp", "flexcomp_contact"): ("parent", '<contact _t="1"/>'),
    ("flexcomp", "pin"): ("parent", '<pin _t="1" id="0"/>'),
    ("flexcomp", "plugin"): None,   # no first-party flexcomp plugin builds here
    ("geom", "plugin"): None,    # sdf geoms need a marching-cubes mesh: MC shim is inert here
    ("mesh", "plugin"): None,
    ("asset", "mesh"): ("sec:asset", '<mesh _t="1" name="nm" vertex="%s"/>' % TETRA),
    ("asset", "hfield"): ("sec:asset", '<hfield _t="1" name="nhf" nrow="2" ncol="2" size="1 1 0.5 0.1" elevation="0 1 1 0"/>'),
    ("asset", "skin"): ("sec:asset", '<skin _t="1" name="sk1" vertex="0 0 0 1 0 0 0 1 0" face="0 1 2"><bone body="b1" bindpos="0 0 0" bindquat="1 0 0 0" vertid="0 1 2" vertweight="1 1 1"/></skin>'),
    ("deformable", "skin"): ("sec:deformable", '<skin _t="1" name="sk2" vertex="0 0 0 1 0 0 0 1 0" face="0 1 2"><bone body="b1" bindpos="0 0 0" bindquat="1 0 0 0" vertid="0 1 2" vertweight="1 1 1"/></skin>'),
    ("skin", "bone"): ("parent", '<bone _t="1" body="b2" bindpos="0 0 0" bindquat="1 0 0 0" vertid="0 1" vertweight="1 1"/>'),
    ("asset", "texture"): ("sec:asset", '<texture _t="1" name="ntex" type="2d" builtin="flat" width="4" height="4"/>'),
    ("asset", "material"): ("sec:asset", '<material _t="1" name="nmat"/>'),
    ("material", "layer"): ("parent", '<layer _t="1" texture="tex1" role="rgb"/>'),
    ("asset", "model"): ("sec:asset", '<model _t="1" name="sub2" file="sub.xml"/>'),
    ("deformable", "flex"): ("sec:deformable", '<flex _t="1" name="nfx" dim="1" body="b1 b2" vertex="0 0 0 0 0 0" element="0 1"/>'),
    ("flex", "flexcomp_contact"): ("parent", '<contact _t="1"/>'),
    ("flex", "flex_edge"): ("parent", '<edge _t="1"/>'),
    ("flex", "elasticity"): ("parent", '<elasticity _t="1"/>'),
    ("contact", "pair"): ("sec:contact", '<pair _t="1" geom1="g1" geom2="g3"/>'),
    ("contact", "exclude"): ("sec:contact", '<exclude _t="1" body1="b1" body2="b3"/>'),
    ("tendon", "spatial"): ("sec:tendon", '<spatial _t="1" name="nt"><site site="s1"/><site site="s2"/><site site="s3"/></spatial>'),
    ("tendon", "fixed"): ("sec:tendon", '<fixed _t="1" name="nft"><joint joint="j1" coef="0.7"/></fixed>'),
    ("spatial", "spatial_site"): ("sec:tendon", '<spatial name="nt2"><site site="s1"/><site _t="1" site="s2"/><site site="s3"/></spatial>'),
    ("spatial", "spatial_geom"): ("sec:tendon", '<spatial name="nt2"><site site="s1"/><geom _t="1" geom="g2"/><site site="s3"/></spatial>'),
    ("spatial", "pulley"): ("sec:tendon", '<spatial name="nt2"><site site="s1"/><site site="s2"/><pulley _t="1" divisor="2"/><site site="s1"/><site site="s3"/></spatial>'),
    ("fixed", "fixed_joint"): ("parent", '<joint _t="1" joint="j2" coef="0.3"/>'),
    ("equality", "connect"): ("sec:equality", '<connect _t="1" body1="b1" body2="b3" anchor="0 0 0.1"/>'),
    ("equality", "weld"): ("sec:equality", '<weld _t="1" body1="b1" body2="b3"/>'),
    ("equality", "equality_joint"): ("sec:equality", '<joint _t="1" joint1="j1" joint2="j2"/>'),
    ("equality", "equality_tendon"): ("sec:equality", '<tendon _t="1" tendon1="t1" tendon2="t2"/>'),
    ("equality", "equality_flex"): ("sec:equality", '<flex _t="1" flex="fx1"/>'),
    ("equality", "flexvert"): ("sec:equality", '<flexvert _t="1" flex="fx1"/>'),
    ("equality", "flexstrain"): ("sec:equality", '<flexstrain _t="1" flex="fx1"/>'),
    ("actuator", "general"): ("sec:actuator", '<general _t="1" name="na" joint="j1"/>'),
    ("actuator", "orientation"): ("sec:actuator", '<orientation _t="1" name="na" joint="j3"/>'),
    ("actuator", "damper"): ("sec:actuator", '<damper _t="1" name="na" joint="j1" ctrlrange="0 1"/>'),
    ("actuator", "adhesion"): ("sec:actuator", '<adhesion _t="1" name="na" body="b1" ctrlrange="0 1"/>'),
    ("actuator", "muscle"): ("sec:actuator", '<muscle _t="1" name="na" joint="j1" lengthrange="0.2 1.2"/>'),
    ("actuator", "dcmotor"): ("sec:actuator", '<dcmotor _t="1" name="na" joint="j1" motorconst="0.05" resistance="2"/>'),
    ("actuator", "actuator_plugin"): ("sec:actuator", '<plugin _t="1" name="na" joint="j1" plugin="mujoco.pid"><config key="kp" value="2"/></plugin>'),
    ("actuator_plugin", "config"): ("parent", '<config _t="1" key="kd" value="0.5"/>'),
    ("sensor", "rangefinder"): ("sec:sensor", '<rangefinder _t="1" name="ns1" site="s1"/>'),
    ("sensor", "camprojection"): ("sec:sensor", '<camprojection _t="1" name="ns1" site="s1" camera="cam1"/>'),
    ("sensor", "insidesite"): ("sec:sensor", '<insidesite _t="1" name="ns1" site="s1" objtype="body" objname="b2"/>'),
    ("sensor", "distance"): ("sec:sensor", '<distance _t="1" name="ns1" geom1="g1" geom2="g3"/>'),
    ("sensor", "normal"): ("sec:sensor", '<normal _t="1" name="ns1" geom1="g1" geom2="g3"/>'),
    ("sensor", "fromto"): ("sec:sensor", '<fromto _t="1" name="ns1" geom1="g1" geom2="g3"/>'),
    ("sensor", "sensor_contact"): ("sec:sensor", '<contact _t="1" name="ns1" geom1="g1"/>'),
    ("sensor", "tactile"): ("sec:sensor", '<tactile _t="1" name="ns1" geom="g1" mesh="m1"/>'),
    ("sensor", "user"): ("sec:sensor", '<user _t="1" name="ns1" dim="2"/>'),
    ("sensor", "sensor_plugin"): ("sec:sensor", '<plugin _t="1" name="ns1" plugin="mujoco.sensor.touch_grid" objtype="site" objname="s1"><config key="size" value="3 3"/><config key="fov" value="40 40"/><config key="gamma" value="0"/><config key="nchannel" value="1"/></plugin>'),
    ("sensor_plugin", "config"): ("sec:sensor", '<plugin name="ns1" plugin="mujoco.sensor.touch_grid" objtype="site" objname="s1"><config key="size" value="3 3"/><config key="fov" value="40 40"/><config _t="1" key="gamma" value="0"/><config key="nchannel" value="1"/></plugin>'),
    ("sensor", "ballquat"): ("sec:sensor", '<ballquat _t="1" name="ns1" joint="j3"/>'),
    ("sensor", "ballangvel"): ("sec:sensor", '<ballangvel _t="1" name="ns1" joint="j3"/>'),
    ("custom", "numeric"): ("sec:custom", '<numeric _t="1" name="num1" data="1 2 3"/>'),
    ("custom", "text"): ("sec:custom", '<text _t="1" name="txt1" data="hello"/>'),
    ("custom", "tuple"): ("sec:custom", '<tuple _t="1" name="tup1"><element objtype="body" objname="b1" prm="0.5"/></tuple>'),
    ("tuple", "element"): ("parent", '<element _t="1" objtype="geom" objname="g1"/>'),
    ("keyframe", "key"): ("sec:keyframe", '<key _t="1" name="k1"/>'),
    ("extension", "extension_plugin"): ("sec:extension", '<plugin _t="1" plugin="mujoco.sdf.torus"/>'),
    ("extension_plugin", "instance"): ("parent", '<instance _t="1" name="inst2"/>'),
    ("instance", "config"): ("parent", '<config _t="1" key="radius1" value="0.3"/>'),
    ("plugin", "config"): ("parent", '<config _t="1" key="vmax" value="0.1"/>'),
    ("default", "default"): ("default", None),
    ("mujoco", "default"): ("topdefault", None),
}

# extra document parts some scaffolds need: (parent, child) -> list of (where, snippet)
NEEDS = {
    "sdf": [("sec:extension", '<plugin plugin="mujoco.sdf.torus"><instance name="inst1"><config key="radius1" value="0.35"/><config key="radius2" value="0.15"/></instance></plugin>'),
            ("sec:asset", '<mesh name="sdfm"><plugin instance="inst1"/></mesh>')],
    "cable": [("sec:extension", '<plugin plugin="mujoco.elasticity.cable"/>')],
    "pid": [("sec:extension", '<plugin plugin="mujoco.pid"/>')],
    "touch_grid": [("sec:extension", '<plugin plugin="mujoco.sensor.touch_grid"/>')],
    "flex": [("sec:worldbody", '<flexcomp name="fx1" type="grid" count="3 3 1" spacing="0.1 0.1 0.1" pos="0 -4 1" radius="0.01" dim="2"/>')],
    "submodel": [("sec:asset", '<model name="sub" file="sub.xml"/>')],
}
NEED_OF = {
    ("geom", "plugin"): ["sdf"], ("mesh", "plugin"): ["sdf"], ("body", "plugin"): ["cable"], ("composite", "plugin"): ["cable"],
    ("actuator", "actuator_plugin"): ["pid"], ("sensor", "sensor_plugin"): ["touch_grid"], ("sensor_plugin", "config"): ["touch_grid"],
    ("composite", "composite_joint"): ["cable"], ("composite", "composite_geom"): [],
    ("equality", "equality_flex"): ["flex"], ("equality", "flexvert"): ["flex"], ("equality", "flexstrain"): ["flex"],
    ("body", "attach"): ["submodel"], ("extension_plugin", "instance"): [], ("plugin", "config"): [],
}

SUBMODEL = """<mujoco model="sub">
  <worldbody>
    <frame name="cf"><geom name="cfg" size="0.01"/></frame>
    <body name="cb" pos="0 0 0.4">
      <joint name="cj" axis="0 0 1"/>
      <geom name="cg" size="0.03"/>
    </body>
  </worldbody>
</mujoco>
"""

# files every scaffolded document may reference (served through a VFS)
FILES = {"sub.xml": SUBMODEL}


ALIASES = ("frame", "replicate", "worldbody")
ALIAS_WRAP = {
    "frame": '<frame name="frw" pos="0.1 0.2 0.3" quat="0.5 0.5 -0.5 0.5"/>',
    "replicate": '<replicate count="2" offset="0 0.15 0.05" euler="0 0 0.3"/>',
}
# semantic minimum of projected (default-context) elements
DEFAULT_BASE = {"dcmotor": [("motorconst", "0.05"), ("resistance", "2")]}


_CP = {}


def canonical_parent(child, ctx):
    k = (child, ctx)
    if k not in _CP:
        _CP[k] = _canonical_parent(child, ctx)
    return _CP[k]


def _canonical_parent(child, ctx):
    """Parent through which `child` is reached in context ctx: 'body' if possible, else the first
    non-alias parent in schema order."""
    ps = [p for p, c, card, x in edges() if c == child and x == ctx]
    if not ps:
        return None
    if "body" in ps and child != "body":
        return "body"
    for p in ps:
        if p not in ALIASES:
            return p
    return ps[0]


def _place(doc, where, snippet_node, parent_node=None):
    if where.startswith("sec:"):
        par = section(doc, where[4:])
        par.add(snippet_node)
    elif where.startswith("body:"):
        body(doc, where[5:]).add(snippet_node)
    elif where.startswith("parent"):
        idx = None
        if ":" in where:
            idx = int(where.split(":")[1])
        parent_node.add(snippet_node, idx)
    else:
        raise ValueError(where)


def _target(n):
    for x in n.nodes():
        if x.get("_t") is not None:
            x.delete("_t")
            return x
    return n


def _parent_of(root, node):
    for n, p, i in root.walk():
        if n is node:
            return p, i
    return None, None


def required_attrs(elname, parent=None):
    """(name, value) pairs the schema demands: `required` facet + first complete bundle of each oneof
    (+ a transmission for actuator shortcuts, which every actuator needs semantically)."""
    out = []
    names = set()
    S, sc = schema()
    attrs = {a.name: a for a in attrs_of(elname)}
    for a in attrs.values():
        if a.facets.get("required"):
            names.add(a.name)
    for kind, bundles in constraints_of(elname):
        if kind == "oneof":
            if not any(all(n in names for n in b) for b in bundles):
                names.update(bundles[0])
    if parent == "actuator" and "joint" in attrs:
        names.add("joint")
    for a in attrs.values():       # schema order
        if a.name in names:
            out.append((a.name, default_value(elname, a)))
    return out


_uid = [0]


def default_value(elname, a):
    """A valid plain value for attribute a (used for required attributes)."""
    if a.name == "objtype":
        return "site"
    if a.name == "objname":
        return "s1"
    if a.type == "ref":
        return REFS[a.target][0]
    if a.type == "id":
        _uid[0] += 1
        return "x%d" % _uid[0]
    vals = [v for v in values_for(elname, a) if not isinstance(v, tuple)]
    if vals:
        return vals[0]
    S, sc = schema()
    if a.type in ("enum", "flags"):
        return sc.enums[a.target].keywords()[0]
    if a.type == "bool":
        return "true"
    lo, hi = arity(a)
    n = hi if hi is not None else max(lo, 3)
    return " ".join(["1" if a.type == "int" else "0.5"] * max(n, 1))


def _add_needs(doc, key):
    for need in NEED_OF.get(key, []):
        for where, snip in NEEDS[need]:
            have = False
            sn = parse(snip)
            par = section(doc, where[4:])
            for c in par.kids:
                if c.tag == sn.tag and c.attrs == sn.attrs:
                    have = True
            if not have:
                par.add(sn)


def scaffold(parent, child, ctx="main", doc=None):
    """Return (doc, target node, parent node) with one new instance of `child` placed under an
    instance of `parent`, or None if this edge has no scaffold."""
    S, sc = schema()
    if doc is None:
        doc = universe()
    key = (parent, child)
    if ctx == "default":
        # inside the two-level nested class c2
        d2 = doc.find("default").find("default").find("default")
        if parent == "default":
            t = Node(xml_tag(child), DEFAULT_BASE.get(child, []))
            d2.add(t)
            return doc, t, d2
        pn = d2.add(Node(xml_tag(parent), DEFAULT_BASE.get(parent, [])))
        ov = OVERRIDE.get(key, "auto")
        if ov is None:
            return None
        if ov != "auto" and ov[1]:
            t = _target(parse(ov[1]))
            t.kids = []
        else:
            t = Node(xml_tag(child), required_attrs(child))
        pn.add(t)
        return doc, t, pn
    if parent in ALIASES and (("body", child) in OVERRIDE or child in ("body", "frame", "replicate")):
        # the child as it would sit in a body, then wrapped in / moved to the alias element
        bkey = ("body", child)
        if OVERRIDE.get(bkey) is None:
            return None
        _add_needs(doc, bkey)
        where, snip = OVERRIDE[bkey]
        sn = parse(snip)
        if parent == "worldbody":
            _place(doc, "sec:worldbody", sn)
            return doc, _target(sn), section(doc, "worldbody")
        _place(doc, where, sn)
        t = _target(sn)
        par, idx = _parent_of(doc, t)
        wrap = parse(ALIAS_WRAP[parent])
        par.kids[idx] = wrap
        wrap.add(t)
        return doc, t, wrap
    _add_needs(doc, key)
    ov = OVERRIDE.get(key, "auto")
    if ov is None:
        return None
    if ov != "auto":
        where, snip = ov
        if where == "sec":          # top-level section itself
            t = section(doc, xml_tag(child) if child != "body" else "worldbody")
            return doc, t, doc
        if where.startswith("sec:") and snip is None:
            t = section(doc, where[4:])
            return doc, t, doc
        if where == "default":
            d1 = doc.find("default").find("default")
            t = d1.add(Node("default", [("class", "c3")]))
            return doc, t, d1
        if where == "topdefault":
            return doc, doc.find("default"), doc
        sn = parse(snip)
        pnode = None
        if where.startswith("parent"):
            gp = canonical_parent(parent, "main")
            r = scaffold(gp, parent, "main", doc)
            if r is None:
                return None
            doc, pnode, _ = r
        _place(doc, where, sn, pnode)
        t = _target(sn)
        if pnode is None:
            pnode, _ = _parent_of(doc, t)
        return doc, t, pnode
    # automatic: parent instance by recursion, then a minimal child
    if parent == "mujoco":
        t = section(doc, xml_tag(child))
        return doc, t, doc
    gp = canonical_parent(parent, "main")
    r = scaffold(gp, parent, "main", doc)
    if r is None:
        return None
    doc, pnode, _ = r
    t = Node(xml_tag(child), required_attrs(child, parent))
    pnode.add(t)
    return doc, t, pnode


# ------------------------------------------------------------------ value menus

# per-(element, attribute) candidate values where the generic type menu is not valid
VALUE_OVERRIDE = {
    ("*", "quat"): ["0.5 0.5 -0.5 0.5", "0.8 0.2 -0.4 0.4"],
    ("*", "axisangle"): ["0 1 0 0.7", "1 2 3 1.1"],
    ("*", "xyaxes"): ["0 1 0 -1 0 0", "1 1 0 -1 1 0.2"],
    ("*", "zaxis"): ["0 1 0", "1 1 1"],
    ("*", "euler"): ["0.3 -0.2 0.5", "0.1 0 0"],
    ("*", "range"): ["-0.5 0.7"], ("*", "ctrlrange"): ["-0.5 0.7"], ("*", "forcerange"): ["-3 4"],
    ("*", "actrange"): ["-0.5 0.7"], ("*", "actuatorfrcrange"): ["-3 4"], ("*", "lengthrange"): ["0.1 0.9"],
    ("*", "velrange"): ["-0.5 0.7"], ("*", "ffrange"): ["-0.5 0.7"], ("*", "posrange"): ["-0.5 0.7"],
    ("*", "solref"): ["0.03 0.9", "-100 -10", "0.05"], ("*", "solreflimit"): ["0.03 0.9", "0.05"],
    ("*", "solreffriction"): ["0.03 0.9", "0.05"], ("*", "solreffix"): ["0.03 0.9"], ("*", "o_solref"): ["0.03 0.9"],
    ("*", "solimp"): ["0.8 0.9 0.002 0.4 3", "0.8 0.9", "0.7"], ("*", "solimplimit"): ["0.8 0.9 0.002 0.4 3", "0.8"],
    ("*", "solimpfriction"): ["0.8 0.9 0.002 0.4 3", "0.8"], ("*", "solimpfix"): ["0.8 0.9 0.002"], ("*", "o_solimp"): ["0.8 0.9 0.002 0.4 3"],
    ("*", "condim"): ["4", "1", "6"], ("*", "group"): ["2", "5"], ("*", "contype"): ["2", "0"], ("*", "conaffinity"): ["2", "0"],
    ("*", "rgba"): ["0.1 0.2 0.3 0.4"], ("*", "childclass"): ["c1", "c2"], ("*", "class"): ["c2", "c1"],
    ("*", "nsample"): ["3"], ("*", "interval"): ["0.02", "0.02 0.005"],
    ("*", "delay"): [([("delay", "0.004"), ("nsample", "3")], [])],
    ("*", "reftype"): [([("reftype", "body"), ("refname", "b3")], []), ([("reftype", "site"), ("refname", "s3")], []),
                       ([("reftype", "geom"), ("refname", "g3")], []), ([("reftype", "xbody"), ("refname", "b3")], []),
                       ([("reftype", "camera"), ("refname", "cam1")], [])],
    ("*", "refname"): [([("reftype", "geom"), ("refname", "g2")], [])],
    ("geom", "fromto"): [([("fromto", "0 0 0.1 0.1 0 0.3"), ("type", "capsule"), ("size", "0.03")], ["pos"]),
                         ([("fromto", "0 0 0.1 0.1 0 0.3"), ("type", "box"), ("size", "0.03 0.02")], ["pos"])],
    ("site", "fromto"): [([("fromto", "0 0 0.1 0.1 0 0.3"), ("type", "capsule"), ("size", "0.03")], ["pos"])],
    ("equality_tendon", "tendon1"): [([("tendon1", "t2"), ("tendon2", "t1")], [])],
    ("equality_tendon", "tendon2"): [([("tendon1", "t2"), ("tendon2", "t1")], []), ([], ["tendon2"])],
    ("equality_joint", "joint1"): [([("joint1", "j2"), ("joint2", "j1")], [])],
    ("equality_joint", "joint2"): [([("joint1", "j2"), ("joint2", "j1")], []), ([], ["joint2"])],
    ("*", "content_type"): None, ("*", "file"): None, ("*", "fileright"): None, ("*", "fileleft"): None, ("*", "fileup"): None, ("*", "filedown"): None, ("*", "filefront"): None, ("*", "fileback"): None,
    ("compiler", "eulerseq"): ["zyx", "XYZ", "xyx"], ("compiler", "meshdir"): ["md"], ("compiler", "texturedir"): ["td"],
    ("compiler", "assetdir"): ["ad"], ("compiler", "inertiagrouprange"): ["0 3"], ("compiler", "coordinate"): ["local"],
    ("compiler", "settotalmass"): ["5"], ("compiler", "boundmass"): ["0.01"], ("compiler", "boundinertia"): ["0.0001"],
    ("size", "memory"): ["2M", "100K"], ("size", "njmax"): ["50"], ("size", "nconmax"): ["20"], ("size", "nstack"): ["100000"],
    ("size", "nkey"): ["2"], ("size", "nuserdata"): ["3"],
    ("option", "actuatorgroupdisable"): ["1 3", "0"], ("option", "timestep"): ["0.001"], ("option", "impratio"): ["2"],
    ("option", "o_friction"): ["0.9 0.8 0.01 0.001 0.002", "0.9"], ("option", "iterations"): ["30"],
    ("statistic", "extent"): ["2.5"],
    ("global", "realtime"): ["0.5"], ("map", "znear"): ["0.02"], ("global", "cameraid"): ["0"],
    ("mesh", "scale"): ["1 2 0.5", "-1 1 1"], ("mesh", "refquat"): ["0.5 0.5 0.5 0.5"], ("mesh", "maxhullvert"): ["4", "10"],
    ("mesh", "vertex"): [TETRA.replace("0.1", "0.2")], ("mesh", "face"): ["0 1 2 0 3 1 0 2 3 1 3 2", "0 2 1 0 1 3 0 3 2 1 2 3"],
    ("mesh", "normal"): ["1 0 0 0 1 0 0 0 1 -1 0 0"], ("mesh", "texcoord"): ["0 0 1 0 0 1 1 1"],
    ("mesh", "builtin"): None, ("mesh", "params"): None, ("mesh", "inertia"): ["exact", "convex", "shell"],
    ("hfield", "nrow"): [([("nrow", "3"), ("elevation", "0 1 1 0 0.5 0.5")], [])], ("hfield", "ncol"): [([("ncol", "3"), ("elevation", "0 1 1 0 0.5 0.5")], [])], ("hfield", "size"): ["2 1 0.5 0.2"], ("hfield", "elevation"): ["1 0 0 1"],
    ("texture", "type"): ["cube", "skybox"], ("texture", "gridsize"): ["1 2"], ("texture", "gridlayout"): None,
    ("texture", "width"): ["8"], ("texture", "height"): ["8"], ("texture", "nchannel"): ["3", "4", "1"],
    ("texture", "rgb1"): ["0.1 0.2 0.3"], ("texture", "rgb2"): ["0.1 0.2 0.3"], ("texture", "markrgb"): ["0.1 0.2 0.3"],
    ("texture", "builtin"): ["gradient", "checker", "flat"], ("texture", "mark"): ["edge", "cross", "random"],
    ("texture", "random"): ["0.5"], ("texture", "colorspace"): ["linear", "sRGB"],
    ("material", "texture"): ["tex1"], ("material", "texrepeat"): ["2 3"], ("material", "metallic"): ["0.3"], ("material", "roughness"): ["0.3"],
    ("layer", "role"): ["rgb", "occlusion", "roughness", "metallic", "normal", "opacity", "emissive", "rgba", "orm"],
    ("body", "sleep"): ["never", "allowed", "init"], ("body", "mocap"): None, ("body", "gravcomp"): ["0.5"],
    ("body", "user"): ["1 2"], ("inertial", "fullinertia"): ["0.02 0.03 0.04 0.001 0.002 -0.001"],
    ("inertial", "diaginertia"): ["0.02 0.03 0.04"], ("inertial", "mass"): ["2.5"], ("inertial", "pos"): ["0.05 0.02 0.01"],
    ("joint", "type"): ["slide", "ball", "hinge"], ("joint", "axis"): ["1 0 0", "1 2 3"], ("joint", "springdamper"): ["0.5 0.7"],
    ("joint", "stiffness"): ["3", "3 0.1", "3 0.1 0.2"], ("joint", "damping"): ["0.3", "0.3 0.1", "0.3 0.1 0.2"],
    ("joint", "margin"): ["0.01"], ("joint", "ref"): ["0.2"], ("joint", "springref"): ["0.3"], ("joint", "armature"): ["0.02"],
    ("joint", "frictionloss"): ["0.1"], ("joint", "user"): ["1 2"], ("joint", "pos"): ["0.01 0.02 0.03"],
    ("geom", "type"): ["capsule", "ellipsoid", "cylinder", "box", "sphere"], ("geom", "size"): ["0.03 0.05 0.06", "0.03 0.05", "0.03"],
    ("geom", "friction"): ["0.8 0.01 0.001", "0.8"], ("geom", "mass"): ["0.7"],
    ("geom", "density"): ["500"], ("geom", "solmix"): ["2"], ("geom", "margin"): ["0.01"], ("geom", "gap"): ["0.005"],
    ("geom", "surfacevel"): ["0.1 0 0 0 0 0.2", "0.1"], ("geom", "adhesion"): ["0.1"],
    ("geom", "hfield"): None, ("geom", "mesh"): None, ("geom", "fitscale"): None, ("geom", "fluidcoef"): ["0.4 0.3 1.2 0.9 0.8", "0.4"],
    ("geom", "priority"): ["1"], ("geom", "user"): ["1 2"], ("geom", "pos"): ["0.05 0.02 0.01"],
    ("site", "type"): ["capsule", "ellipsoid", "cylinder", "box"], ("site", "size"): ["0.03 0.05 0.06", "0.03 0.05", "0.03"],
    ("site", "user"): ["1 2"],
    ("camera", "fovy"): ["60"], ("camera", "resolution"): ["64 48"], ("camera", "focal"): None, ("camera", "focalpixel"): None,
    ("camera", "principal"): None, ("camera", "principalpixel"): None, ("camera", "sensorsize"): None,
    ("camera", "mode"): ["track", "trackcom", "targetbody", "targetbodycom"], ("camera", "target"): None,
    ("camera", "output"): ["rgb depth", "depth", "rgb distance normal segmentation"], ("camera", "user"): ["1 2"],
    ("camera", "ipd"): ["0.07"],
    ("light", "mode"): ["track", "trackcom", "targetbody", "targetbodycom"], ("light", "target"): None,
    ("light", "directional"): ["true"], ("light", "type"): ["directional", "point", "image", "spot"],
    ("light", "dir"): ["0 1 -1"], ("light", "range"): ["5"], ("light", "attenuation"): ["0.5 0.1 0.01"], ("light", "cutoff"): ["30"],
    ("light", "exponent"): ["5"], ("light", "ambient"): ["0.1 0.2 0.3"], ("light", "diffuse"): ["0.1 0.2 0.3"],
    ("light", "specular"): ["0.1 0.2 0.3"], ("light", "texture"): ["tex1"],
    ("freejoint", "align"): ["true", "false"],
    ("frame", "name"): ["frx"], ("replicate", "count"): ["3"], ("replicate", "offset"): ["0 0.2 0.01"], ("replicate", "euler"): ["0 0 0.3"],
    ("replicate", "sep"): ["_"],
    ("attach", "body"): ["cb"], ("attach", "frame"): ["cf"], ("attach", "model"): ["sub"], ("attach", "prefix"): ["p_"],
    ("composite", "type"): None, ("composite", "count"): ["5 1 1"], ("composite", "offset"): ["0.1 -3 1"], ("composite", "vertex"): None,
    ("composite", "initial"): ["free", "ball", "none"], ("composite", "curve"): ["s cos(s) sin(s)", "s 0 0"], ("composite", "size"): ["0.5", "0.5 0.1 2"],
    ("composite", "quat"): ["0.5 0.5 0.5 0.5"], ("composite", "prefix"): ["pp"],
    ("composite_joint", "kind"): ["main"], ("composite_joint", "type"): None, ("composite_joint", "axis"): None,
    ("composite_joint", "range"): ["0 0.7"],
    ("composite_geom", "type"): ["capsule", "cylinder", "box"], ("composite_geom", "size"): ["0.012", "0.012 0.1"],
    ("composite_skin", "subgrid"): ["0"], ("composite_skin", "texcoord"): ["true"], ("composite_skin", "inflate"): ["0.01"],
    ("composite_site", "size"): ["0.01"],
    ("flexcomp", "type"): ["grid", ([("type", "box"), ("count", "3 3 3"), ("dim", "3")], []),
                           ([("type", "cylinder"), ("count", "3 3 3"), ("dim", "3")], []),
                           ([("type", "ellipsoid"), ("count", "3 3 3"), ("dim", "3")], []),
                           ([("type", "square"), ("count", "3 3 1")], []), ([("type", "disc"), ("count", "3 3 1")], []),
                           ([("type", "circle"), ("count", "4 1 1"), ("dim", "1")], []),
                           ([("type", "direct"), ("point", "0 0 0 0.1 0 0 0 0.1 0"), ("element", "0 1 2"), ("dim", "2")], ["count", "spacing"])],
    ("flexcomp", "dim"): ["1", "2", "3"], ("flexcomp", "dof"): ["full", "radial", "trilinear", "quadratic", "2d"],
    ("flexcomp", "count"): ["4 3 1"], ("flexcomp", "cellcount"): ["2 2 2"], ("flexcomp", "spacing"): ["0.12 0.11 0.1"],
    ("flexcomp", "radius"): ["0.02"], ("flexcomp", "mass"): ["2"], ("flexcomp", "inertiabox"): ["0.01"],
    ("flexcomp", "scale"): ["1 2 1"], ("flexcomp", "point"): None, ("flexcomp", "element"): None, ("flexcomp", "texcoord"): None,
    ("flexcomp", "origin"): ["0 0 0.1"], ("flexcomp", "rigid"): ["true"], ("flexcomp", "flatskin"): ["true"],
    ("flexcomp", "pos"): ["0 -4 1.5"],
    ("flexcomp_edge", "equality"): ["true", "vert", "strain", "false"], ("flexcomp_edge", "stiffness"): ["10"], ("flexcomp_edge", "damping"): ["0.1"],
    ("elasticity", "young"): ["1000"], ("elasticity", "poisson"): ["0.3"], ("elasticity", "damping"): ["0.01"],
    ("elasticity", "thickness"): ["0.01"], ("elasticity", "elastic2d"): ["bend", "stretch", "both", "none"],
    ("flexcomp_contact", "selfcollide"): ["none", "narrow", "bvh", "sap"], ("flexcomp_contact", "activelayers"): ["2"],
    ("flexcomp_contact", "friction"): ["0.8 0.01 0.001", "0.8"],
    ("pin", "id"): ["0 1"], ("pin", "range"): ["0 2"], ("pin", "grid"): ["0 0"], ("pin", "gridrange"): ["0 0 1 1"],
    ("flex", "dim"): None, ("flex", "body"): None, ("flex", "vertex"): ["0 0 0.1 0 0 0.2"], ("flex", "element"): None,
    ("flex", "texcoord"): ["0 0 1 1"], ("flex", "elemtexcoord"): None, ("flex", "node"): None, ("flex", "nodecoord"): None,
    ("flex", "cellcount"): None, ("flex", "dof"): None, ("flex", "radius"): ["0.01"],
    ("flex_edge", "stiffness"): ["10"], ("flex_edge", "damping"): ["0.1"],
    ("skin", "vertex"): None, ("skin", "face"): None, ("skin", "texcoord"): ["0 0 1 0 0 1"], ("skin", "inflate"): ["0.01"],
    ("skin", "group"): ["2"],
    ("bone", "body"): ["b3"], ("bone", "bindpos"): ["0.1 0 0"], ("bone", "bindquat"): ["0.5 0.5 0.5 0.5"], ("bone", "vertid"): ["0 2"],
    ("bone", "vertweight"): ["0.5 2"],
    ("pair", "geom1"): ["g2"], ("pair", "geom2"): ["g2"], ("pair", "friction"): ["0.9 0.8 0.01 0.001 0.002", "0.9"],
    ("pair", "margin"): ["0.01"], ("pair", "gap"): ["0.005"], ("pair", "adhesion"): ["0.1"],
    ("exclude", "body1"): ["b2"], ("exclude", "body2"): ["b2"],
    ("spatial", "springlength"): ["0.2", "0.2 0.4"], ("fixed", "springlength"): ["0.2", "0.2 0.4"], ("default_tendon", "springlength"): ["0.2", "0.2 0.4"],
    ("*", "width"): ["0.01"], ("*", "stiffness"): ["3", "3 0.1"], ("*", "damping"): ["0.3", "0.3 0.1"],
    ("*", "armature"): ["0.02"], ("*", "frictionloss"): ["0.1"], ("*", "margin"): ["0.01"], ("*", "user"): ["1 2"],
    ("spatial_geom", "sidesite"): ["s0"], ("spatial_geom", "geom"): ["g2"], ("spatial_site", "site"): ["s0"],
    ("pulley", "divisor"): ["3"], ("fixed_joint", "coef"): ["2"], ("fixed_joint", "joint"): ["j2"],
    ("connect", "site1"): None, ("connect", "site2"): None, ("connect", "anchor"): ["0.1 0 0"], ("connect", "body1"): ["b2"], ("connect", "body2"): ["b2"],
    ("weld", "site1"): None, ("weld", "site2"): None, ("weld", "anchor"): ["0.1 0 0"], ("weld", "relpose"): ["0.1 0.2 0.3 0.5 0.5 0.5 0.5"],
    ("weld", "torquescale"): ["2"], ("weld", "body1"): ["b2"], ("weld", "body2"): ["b2"],
    ("*", "polycoef"): ["0.1 0.9 0.01 0.002 0.001", "0.1 0.9"], 
    
    ("flexstrain", "cell"): None,
    ("*", "gear"): ["2", "2 0 0 0 0 1"], ("*", "cranklength"): None, ("*", "jointinparent"): None, ("*", "slidersite"): None,
    ("*", "cranksite"): None, ("*", "refsite"): None, ("*", "dynprm"): ["0.5", "0.5 0.1 0.2"], ("*", "gainprm"): ["2", "2 0.1 0.2"],
    ("*", "biasprm"): ["0.1 -2 -0.3"], ("*", "actdim"): None, ("*", "kp"): ["3"], ("*", "kv"): ["0.4"], ("*", "dampratio"): ["0.8"],
    ("*", "timeconst"): ["0.05"], ("*", "inheritrange"): ["1.5"], ("*", "ki"): ["0.3"], ("*", "imax"): ["2"], ("*", "slewmax"): ["5"],
    ("general", "joint"): ["j2"], ("general", "tendon"): ["t1"], ("general", "site"): ["s1"], ("general", "body"): ["b1"],
    ("general", "dyntype"): ["integrator", "filter", "filterexact", "muscle", "user"], ("general", "gaintype"): ["affine", "muscle", "user", "fixed"],
    ("general", "biastype"): ["affine", "muscle", "user"], ("general", "actdim"): [([("actdim", "1"), ("dyntype", "integrator")], []), ([("actdim", "2"), ("dyntype", "user")], [])],
    ("general", "actrange"): [([("actrange", "-0.5 0.7"), ("dyntype", "integrator")], [])], ("intvelocity", "actrange"): ["-0.5 0.7"],
    ("actuator_plugin", "actrange"): None, ("orientation", "forcerange"): ["0 4"], ("damper", "ctrlrange"): ["0 0.7"], ("adhesion", "ctrlrange"): ["0 0.7"],
    ("*", "tendon"): ["t1"], ("*", "site"): ["s2"], ("*", "joint"): ["j2"],
    ("orientation", "joint"): ["j3"], ("orientation", "site"): None, ("orientation", "input"): ["quat", "expmap"],
    ("pid", "input"): ["pos", "pos vel", "pos vel ff"], ("dcmotor", "input"): ["voltage", "pos", "none"],
    ("muscle", "timeconst"): ["0.02 0.05"], ("muscle", "range"): ["0.7 1.1"], ("muscle", "force"): ["100"], ("muscle", "scale"): ["300"],
    ("muscle", "lmin"): ["0.4"], ("muscle", "lmax"): ["1.7"], ("muscle", "vmax"): ["1.2"], ("muscle", "fpmax"): ["1.4"], ("muscle", "fvmax"): ["1.3"],
    ("muscle", "tausmooth"): ["0.1"], ("muscle", "joint"): ["j2"], ("muscle", "tendon"): ["t1"],
    ("cylinder", "timeconst"): ["0.5"], ("cylinder", "area"): ["2"], ("cylinder", "diameter"): ["0.5"], ("cylinder", "bias"): ["0.1 0.2 0.3"],
    ("adhesion", "gain"): ["2"], ("adhesion", "body"): ["b2"],
    ("dcmotor", "motorconst"): ["0.06", "0.06 0.07"], ("dcmotor", "resistance"): ["3"], ("dcmotor", "nominal"): ["12 1 100", "12"],
    ("dcmotor", "saturation"): ["1 2 3", "1"], ("dcmotor", "inductance"): ["0.001", "0.001 0.002"], ("dcmotor", "cogging"): ["0.01 6 0.1", "0.01"],
    ("dcmotor", "controller"): [([("controller", "1 0.1 0.01 2 3 0.5"), ("input", "pos")], []), ([("controller", "1"), ("input", "pos")], [])], ("dcmotor", "thermal"): ["1 100 25 0.004 0.001 20", "1"],
    ("dcmotor", "lugre"): ["1000 30 0.1 0.2 0.3", "1000"],
    ("actuator_plugin", "plugin"): None, ("actuator_plugin", "instance"): None, ("actuator_plugin", "actdim"): None,
    ("actuator_plugin", "dyntype"): None, ("actuator_plugin", "dynprm"): None,
    ("rangefinder", "data"): ["dist dir", "dist", "origin point normal depth"], ("rangefinder", "camera"): None, ("rangefinder", "site"): ["s2"],
    ("*", "cutoff"): ["5"], ("*", "noise"): ["0.01"], ("*", "objtype"): None, ("*", "objname"): None,
    ("sensor_contact", "data"): ["found force", "force torque dist pos normal tangent"], ("sensor_contact", "reduce"): ["mindist", "maxforce", "netforce"],
    ("sensor_contact", "num"): ["2"], ("sensor_contact", "geom1"): ["g2"], ("sensor_contact", "geom2"): ["g3"], ("sensor_contact", "body1"): None,
    ("sensor_contact", "body2"): ["b3"], ("sensor_contact", "subtree1"): None, ("sensor_contact", "subtree2"): ["b3"], ("sensor_contact", "site"): None,
    ("distance", "geom1"): ["g2"], ("distance", "geom2"): ["g2"], ("distance", "body1"): None, ("distance", "body2"): None,
    ("normal", "geom1"): ["g2"], ("normal", "geom2"): ["g2"], ("normal", "body1"): None, ("normal", "body2"): None,
    ("fromto", "geom1"): ["g2"], ("fromto", "geom2"): ["g2"], ("fromto", "body1"): None, ("fromto", "body2"): None,
    ("user", "dim"): ["3"], ("user", "datatype"): ["positive", "axis", "quaternion"], ("user", "needstage"): ["pos", "vel"],
    ("tactile", "geom"): ["g2"], ("tactile", "mesh"): None,
    ("insidesite", "site"): ["s2"], ("camprojection", "site"): ["s2"], ("camprojection", "camera"): None,
    ("sensor_plugin", "plugin"): None, ("sensor_plugin", "instance"): None,
    ("numeric", "size"): ["5"], ("numeric", "data"): ["4 5"], ("text", "data"): ["bye"],
    ("element", "objtype"): [([("objtype", "site"), ("objname", "s2")], [])], ("element", "objname"): [([("objtype", "geom"), ("objname", "g2")], [])], ("element", "prm"): ["0.25"],
    ("key", "time"): ["1.5"], ("key", "qpos"): ["0.1 0.2 0.5 0.5 0.5 0.5"], ("key", "qvel"): ["0.1 0.2 0.3 0.4 0.5"],
    ("key", "act"): None, ("key", "mpos"): ["0.1 1 1"], ("key", "mquat"): ["0.5 0.5 0.5 0.5"], ("key", "ctrl"): ["0.3"],
    ("extension_plugin", "plugin"): None, ("plugin", "plugin"): None, ("plugin", "instance"): None,
    ("config", "key"): None, ("config", "value"): ["0.2"], ("instance", "name"): ["instx"],
    ("mujoco", "model"): ["renamed"], ("default", "class"): None,
    ("lengthrange", "mode"): ["none", "muscleuser", "all"],
}

# one-off attribute combinations that need a companion attribute on the same element
COMPANION = {
    ("camera", "sensorsize"): ([("sensorsize", "0.02 0.015"), ("resolution", "64 48")], None),
    ("camera", "focal"): ([("focal", "0.03 0.03"), ("sensorsize", "0.02 0.015"), ("resolution", "64 48")], None),
    ("camera", "focalpixel"): ([("focalpixel", "90 80"), ("sensorsize", "0.02 0.015"), ("resolution", "64 48")], None),
    ("camera", "principal"): ([("principal", "0.001 0.002"), ("sensorsize", "0.02 0.015"), ("resolution", "64 48")], None),
    ("camera", "principalpixel"): ([("principalpixel", "2 3"), ("sensorsize", "0.02 0.015"), ("resolution", "64 48")], None),
    ("camera", "target"): ([("target", "b3"), ("mode", "targetbody")], None),
    ("light", "target"): ([("target", "b3"), ("mode", "targetbody")], None),
    ("geom", "hfield"): ([("hfield", "hf1"), ("type", "hfield")], ["size"]),
    ("geom", "mesh"): ([("mesh", "m1"), ("type", "mesh")], ["size"]),
    ("geom", "fitscale"): ([("fitscale", "1.2"), ("mesh", "m1"), ("type", "box")], ["size"]),
    ("mesh", "builtin"): ([("builtin", "sphere"), ("params", "1")], ["vertex"]),
    ("mesh", "params"): ([("builtin", "cone"), ("params", "8 0.5")], ["vertex"]),
    ("texture", "gridlayout"): ([("gridlayout", ".U"), ("gridsize", "1 2"), ("type", "cube")], None),
    ("body", "mocap"): ([("mocap", "true")], None),
    ("connect", "site1"): ([("site1", "s1"), ("site2", "s3")], ["body1", "body2", "anchor"]),
    ("connect", "site2"): ([("site1", "s2"), ("site2", "s3")], ["body1", "body2", "anchor"]),
    ("weld", "site1"): ([("site1", "s1"), ("site2", "s3")], ["body1", "body2", "anchor", "relpose"]),
    ("weld", "site2"): ([("site1", "s2"), ("site2", "s3")], ["body1", "body2", "anchor", "relpose"]),
    ("flexstrain", "cell"): ([("cell", "0 0 0")], None),
    ("general", "cranksite"): ([("cranksite", "s1"), ("slidersite", "s3"), ("cranklength", "0.8")], ["joint"]),
    ("general", "slidersite"): ([("cranksite", "s2"), ("slidersite", "s3"), ("cranklength", "0.8")], ["joint"]),
    ("general", "cranklength"): ([("cranksite", "s1"), ("slidersite", "s3"), ("cranklength", "0.9")], ["joint"]),
    ("general", "refsite"): ([("site", "s1"), ("refsite", "s3")], ["joint"]),
    ("general", "jointinparent"): ([("jointinparent", "j2")], ["joint"]),
    ("general", "tendon"): ([("tendon", "t1")], ["joint"]),
    ("general", "site"): ([("site", "s1")], ["joint"]),
    ("general", "body"): ([("body", "b1")], ["joint"]),
    ("general", "input"): ([("input", "quat"), ("gaintype", "so3"), ("biastype", "so3"), ("joint", "j3"), ("gainprm", "2"), ("biasprm", "0 -2 -0.3")], None),
    ("rangefinder", "camera"): ([("camera", "cam1")], ["site"]),
    ("sensor_contact", "body1"): ([("body1", "b1")], ["geom1"]),
    ("sensor_contact", "subtree1"): ([("subtree1", "b1")], ["geom1"]),
    ("sensor_contact", "site"): ([("site", "s1")], ["geom1"]),
    ("distance", "body1"): ([("body1", "b2")], ["geom1"]), ("distance", "body2"): ([("body2", "b2")], ["geom2"]),
    ("normal", "body1"): ([("body1", "b2")], ["geom1"]), ("normal", "body2"): ([("body2", "b2")], ["geom2"]),
    ("fromto", "body1"): ([("body1", "b2")], ["geom1"]), ("fromto", "body2"): ([("body2", "b2")], ["geom2"]),
    ("key", "act"): None,
    ("attach", "frame"): ([("frame", "cf")], ["body"]),
    ("inertial", "fullinertia"): ([("fullinertia", "0.02 0.03 0.04 0.001 0.002 -0.001")], ["diaginertia"]),
    ("joint", "springdamper"): ([("springdamper", "0.5 0.7")], None),
    ("composite_joint", "type"): None, ("composite_joint", "axis"): None,
    ("user", "objtype"): ([("objtype", "body"), ("objname", "b2")], None),
    ("user", "objname"): ([("objtype", "site"), ("objname", "s2")], None),
    ("sensor_plugin", "objtype"): None, ("sensor_plugin", "objname"): None,
    ("sensor_plugin", "reftype"): ([("reftype", "body"), ("refname", "b3")], None),
    ("sensor_plugin", "refname"): ([("reftype", "site"), ("refname", "s3")], None),
}

ACT_COMPANION = {
    "cranksite": ([("cranksite", "s1"), ("slidersite", "s3"), ("cranklength", "0.8")], ["joint"]),
    "slidersite": ([("cranksite", "s2"), ("slidersite", "s3"), ("cranklength", "0.8")], ["joint"]),
    "cranklength": ([("cranksite", "s1"), ("slidersite", "s3"), ("cranklength", "0.9")], ["joint"]),
    "refsite": ([("site", "s1"), ("refsite", "s3")], ["joint"]),
    "site": ([("site", "s1")], ["joint"]),
    "tendon": ([("tendon", "t1")], ["joint"]),
    "jointinparent": ([("jointinparent", "j3")], ["joint"]),
}

FRAMEOBJ = {"objtype": ["site", "body", "xbody", "geom", "camera"], "objname": {"site": "s2", "body": "b2", "xbody": "b2", "geom": "g2", "camera": "cam1"}}


def values_for(elname, a):
    """Ordered candidate values (strings) for attribute `a` of element `elname`; the first that
    loads is used.  Enums return every keyword (each is tried separately by the callers)."""
    S, sc = schema()
    if (elname, a.name) in VALUE_OVERRIDE:
        v = VALUE_OVERRIDE[(elname, a.name)]
        return list(v) if v else []
    if ("*", a.name) in VALUE_OVERRIDE:
        v = VALUE_OVERRIDE[("*", a.name)]
        if v is None:
            return []
        first = v[0]
        numeric_attr = a.type in ("double", "float", "int")
        if isinstance(first, tuple):
            return list(v)
        else:
            tok = first.split()[0]
            looks_num = tok.lstrip("-").replace(".", "", 1).replace("e-", "", 1).isdigit()
            if looks_num == numeric_attr and a.type not in ("enum", "bool", "flags"):
                lo, hi = arity(a)
                n = len(first.split())
                if not numeric_attr or ((hi is None or n <= hi) and n >= lo):
                    return list(v)
    lo, hi = arity(a)
    t = a.type
    if t == "bool":
        d = a.default
        return ["false" if d == "true" else "true", "true" if d == "true" else "false"]
    if t == "enum":
        kws = sc.enums[a.target].keywords()
        return [k for k in kws if k != a.default] + [k for k in kws if k == a.default]
    if t == "flags":
        kws = sc.enums[a.target].keywords()
        return [kws[0], " ".join(kws[:2]), " ".join(kws)]
    if t == "ref":
        return list(REFS.get(a.target, []))[::-1] or []
    if t == "id":
        return ["named_%s" % a.name]
    if t in ("string", "file"):
        return ["txt"]
    if t == "chars":
        return ["xyz"]
    base_f = ["0.37", "0.21", "0.53", "0.11", "0.29", "0.41", "0.17"]
    base_i = ["2", "3", "1", "4", "5", "6", "7"]
    base = base_i if t == "int" else base_f
    out = []
    if hi is None:
        out.append(" ".join(base[:3]))
        out.append(" ".join(base[:2]))
    else:
        for n in sorted({hi, lo}, reverse=True):
            if n >= 1:
                out.append(" ".join((base * 3)[:n]))
    return out


# ------------------------------------------------------------------ case enumeration


def attr_cases_of(parent, child, ctx):
    """Attribute cases of one schema edge: dicts with the candidate settings (sets, deletes)."""
    alist = projected_attrs(child) if ctx == "default" else attrs_of(child)
    for a in alist:
        cands = []
        comp = COMPANION.get((child, a.name), "none")
        if ctx == "default" and comp not in ("none", None):
            pa = {x.name for x in alist}
            if any(k not in pa for k, _ in comp[0]):
                comp = "none"
        if comp == "none" and parent == "actuator" and a.name in ACT_COMPANION and child not in ("orientation", "adhesion"):
            comp = ACT_COMPANION[a.name]
        if comp is None:
            cands = []
        elif comp != "none":
            cands.append((list(comp[0]), list(comp[1] or [])))
        if comp == "none" or comp is not None:
            if a.name in ("objtype", "objname") and (child.startswith("frame") or child == "insidesite"):
                for ot in FRAMEOBJ["objtype"]:
                    cands.append(([("objtype", ot), ("objname", FRAMEOBJ["objname"][ot])], []))
            elif comp == "none":
                for v in values_for(child, a):
                    cands.append(v if isinstance(v, tuple) else ([(a.name, v)], []))
        yield dict(parent=parent, child=child, ctx=ctx, attr=a.name, type=a.type, target=a.target,
                   enum=(a.type == "enum"), cands=cands, default=a.default)


def attr_cases():
    """Every (parent, child, ctx, attribute) of the schema graph with its candidate settings."""
    seen = set()
    for parent, child, card, ctx in edges():
        if (parent, child, ctx) in seen:
            continue
        seen.add((parent, child, ctx))
        yield from attr_cases_of(parent, child, ctx)


def apply_setting(node, setting):
    sets, dels = setting
    for d in dels:
        node.delete(d)
    for k, v in sets:
        node.set(k, v)


def make_vfs(lib, files=None):
    """A VFS holding FILES (+ extra files); returns (handle-address, ctypes buffer keeping it alive)."""
    import ctypes
    size = lib.c.vg_sizeof(b"mjVFS")
    buf = ctypes.create_string_buffer(max(size, 64))
    lib.mj_defaultVFS(buf)
    allf = dict(FILES)
    if files:
        allf.update(files)
    for name, text in allf.items():
        b = text.encode() if isinstance(text, str) else text
        lib.mj_addBufferVFS(buf, name.encode(), b, len(b))
    return buf
