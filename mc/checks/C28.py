"""C28 Sensors report the quantities they are documented to measure.

Part A  every sensor type with a closed-form definition x every legal attachment object x reference-frame type x cutoff, on
        trees with <= 2 bodies (hinge/slide/ball/free/weld), state lattice incl. controls and external forces; independent
        recomputation from mjData frames and their finite differences along the flow.
Part B  contact models: touch, force/torque with contacts, contact sensor.
Part C  slice isolation: sentinel fill, trailing canary, each sensor alone == all sensors together (bit-exact), adr/dim layout.
Part D  history attributes (nsample / delay / interval): documented read semantics on clock/jointpos, neighbours undisturbed.
"""
import math

import numpy as np

from .. import alphabet as A
from .. import core, mj
from . import _c28_models as M
from . import _c28_ref as R

LEVEL = "exploration"
META = dict(
    category=LEVEL,
    technique="exhaustive enumeration of sensor type x attachment object x reference frame x cutoff on a small-scope model/state "
              "lattice, with an independent recomputation (frames + finite differences along the flow, Newton-Euler sums, closed forms)",
    text="All sensor types with a closed-form definition are attached to every legal object type and read in every reference-frame type "
         "on all listed 1-2 body trees at a covering state lattice; each reading is recomputed without cvel/cacc/cfrc (positions from "
         "mjData frames, velocities/accelerations as first/second differences of those frames along q(+)ev, v+e*qacc, force/torque "
         "from Newton-Euler sums over the subtree). Cutoff clamping, slice layout, sentinel/canary and alone-vs-together bit-equality "
         "are checked for every sensor. Exhaustive over the lattice, so a wrong frame, sign or index for one object/reference "
         "combination cannot hide.",
    note="Trusted: mj_kinematics/mj_comPos/mj_camlight frames (C07), mj_ray (C16), mj_geomDistance (C13/C15), mj_contactForce and "
         "efc_force of limit rows (C10/C11), actuator_length/velocity/force and qfrc_actuator (C27). Not covered: tactile (SDF), plugin "
         "and user-callback sensors, camera rangefinder depth images, contact-sensor netforce reduction, cubic interpolation of delayed "
         "reads, sleeping.",
    design_ref="DESIGN.md §3 C28")

TOL_POS = 1e-9
TOL_VEL = 1e-6
TOL_ACC = 2e-5

K_DIST_CLAMP = ("distance sensor: a penetration deeper than -cutoff is clamped to -cutoff (documented: cutoff is the maximum detection "
                "distance of mj_geomDistance and the value returned when nothing is detected)")
K_LINACC_G = ("framelinacc reports acceleration minus gravity (proper acceleration); documented: 'linear acceleration of the spatial "
              "frame of the object, in global coordinates'")


MINIMAL = {
    "K_LINACC_G": dict(xml='<mujoco><worldbody><body name="b"><joint type="slide" axis="1 0 0"/><geom size="0.1"/></body></worldbody><sensor>'
                           '<framelinacc objtype="xbody" objname="b"/></sensor></mujoco>', call="mj_forward",
                       observed="qacc = 0 and sensordata = [0, 0, 9.81] for a body at rest on a horizontal slide joint",
                       documented="linear acceleration of the frame in global coordinates = [0, 0, 0] (only the accelerometer is documented "
                                  "to include gravity)"),
    "K_DIST_CLAMP": dict(xml='<mujoco><worldbody><geom name="a" size="0.5"/><geom name="b" size="0.5" pos="0.3 0 0"/></worldbody><sensor>'
                             '<distance geom1="a" geom2="b" cutoff="0.4"/></sensor></mujoco>', call="mj_forward",
                         observed="sensordata = [-0.4]", documented="smallest signed distance -0.7 (mj_geomDistance with distmax=0.4 returns -0.7)"),
}


def names_of(lib, m):
    out = {}
    for ot, code, n in (("body", 1, m.nbody), ("joint", 3, m.njnt), ("geom", 5, m.ngeom), ("site", 6, m.nsite), ("camera", 7, m.ncam),
                        ("tendon", 18, m.ntendon), ("actuator", 19, m.nactuator), ("sensor", 20, m.nsensor)):
        for i in range(n):
            nm = m.name(code, i)
            if nm:
                out[(ot, nm)] = i
    return out


CAMS = {"c0": (64, 48, 50.0), "c1": (64, 48, 70.0), "cw": (80, 60, 45.0)}


class Dyn:
    """per-body dynamic quantities from finite differences of the inertial frames."""

    def __init__(self, St):
        m = St.m
        nb = m.nbody
        self.nb = nb
        self.mass = np.array(m.body_mass)
        self.c = St.s0.pos["body"]
        self.Rm = St.s0.mat["body"]
        self.v = np.array([St.linvel("body", b) for b in range(nb)])
        self.w = np.array([St.angvel("body", b) for b in range(nb)])
        self.a = np.array([St.linacc("body", b) for b in range(nb)])
        self.al = np.array([St.angacc("body", b) for b in range(nb)])
        self.I = np.array([self.Rm[b] @ np.diag(m.body_inertia[b]) @ self.Rm[b].T for b in range(nb)])
        par = np.array(m.body_parentid)
        self.sub = []
        for b in range(nb):
            S = []
            for k in range(nb):
                x = k
                while x != 0 and x != b:
                    x = int(par[x])
                if x == b:
                    S.append(k)
            self.sub.append(S)


def ray_hits_volume(stype, size, spos, smat, p, dirv):
    """does the ray p + t dirv (t >= 0) meet the (convex) site volume?  box (6) and ellipsoid (4)."""
    o = smat.T @ (p - spos)
    dv = smat.T @ dirv
    if stype == 6:
        t0, t1 = 0.0, float("inf")
        for k in range(3):
            if abs(dv[k]) < 1e-300:
                if abs(o[k]) > size[k]:
                    return False
                continue
            a, b = (-size[k] - o[k]) / dv[k], (size[k] - o[k]) / dv[k]
            if a > b:
                a, b = b, a
            t0, t1 = max(t0, a), min(t1, b)
        return t0 <= t1
    if stype == 4:
        o2, d2 = o / size, dv / size
        A_, B_, C_ = d2 @ d2, 2 * (o2 @ d2), o2 @ o2 - 1
        disc = B_ * B_ - 4 * A_ * C_
        if disc < 0:
            return False
        return (-B_ + math.sqrt(disc)) / (2 * A_) >= 0
    raise ValueError(stype)


def external_wrenches(lib, m, d, names):
    """list of (body, force, torque, point) in the world frame: xfrc_applied and contact forces."""
    out = []
    xf = np.array(d.xfrc_applied)
    xi = np.array(d.xipos)
    for b in range(1, m.nbody):
        if np.any(xf[b]):
            out.append((b, xf[b, :3], xf[b, 3:], xi[b]))
    con = d.contact
    for k in range(int(d.ncon)):
        c = con[k]
        if int(c["efc_address"]) < 0:
            continue
        f = np.zeros(6)
        lib.mj_contactForce(m, d, k, f)
        fr = np.array(c["frame"]).reshape(3, 3)
        F = fr.T @ f[:3]
        T = fr.T @ f[3:]
        b1, b2 = int(m.geom_bodyid[int(c["geom"][0])]), int(m.geom_bodyid[int(c["geom"][1])])
        p = np.array(c["pos"])
        out.append((b2, F, T, p))
        out.append((b1, -F, -T, p))
    return out


def expected(it, St, Dn, ext, part):
    """documented value of sensor `it` (None = excluded, with the reason counted)."""
    lib, m, d = St.lib, St.m, St.d
    k = it["kind"]
    tol = TOL_POS
    if k in ("framepos", "framequat", "frameaxis", "framelinvel", "frameangvel"):
        ot, on = it["obj"]
        i = St.oid(ot, on)
        r = it["ref"]
        if r is None:
            p, Rm = St.pos(ot, i), St.mat(ot, i)
            if k == "framepos":
                return p, tol
            if k == "framequat":
                return ("quat", Rm), tol
            if k == "frameaxis":
                return Rm[:, it["axis"]], tol
            if k == "framelinvel":
                return St.linvel(ot, i), TOL_VEL
            return St.angvel(ot, i), TOL_VEL
        rt, rn = r
        ri = St.oid(rt, rn)
        p0, R0 = St.rel(St.s0, ot, i, rt, ri)
        if k == "framepos":
            return p0, tol
        if k == "framequat":
            return ("quat", R0), tol
        if k == "frameaxis":
            return R0[:, it["axis"]], tol
        pp, Rp = St.rel(St.vp, ot, i, rt, ri)
        pm, Rmm = St.rel(St.vm, ot, i, rt, ri)
        if k == "framelinvel":
            return (pp - pm) / (2 * R.DEL), TOL_VEL          # velocity as seen from the (moving) reference frame
        return R.rotlog(Rp @ Rmm.T) / (2 * R.DEL), TOL_VEL
    if k in ("framelinacc", "frameangacc"):
        ot, on = it["obj"]
        i = St.oid(ot, on)
        return (St.linacc(ot, i) if k == "framelinacc" else St.angacc(ot, i)), TOL_ACC
    if k in ("accelerometer", "velocimeter", "gyro", "magnetometer"):
        s = St.oid("site", it["site"])
        Rs = St.mat("site", s)
        if k == "accelerometer":
            return Rs.T @ (St.linacc("site", s) - St.g), TOL_ACC          # linear acceleration including gravity, local coordinates
        if k == "velocimeter":
            return Rs.T @ St.linvel("site", s), TOL_VEL
        if k == "gyro":
            return Rs.T @ St.angvel("site", s), TOL_VEL
        return Rs.T @ np.array(m.opt.magnetic), tol
    if k in ("force", "torque"):
        s = St.oid("site", it["site"])
        b = int(m.site_bodyid[s])
        ps, Rs = St.pos("site", s), St.mat("site", s)
        if spatial_limit_active(m, d, St.oid("tendon", "ts")):
            part.add("excluded_spatial_tendon_force")
            return None, 0
        F = np.zeros(3)
        T = np.zeros(3)
        mag = 0.0                 # magnitude of the summands: the finite-difference noise scales with it, not with the (possibly cancelling) sum
        for kb in Dn.sub[b]:
            f = Dn.mass[kb] * (Dn.a[kb] - St.g)
            F += f
            t = Dn.I[kb] @ Dn.al[kb] + np.cross(Dn.w[kb], Dn.I[kb] @ Dn.w[kb]) + np.cross(Dn.c[kb] - ps, f)
            T += t
            mag += np.linalg.norm(f) + np.linalg.norm(t) + np.linalg.norm(Dn.I[kb] @ Dn.al[kb])
        for (eb, ef, et, ep) in ext:
            if eb in Dn.sub[b]:
                F -= ef
                T -= et + np.cross(ep - ps, ef)
                mag += np.linalg.norm(ef) + np.linalg.norm(et)
        # (F, T): wrench exerted by the parent on the child through the joint, about the site
        return ("wrench", Rs.T @ F if k == "force" else Rs.T @ T, mag), TOL_ACC
    if k == "touch":
        s = St.oid("site", it["site"])
        b = int(m.site_bodyid[s])
        stype, size = int(m.site_type[s]), np.array(m.site_size[s])
        ps, Rs = St.pos("site", s), St.mat("site", s)
        tot = 0.0
        con = d.contact
        for kc in range(int(d.ncon)):
            c = con[kc]
            if int(c["efc_address"]) < 0:
                continue
            b1, b2 = int(m.geom_bodyid[int(c["geom"][0])]), int(m.geom_bodyid[int(c["geom"][1])])
            if b not in (b1, b2):
                continue
            f = np.zeros(6)
            lib.mj_contactForce(m, d, kc, f)
            if f[0] <= 0:
                continue
            p = np.array(c["pos"])
            n = np.array(c["frame"][:3])
            if R.inside_margin(stype, size, ps, Rs, p) < 1e-9:
                part.add("boundary_excluded")
                return None, 0
            outward = -n if b == b2 else n
            ins = R.inside_site(stype, size, ps, Rs, p)
            if ins or ray_hits_volume(stype, size, ps, Rs, p, outward):
                tot += f[0]
                part.add("touch_contact_inside" if ins else "touch_contact_reprojected")
            else:
                part.add("touch_contact_outside_zone")
        return np.array([tot]), 1e-9
    if k == "rangefinder":
        s = St.oid("site", it["site"])
        ps, Rs = St.pos("site", s), St.mat("site", s)
        gid = np.zeros(1, np.int32)
        dist = lib.mj_ray(m, d, np.ascontiguousarray(ps), np.ascontiguousarray(Rs[:, 2]), None, True, int(m.site_bodyid[s]), gid, None)
        return np.array([dist]), tol
    if k == "camprojection":
        s = St.oid("site", it["site"])
        c = St.oid("camera", it["cam"])
        W, H, fovy = CAMS[it["cam"]]
        pc = St.mat("camera", c).T @ (St.pos("site", s) - St.pos("camera", c))
        if abs(pc[2]) < 1e-6:
            part.add("boundary_excluded")
            return None, 0
        f = 0.5 * H / math.tan(math.radians(fovy) / 2)
        depth = -pc[2]                     # cameras look along -z, x right, y up; pixel origin top-left
        return np.array([W / 2 + f * pc[0] / depth, H / 2 - f * pc[1] / depth]), 1e-8
    if k in ("jointpos", "jointvel", "jointactuatorfrc", "jointlimitpos", "jointlimitvel", "jointlimitfrc", "ballquat", "ballangvel"):
        j = St.oid("joint", it["jnt"])
        qa, da = int(m.jnt_qposadr[j]), int(m.jnt_dofadr[j])
        if k == "jointpos":
            return np.array([St.q[qa]]), tol
        if k == "jointvel":
            return np.array([St.v[da]]), tol
        if k == "jointactuatorfrc":
            return np.array([d.qfrc_actuator[da]]), tol
        if k == "ballquat":
            return ("quat", R.quat2mat(St.q[qa:qa + 4] / np.linalg.norm(St.q[qa:qa + 4]))), tol
        if k == "ballangvel":
            return St.v[da:da + 3], tol
        lo, hi = m.jnt_range[j]
        mg = float(m.jnt_margin[j])
        x = St.q[qa]
        return limit_value(k[len("jointlimit"):], x, St.v[da], lo, hi, mg, d, 3, j, part), tol      # mjCNSTR_LIMIT_JOINT = 3
    if k in ("tendonpos", "tendonvel", "tendonactuatorfrc", "tendonlimitpos", "tendonlimitvel", "tendonlimitfrc"):
        t = St.oid("tendon", it["ten"])
        L0, Lp, Lm = [tendon_length(St, snap, it["ten"]) for snap in (St.s0, St.vp, St.vm)]
        vel = (Lp - Lm) / (2 * R.DEL)
        if k == "tendonpos":
            return np.array([L0]), tol
        if k == "tendonvel":
            return np.array([vel]), TOL_VEL
        if k == "tendonactuatorfrc":
            tot = 0.0
            for a in range(m.nactuator):
                if int(m.actuator_trntype[a]) == 3 and int(m.actuator_trnid[a][0]) == t:
                    tot += float(d.actuator_force[a])
            return np.array([tot]), tol
        lo, hi = m.tendon_range[t]
        mg = float(m.tendon_margin[t])
        return limit_value(k[len("tendonlimit"):], L0, vel, lo, hi, mg, d, 4, t, part), TOL_VEL          # mjCNSTR_LIMIT_TENDON = 4
    if k in ("actuatorpos", "actuatorvel", "actuatorfrc"):
        a = it["act"]
        src = {"actuatorpos": d.actuator_length, "actuatorvel": d.actuator_velocity, "actuatorfrc": d.actuator_force}[k]
        return np.array([src[a]]), tol
    if k in ("subtreecom", "subtreelinvel", "subtreeangmom"):
        b = St.oid("body", "b%d" % it["body"])
        S = Dn.sub[b]
        M_ = float(np.sum(Dn.mass[S]))
        C = np.sum(Dn.mass[S, None] * Dn.c[S], axis=0) / M_
        if k == "subtreecom":
            return C, tol
        V = np.sum(Dn.mass[S, None] * Dn.v[S], axis=0) / M_
        if k == "subtreelinvel":
            return V, TOL_VEL
        L = np.zeros(3)
        for kb in S:
            L += Dn.I[kb] @ Dn.w[kb] + Dn.mass[kb] * np.cross(Dn.c[kb] - C, Dn.v[kb] - V)
        return L, TOL_VEL
    if k == "e_potential":
        E = -float(np.sum(Dn.mass[:, None] * Dn.c @ St.g))
        for j in range(m.njnt):
            kk = float(m.jnt_stiffness[j])
            if kk and int(m.jnt_type[j]) in (2, 3):
                qa = int(m.jnt_qposadr[j])
                E += 0.5 * kk * (St.q[qa] - float(m.qpos_spring[qa])) ** 2
        return np.array([E]), tol
    if k == "e_kinetic":
        E = 0.0
        for b in range(1, Dn.nb):
            E += 0.5 * Dn.mass[b] * Dn.v[b] @ Dn.v[b] + 0.5 * Dn.w[b] @ Dn.I[b] @ Dn.w[b]
        E += 0.5 * float(np.sum(np.array(m.dof_armature) * St.v ** 2))
        return np.array([E]), TOL_VEL
    if k == "clock":
        return np.array([d.time]), tol
    if k == "user":
        return np.zeros(it["dim"]), 0.0        # no callback installed: the slot is cleared
    if k == "insidesite":
        ot, on = it["obj"]
        i = St.oid(ot, on)
        s = St.oid("site", it["site"])
        stype, size = int(m.site_type[s]), np.array(m.site_size[s])
        if R.inside_margin(stype, size, St.pos("site", s), St.mat("site", s), St.pos(ot, i)) < 1e-9:
            part.add("boundary_excluded")
            return None, 0
        return np.array([R.inside_site(stype, size, St.pos("site", s), St.mat("site", s), St.pos(ot, i))]), 0.0
    if k == "contact":
        return contact_sensor(it, St, Dn, part), 1e-9
    if k in ("distance", "normal", "fromto"):
        def geoms(o):
            if o[0] == "geom":
                return [St.oid("geom", o[1])]
            b = St.oid("body", o[1])
            return list(range(int(m.body_geomadr[b]), int(m.body_geomadr[b]) + int(m.body_geomnum[b])))
        cut = it["cutoff"]
        best, bft = cut, np.zeros(6)
        for g1 in geoms(it["o1"]):
            for g2 in geoms(it["o2"]):
                ft = np.zeros(6)
                dd = lib.mj_geomDistance(m, d, g1, g2, cut, ft)
                if dd < best:
                    best, bft = dd, ft
        if k == "distance":
            return np.array([best]), tol
        if k == "fromto":
            return bft, tol
        nrm = bft[3:] - bft[:3]
        nn = np.linalg.norm(nrm)
        return (nrm / nn if nn > 0 else nrm), tol
    raise KeyError(k)


def contact_sensor(it, St, Dn, part):
    """documented contact sensor: matching (intersection of criteria), reduction (none/mindist/maxforce), extraction."""
    lib, m, d = St.lib, St.m, St.d
    crit = it["crit"]
    o1 = o2 = None
    for key in ("geom1", "body1", "subtree1", "site"):
        if key in crit:
            o1 = (key.rstrip("1"), crit[key])
    for key in ("geom2", "body2", "subtree2"):
        if key in crit:
            o2 = (key.rstrip("2"), crit[key])

    def involved(o, geom, body, pos):
        if o is None:
            return True
        t, name = o
        if t == "geom":
            return geom == St.oid("geom", name)
        if t == "body":
            return body == St.oid("body", name)
        if t == "subtree":
            return body in Dn.sub[St.oid("body", name)]
        return True           # site: tested separately on the contact position
    rows = []
    con = d.contact
    for j in range(int(d.ncon)):
        c = con[j]
        g = [int(c["geom"][0]), int(c["geom"][1])]
        b = [int(m.geom_bodyid[x]) for x in g]
        pos = np.array(c["pos"])
        if o1 and o1[0] == "site":
            s = St.oid("site", o1[1])
            st, sz = int(m.site_type[s]), np.array(m.site_size[s])
            if R.inside_margin(st, sz, St.pos("site", s), St.mat("site", s), pos) < 1e-9:
                part.add("boundary_excluded")
                return None
            if not R.inside_site(st, sz, St.pos("site", s), St.mat("site", s), pos):
                continue
        m11, m12 = involved(o1, g[0], b[0], pos), involved(o1, g[1], b[1], pos)
        m21, m22 = involved(o2, g[0], b[0], pos), involved(o2, g[1], b[1], pos)
        if not (m11 or m12) or not (m21 or m22):
            continue
        flip = False
        det1 = o1 is not None and o1[0] != "site"
        if det1 and o2 is not None:
            reg, rev = m11 and m22, m12 and m21
            if not reg and not rev:
                continue
            flip = rev and not reg
        elif o2 is not None and o1 is not None:       # site + second object: the normal points towards the second object
            flip = m21 and not m22
        elif det1:
            flip = not m11                              # the normal points away from the first object
        elif o2 is not None:
            flip = not m22                              # the normal points towards the second object
        f = np.zeros(6)
        lib.mj_contactForce(m, d, j, f)
        fr = np.array(c["frame"]).reshape(3, 3)
        force, torque = f[:3].copy(), f[3:].copy()
        nrm, tan = fr[0].copy(), fr[1].copy()
        if flip:
            force[2] *= -1
            torque[2] *= -1
            nrm, tan = -nrm, -tan
        rows.append(dict(force=force, torque=torque, dist=float(c["dist"]), pos=pos, normal=nrm, tangent=tan,
                         crit_dist=float(c["dist"]), crit_force=-float(f[:3] @ f[:3])))
    n = len(rows)
    if it["reduce"] != "none" and n > 1:
        key = "crit_dist" if it["reduce"] == "mindist" else "crit_force"
        rows.sort(key=lambda r: r[key])
        vals = [r[key] for r in rows]
        lim = min(it["num"], n)
        for a in range(lim):
            for b2 in range(a + 1, n):
                if abs(vals[a] - vals[b2]) <= 1e-9 * (1 + abs(vals[a])):
                    part.add("boundary_excluded")       # tie in the sorting criterion: the order is not specified
                    return None
    out = []
    for k in range(it["num"]):
        if k < n:
            r = rows[k]
            out += [float(n)] + list(r["force"]) + list(r["torque"]) + [r["dist"]] + list(r["pos"]) + list(r["normal"]) + list(r["tangent"])
        else:
            out += [0.0] * 17
    part.add("contact_sensor_matches_%d" % min(n, 4))
    return np.array(out)


def limit_value(what, x, xdot, lo, hi, margin, d, ctype, objid, part):
    """documented limit sensors: pos = efc_pos - efc_margin = distance - margin (0 if the limit is not active),
    vel = constraint velocity, frc = constraint force of the limit row."""
    dl, du = x - lo, hi - x
    dist, sign = (dl, 1.0) if dl <= du else (du, -1.0)
    if abs(dist - margin) < 1e-9:
        part.add("boundary_excluded")
        return None
    active = dist < margin
    if what == "pos":
        return np.array([dist - margin if active else 0.0])
    if what == "vel":
        return np.array([sign * xdot if active else 0.0])
    f = 0.0
    if active:
        et, ei = np.array(d.efc_type), np.array(d.efc_id)
        rows = np.nonzero((et == ctype) & (ei == objid))[0]
        if len(rows) == 0:
            return np.array([float("nan")])
        f = float(d.efc_force[rows[0]])
    return np.array([f])


def spatial_limit_active(m, d, tid):
    """the spatial tendon pulls on the bodies directly (not through the joint): the engine attributes that force to the joints"""
    et, ei = np.array(d.efc_type), np.array(d.efc_id)
    fr = np.array(d.efc_force)
    for r in np.nonzero((et == 4) & (ei == tid))[0]:
        if fr[r] != 0:
            return True
    return False


def tendon_length(St, snap, name):
    m = St.m
    if name == "tf":
        t = St.oid("tendon", "tf")
        adr, num = int(m.tendon_adr[t]), int(m.tendon_num[t])
        coefs = (1.3, -0.7)
        return float(sum(coefs[k] * snap.q[int(m.jnt_qposadr[int(m.wrap_objid[adr + k])])] for k in range(num)))
    pts = [snap.pos["site"][St.oid("site", s)] for s in St.info["spatial_sites"]]
    return float(sum(np.linalg.norm(pts[k + 1] - pts[k]) for k in range(len(pts) - 1)))


def apply_cutoff(it, val):
    c = it["cutoff"]
    if c <= 0 or it["kind"] in ("distance", "normal", "fromto"):
        return val
    if it["kind"] in ("touch", "insidesite"):
        return np.minimum(val, c)
    return np.clip(val, -c, c)


# ====================================================================== Part A/B

def state_lattice(lib, m, info, thorough):
    if info["contact"]:
        # free root near the floor: resting flat-ish / tilted / deeper; child hinge alphabet
        qs = []
        # last entry: body orientation = inverse of g0's local orientation, so the box lies flat on its -z face
        for (z, quat) in ((0.115, (0.8, 0.2, -0.4, 0.4)), (0.10, (1, 0, 0, 0)), (0.09, (0.9, 0.3, 0.1, -0.2)), (0.13, (0.5, 0.5, 0.5, 0.5)),
                          (0.115, (0.9, -0.1, -0.3, 0.2))):
            qn = np.array(quat, float) / np.linalg.norm(quat)
            for h in (A.SCALAR_Q if m.nq > 7 else [None]):
                q = np.array(m.qpos0)
                q[0:3] = [0.2, 0.1, z]
                q[3:7] = qn
                if h is not None:
                    q[7] = h
                qs.append(q)
        vs = [np.zeros(m.nv), np.array([0.3 * ((-1) ** i) * (1 + 0.3 * i) for i in range(m.nv)])]
        return [(q, v, qi, vi) for qi, q in enumerate(qs) for vi, v in enumerate(vs)]
    qs = A.qpos_lattice(m, limit=9 if thorough else 4)
    if not thorough:
        qs = qs[:4]
    vs = [np.zeros(m.nv), np.array([0.7 * ((-1) ** i) * (1 + 0.3 * i) for i in range(m.nv)])]
    out = []
    for qi, q in enumerate(qs):
        for vi, v in enumerate(vs):
            out.append((q, v, qi, vi))
    return out


def set_state(m, d, q, v, pert):
    d.qpos[:] = q
    d.qvel[:] = v
    d.time = 0.75
    if m.nu:
        d.ctrl[:] = [0.6 * (-1) ** i for i in range(m.nu)]
    xf = np.zeros((m.nbody, 6))
    d.qfrc_applied[:] = 0
    if pert:
        xf[m.nbody - 1] = [0.7, -0.4, 1.1, 0.2, 0.3, -0.5]
        d.qfrc_applied[:] = [0.3 * (-1) ** i for i in range(m.nv)]
    d.xfrc_applied[:] = xf


def check_model(lib, part, spec, thorough):
    shape, j0, j1, contact = spec
    world_body, opt, sections, info = M.build(shape, j0, j1, contact=contact)
    S = M.sensor_list(info)
    xml = M.mjcf(world_body, opt, sections, S.xml())
    m = lib.load_xml(xml)
    d = lib.make_data(m)
    scratch = lib.make_data(m)
    names = names_of(lib, m)
    label = "%s %s %s%s" % (shape, j0, j1, " contact" if contact else "")
    rp0 = {"model": [shape, j0, j1, contact]}
    part.add("sensors_compiled", len(S.items))
    part.add("pruned_by_schema", S.pruned)
    # ---- layout
    adr = np.array(m.sensor_adr)
    dim = np.array(m.sensor_dim)
    if m.nsensor != len(S.items) + 1 or not np.array_equal(adr, np.concatenate([[0], np.cumsum(dim)[:-1]])) or m.nsensordata != int(dim.sum()):
        part.violation("sensor_adr/sensor_dim/nsensordata inconsistent", label, rp0)
        return
    sign_seen = {}
    for (q, v, qi, vi) in state_lattice(lib, m, info, thorough):
        for pert in (0, 1):
            lib.mj_resetData(m, d)
            set_state(m, d, q, v, pert)
            d.sensordata[:] = np.nan            # sentinel: every slot must be written
            lib.mj_forward(m, d)
            sd = np.array(d.sensordata)
            rp = dict(rp0, qpos=q, qvel=v, perturbed=pert)
            if np.any(np.isnan(sd)):
                k = int(np.nonzero(np.isnan(sd))[0][0])
                si = int(np.searchsorted(adr, k, side="right") - 1)
                part.violation("sensordata slot not written [%s]" % S.items[min(si, len(S.items) - 1)]["tag"], "%s: slot %d (sensor %d) still holds the sentinel" % (label, k, si), rp)
            if sd[-1] != 0.75:
                part.violation("trailing canary sensor overwritten", "%s: canary %r" % (label, sd[-1]), rp)
            St = R.State(lib, m, d, scratch, names)
            St.info = info
            Dn = Dyn(St)
            ext = external_wrenches(lib, m, d, names)
            for si, it in enumerate(S.items):
                got = sd[adr[si]:adr[si] + dim[si]]
                try:
                    exp, tol = expected(it, St, Dn, ext, part)
                except Exception as e:      # reference failure is a harness problem
                    raise RuntimeError("reference failed for %s %s: %r" % (it["tag"], it["attrs"], e))
                part.count(1)
                if exp is None:
                    continue
                compare(part, it, got, exp, tol, label, rp, sign_seen, qi, vi, pert)
    d.free()
    scratch.free()
    m.free()
    return S, xml


def compare(part, it, got, exp, tol, label, rp, sign_seen, qi, vi, pert):
    tag = it["tag"]
    key_obj = "%s %s" % (tag, it["attrs"])
    nontrivial = None
    if isinstance(exp, tuple) and exp[0] == "quat":
        ok = R.quat_close(got, exp[1], 1e-9)
        if not ok:
            part.violation("%s: quaternion does not represent the documented (relative) orientation [%s]" % (tag, obj_class(it)),
                           "%s %s: engine %s" % (label, key_obj, got.tolist()), dict(rp, sensor=key_obj))
        part.count(0, key="%s|%s" % (label, key_obj))
        return
    if isinstance(exp, tuple) and exp[0] == "wrench":
        val = exp[1]
        # sign convention ("from the child towards the parent"): decided once per sensor type, must then hold everywhere
        c = it["cutoff"]
        scale = 1 + np.max(np.abs(val)) + exp[2]
        for sgn in (1.0,):
            e = apply_cutoff(it, sgn * val)
            if np.max(np.abs(got - e)) <= tol * scale * 5:
                if np.max(np.abs(val)) > 1e-3 * scale and not (c and np.all(np.abs(val) >= c)):
                    sign_seen.setdefault(tag, set()).add(sgn)
                    part.add("%s_sign_%s" % (tag, "plus" if sgn > 0 else "minus"))
                    if len(sign_seen[tag]) > 1:
                        part.violation("%s sensor: sign convention not consistent" % tag, "%s %s" % (label, key_obj), dict(rp, sensor=key_obj))
                part.count(0, key="%s|%s" % (label, key_obj))
                return
        part.violation("%s: differs from the Newton-Euler interaction wrench of the subtree [%s]" % (tag, obj_class(it)),
                       "%s %s: engine %s reference +-%s" % (label, key_obj, got.tolist(), apply_cutoff(it, val).tolist()), dict(rp, sensor=key_obj))
        return
    exp = np.atleast_1d(np.asarray(exp, float))
    if np.any(np.isnan(exp)):
        part.violation("%s: limit constraint row missing although the limit is active" % tag, "%s %s" % (label, key_obj), dict(rp, sensor=key_obj))
        return
    e2 = apply_cutoff(it, exp)
    scale = 1 + np.max(np.abs(exp))
    err = float(np.max(np.abs(got - e2)))
    if err > tol * scale:
        if it["kind"] == "distance" and it["cutoff"] > 0 and np.max(np.abs(got - np.clip(exp, -it["cutoff"], it["cutoff"]))) <= tol * scale:
            part.violation(K_DIST_CLAMP, "%s %s cutoff=%g: engine %s, mj_geomDistance %s" % (label, key_obj, it["cutoff"], got.tolist(), exp.tolist()),
                           dict(rp, sensor=key_obj, cutoff=it["cutoff"], minimal=MINIMAL["K_DIST_CLAMP"]))
            return
        if it["kind"] == "framelinacc":
            alt = apply_cutoff(it, exp - np.array(rp.get("gravity", [0, 0, -9.81])))
            if np.max(np.abs(got - alt)) <= tol * scale:
                part.violation(K_LINACC_G, "%s %s: engine %s, d2(pos)/dt2 = %s" % (label, key_obj, got.tolist(), exp.tolist()),
                               dict(rp, sensor=key_obj, minimal=MINIMAL["K_LINACC_G"]))
                return
        part.violation("%s: differs from its documented quantity [%s]" % (tag, obj_class(it)),
                       "%s %s cutoff=%g: engine %s reference %s (err %.3g)" % (label, key_obj, it["cutoff"], got.tolist(), e2.tolist(), err),
                       dict(rp, sensor=key_obj))
    elif np.any(exp != 0):
        part.count(0, key="%s|%s|%g" % (label, key_obj, it["cutoff"]),
                   sample=dict(rp, sensor=key_obj, cutoff=it["cutoff"], value=got) if (qi, vi, pert) == (1, 1, 1) and it["kind"] in ("framelinvel", "torque", "subtreeangmom") and it["cutoff"] == 0 else None)
    if it["cutoff"] > 0 and it["kind"] not in ("distance", "normal", "fromto") and np.any(np.abs(exp) > it["cutoff"]):
        part.add("cutoff_active")


def obj_class(it):
    o = it.get("obj")
    r = it.get("ref")
    s = ""
    if o:
        s += "obj=%s" % o[0]
    if "ref" in it:
        s += " ref=%s" % (r[0] if r else "none")
    if it.get("cutoff"):
        s += " cutoff"
    return s.strip() or "-"


def _chunk(chunk):
    lib = mj.load()
    part = core.Part()
    for kind, spec, thorough in chunk:
        try:
            if kind == "A":
                check_model(lib, part, spec, thorough)
            elif kind == "C":
                isolation_model(lib, part, spec, thorough)
            elif kind == "D":
                history_checks(lib, part)
        except mj.MjError as e:
            part.violation("engine error [%s]" % (spec,), "unexpected mju_error / compile error: %s" % e, {"spec": repr(spec)})
    return part


def work_items(thorough):
    items = []
    for (shape, j0, j1) in M.model_menu(thorough):
        items.append(("A", (shape, j0, j1, False), thorough))
    for (shape, j0, j1) in (("single", "free", None), ("chain", "free", "hinge"), ("chain", "free", "weld")):
        items.append(("A", (shape, j0, j1, True), thorough))
    iso = [("chain", "hinge", "ball", False), ("chain", "free", "hinge", True)]
    if thorough:
        iso = [(a, b, c, False) for (a, b, c) in M.model_menu(False)] + [("single", "free", None, True), ("chain", "free", "hinge", True)]
    for spec in iso:
        items.append(("C", spec, thorough))
    items.append(("D", None, thorough))
    return items


def run(ctx):
    mj.load()
    items = work_items(ctx.thorough)
    core.pmap(ctx, _chunk, items, nchunks=len(items))
    ctx.extra["work_items"] = len(items)
    ctx.extra["models_A"] = sum(1 for it in items if it[0] == "A")
    ctx.extra["models_isolation"] = sum(1 for it in items if it[0] == "C")
    ctx.rule = (
        "A: trees {single body; chain b0->b1; siblings} x joint menu (root hinge/slide/ball/free, child hinge/slide/ball/weld; %s) with an "
        "off-centre geom pair, a site and a camera per body plus world site/geom/camera, limits on scalar joints and tendons, joint and "
        "tendon actuators; sensor list = {framepos, framequat, frame[xyz]axis, framelinvel, frameangvel} x every object (body, xbody, geom, "
        "site, camera of each body) x reference {none, body, xbody, geom, site, camera on the other body, world site/geom/camera} x cutoff "
        "{0, 0.13} (cutoff on quaternion/axis sensors pruned: compile error), framelinacc/frameangacc x object x cutoff, accelerometer, "
        "velocimeter, gyro, magnetometer, force, torque, touch, rangefinder, camprojection (x 3 cameras) per site, jointpos/vel/actuatorfrc/"
        "limitpos/vel/frc, ballquat/angvel, tendonpos/vel/actuatorfrc/limitpos/vel/frc, actuatorpos/vel/frc, subtreecom/linvel/angmom, "
        "e_potential, e_kinetic, clock, user (cleared), insidesite x object x site, distance/normal/fromto x 3-7 geom/body pairs x cutoff "
        "{0, 0.4, 2.5}; contact models (free root on a plane) add touch zones incl. re-projection, and the contact sensor x 10-13 matching "
        "criteria x reduce {none, mindist, maxforce}. States: covering qpos lattice x {zero, mixed} velocity x {no, with} xfrc_applied/"
        "qfrc_applied, ctrl set, time 0.75. B/C: sentinel (NaN) fill and trailing canary in every evaluation; every sensor alone vs all "
        "together bit-exact on %d models. D: clock sensors with nsample/delay/interp/interval (8 cases, 16 steps) incl. the documented interval "
        "sequences; neighbours bit-identical. evaluation = one sensor in one (model, state); non-trivial = sensor with a non-zero documented value."
        % ("all combinations" if ctx.thorough else "11 combinations", ctx.extra["models_isolation"]))
    ctx.assumptions = [
        "frames from mj_kinematics/mj_comPos/mj_camlight on a scratch mjData (C07); velocities = central first differences (step 1e-6), "
        "accelerations = central second differences (step 1e-4) along q(+)(ev + e^2/2 qacc): thresholds 1e-6 / 2e-4 relative to 1+|value|, 1e-9 for "
        "position-level quantities",
        "force/torque: Newton-Euler sum over the subtree minus xfrc_applied and contact wrenches; sign fixed as 'wrench exerted by the parent on "
        "the child, about the site, in site coordinates' (the documentation's wording is ambiguous); states where the spatial tendon carries a "
        "limit force are excluded because that force acts on the bodies directly while the engine attributes it to the joints (counted)",
        "limit-force sensors are compared with efc_force of the limit row, rangefinder with mj_ray, distance sensors with mj_geomDistance, "
        "contact/touch forces with mj_contactForce (their correctness belongs to C10/C11/C13/C15/C16)",
        "ties in the contact-sensor sorting criterion and points on a site-volume boundary are excluded (counted)",
    ]


# ====================================================================== Part C: slice isolation

def isolation_model(lib, part, spec, thorough):
    """every sensor alone (plus the trailing canary) reads bit-identically to the same sensor inside the full list."""
    shape, j0, j1, contact = spec
    world_body, opt, sections, info = M.build(shape, j0, j1, contact=contact)
    S = M.sensor_list(info)
    label = "isolation %s %s %s%s" % (shape, j0, j1, " contact" if contact else "")
    mall = lib.load_xml(M.mjcf(world_body, opt, sections, S.xml()))
    dall = lib.make_data(mall)
    states = state_lattice(lib, mall, info, False)
    states = [states[1], states[-1]]
    adr = np.array(mall.sensor_adr)
    dim = np.array(mall.sensor_dim)
    ref = []
    for (q, v, qi, vi) in states:
        lib.mj_resetData(mall, dall)
        set_state(mall, dall, q, v, 1)
        lib.mj_forward(mall, dall)
        ref.append(np.array(dall.sensordata))
    # ---- each sensor computed into a private buffer with guard cells on both sides (engine-internal mj_computeSensor)
    import ctypes
    fn = lib.c.mj_computeSensor
    fn.argtypes = [ctypes.c_void_p, ctypes.c_void_p, ctypes.c_int, ctypes.c_void_p]
    fn.restype = None
    GUARD = 12345.678
    for si, (q, v, qi, vi) in enumerate(states):
        lib.mj_resetData(mall, dall)
        set_state(mall, dall, q, v, 1)
        lib.mj_forward(mall, dall)
        for k, it in enumerate(S.items):
            if it["kind"] == "user":
                continue
            n = int(dim[k])
            buf = np.full(n + 4, GUARD)
            fn(mall.ptr, dall.ptr, k, buf.ctypes.data + 16)
            part.count(1)
            if not (buf[0] == GUARD and buf[1] == GUARD and buf[-1] == GUARD and buf[-2] == GUARD):
                part.violation("sensor writes outside its own slice [%s]" % it["tag"], "%s %s %s: guard cells %s" % (
                    label, it["tag"], it["attrs"], [buf[0], buf[1], buf[-2], buf[-1]]), {"model": list(spec), "sensor": [it["tag"], it["attrs"], it["cutoff"]], "qpos": q})
            if not np.array_equal(buf[2:-2], ref[si][adr[k]:adr[k] + n]):
                part.violation("mj_computeSensor into a private buffer differs from the sensordata slice [%s]" % it["tag"],
                               "%s %s %s" % (label, it["tag"], it["attrs"]), {"model": list(spec), "sensor": [it["tag"], it["attrs"], it["cutoff"]], "qpos": q})
    for k, it in enumerate(S.items):
        m1 = lib.load_xml(M.mjcf(world_body, opt, sections, S.xml(subset={k})))
        d1 = lib.make_data(m1)
        if m1.nsensor != 2 or int(m1.sensor_dim[0]) != int(dim[k]) or int(m1.sensor_adr[1]) != int(dim[k]) or m1.nsensordata != int(dim[k]) + 1:
            part.violation("single-sensor model: sensor_adr/sensor_dim inconsistent [%s]" % it["tag"], "%s %s %s" % (label, it["tag"], it["attrs"]),
                           {"model": list(spec), "sensor": [it["tag"], it["attrs"], it["cutoff"]]})
        else:
            for si, (q, v, qi, vi) in enumerate(states):
                lib.mj_resetData(m1, d1)
                set_state(m1, d1, q, v, 1)
                d1.sensordata[:] = np.nan
                lib.mj_forward(m1, d1)
                got = np.array(d1.sensordata)
                exp = ref[si][adr[k]:adr[k] + dim[k]]
                part.count(1, key="%s|%d" % (label, k) if si == 0 else None)
                if not np.array_equal(got[:-1], exp) or got[-1] != 0.75:
                    part.violation("sensor alone differs from the same sensor among all sensors (bit-exact) [%s]" % it["tag"],
                                   "%s %s %s: alone %s, together %s, canary %r" % (label, it["tag"], it["attrs"], got[:-1].tolist(), exp.tolist(), got[-1]),
                                   {"model": list(spec), "sensor": [it["tag"], it["attrs"], it["cutoff"]], "qpos": q, "qvel": v})
        d1.free()
        m1.free()
    dall.free()
    mall.free()


# ====================================================================== Part D: history attributes

HIST_BODY = ('<body name="b0"><joint name="j0" type="hinge" axis="0 0 1"/><geom type="sphere" size="0.1"/>'
             '<site name="s0"/></body>')


def hist_xml(sensors, dt):
    return ('<mujoco><option timestep="%g" gravity="0 0 0"/><worldbody>%s</worldbody><sensor>%s</sensor></mujoco>' % (dt, HIST_BODY, sensors))


def run_hist(lib, xml, nstep, qvel=0.37):
    m = lib.load_xml(xml)
    d = lib.make_data(m)
    d.qvel[:] = qvel
    out = []
    for k in range(nstep):
        lib.mj_step(m, d)
        out.append(np.array(d.sensordata))
    d.free()
    m.free()
    return np.array(out)


def history_checks(lib, part):
    plain = '<jointpos name="p0" joint="j0"/><jointvel name="p1" joint="j0"/>%s<framepos name="p2" objtype="site" objname="s0"/><clock name="p3"/>'
    N = 16
    cases = []
    # (label, sensor xml, dt, expected(k) for the inserted sensor or None)
    for dt in (0.5,):
        for ns, dl, interp in ((3, 3.0, "zoh"), (3, 2.5, "zoh"), (3, 2.5, "linear"), (5, 2.0, "zoh"), (1, 1.0, "zoh")):
            delay = dl * dt

            def exp(k, dt=dt, ns=ns, dl=dl, interp=interp):
                t = k * dt
                if k <= ns:           # early samples involve the zero-initialised buffer: not compared
                    return None
                if interp == "linear":
                    return t - dl * dt
                return t - math.ceil(dl) * dt          # zero-order hold: latest sample at or before t - delay
            cases.append(("clock delay nsample=%d delay=%g*dt %s" % (ns, dl, interp),
                          '<clock name="h" nsample="%d" delay="%.17g" interp="%s"/>' % (ns, delay, interp), dt, exp))
        cases.append(("clock history-only nsample=4", '<clock name="h" nsample="4"/>', dt, lambda k, dt=dt: k * dt))
    # documented interval example: timestep 1, period 2.5 -> computed at 0,3,5,8,10,13; phase -1.5 -> 1,4,6,9,11,14
    for phase in (None, -1.5):
        start = 0.0 if phase is None else phase + 2.5
        times = [math.ceil(start + n * 2.5) for n in range(10)]          # continuous-time ticks rounded up to the timestep grid
        assert times[:6] == ([0, 3, 5, 8, 10, 13] if phase is None else [1, 4, 6, 9, 11, 14])       # the documented sequences

        def exp(k, times=times):
            done = [t for t in times if t <= k]
            return float(done[-1]) if done else 0.0
        iv = "2.5" if phase is None else "2.5 %g" % phase
        cases.append(("clock interval=%s" % iv, '<clock name="h" nsample="2" interval="%s"/>' % iv, 1.0, exp))
    for label, sx, dt, exp in cases:
        base = run_hist(lib, hist_xml(plain % "", dt), N)
        got = run_hist(lib, hist_xml(plain % sx, dt), N)
        rp = {"part": "D", "case": label, "xml": hist_xml(plain % sx, dt)}
        # neighbours undisturbed: slices before and after the inserted sensor are bit-identical to the model without it
        nb = np.concatenate([got[:, :2], got[:, 3:]], axis=1)
        part.count(N, key="history " + label)
        if not np.array_equal(nb, base):
            part.violation("sensor with history attributes disturbs its neighbours", label, rp)
        for k in range(N):
            e = exp(k)
            if e is None:
                continue
            if abs(got[k, 2] - e) > 1e-12:
                part.violation("history sensor: reading differs from the documented delay/interval semantics [%s]" % label.split(" nsample")[0].split("=")[0],
                               "%s: at step %d (time %g) sensordata %r, documented %r; sequence %s" % (label, k, k * dt, float(got[k, 2]), e, got[:, 2].tolist()), rp)
                break
