"""Proposed repairs for the genuine defects reported by C50 / C51 (NOT applied to /repo; kept here for the reviewer).

Validated in a scratch worktree (git worktree of /repo HEAD + this patch, VERIF_REPO=<worktree>): C51 exits 0 at the quick
tier (seeds 0, 1, 7) and C50 reports only 'spurious overflow: status set although the scene fits' (no small repair proposed
for that one); without the patch the checks report exactly the canonical keys listed below.

 key (C51)  pid plugin indexes ctrl/ctrlrange by actuator id, actuator_length/velocity/force by actuator id and scans m->nu
            actuators ...                                                  -> plugin/actuator/pid.cc (Create, GetCtrl, ActDot, Compute)
 key (C51)  actuator plugin with dyntype=filterexact: mj_nextActivation integrates the plugin-owned act slots with the
            exact-filter formula instead of Euler ...                      -> src/engine/engine_support.c: mj_nextActivation
 key (C51)  actuator plugin with actlimited: actrange clamps the plugin-owned act slots ...   -> same hunk
 key (C51)  pid README: the ki activation variable is documented as the I term in units of force ... -> plugin/actuator/README.md
 key (C51)  touch_grid plugin reads geom_bodyid[contact.geom] for every contact: flex contacts have geom = -1 ...
                                                                           -> plugin/sensor/touch_grid.cc: TouchGrid::Compute
 key (C50)  mjv_updateScene leaves mjData's stack unbalanced               -> src/engine/engine_vis_visualize.c: addFlexBvhGeoms
 (side finding, no property key) composite cable with count="3 1 1" (two bodies) is rejected: "body 'B_1' not found in
            bodypair"                                                      -> src/user/user_composite.cc: AddCableBody
"""

DIFF = r'''
diff --git a/plugin/actuator/README.md b/plugin/actuator/README.md
index a6b1e862d..4b880cd8f 100644
--- a/plugin/actuator/README.md
+++ b/plugin/actuator/README.md
@@ -41,7 +41,7 @@ The available options are:
 |Attribute | Default | Meaning |
 |----------|---------|---------|
 |`kp` | 0 | **P** gain for the controller. |
-|`ki` | 0 | **I** gain for the controller.<p/>If nonzero, one activation variable will be added to `mjData.act`, containing the current I term (in units of force). |
+|`ki` | 0 | **I** gain for the controller.<p/>If nonzero, one activation variable will be added to `mjData.act`, containing the integral of the error (the I term divided by `ki`). |
 |`kd` | 0 | **D** gain for the controller. |
 |`imax` | Optional | If specified, the force produced by the I term will be clipped to the range `[-imax, imax]`. |
 |`slewmax` | Optional | The maximum rate at which the setpoint for the PID controller can change.<p/>If a bigger change is requested between two timesteps, it will be clipped to the range `[ctrl - slewmax * dt, ctrl + slewmax * dt]`<p/>If specified, one activation variable will be added to `mjData.act` containing the previous value of `ctrl`. |
diff --git a/plugin/actuator/pid.cc b/plugin/actuator/pid.cc
index 4176fe4f5..8494e73bf 100644
--- a/plugin/actuator/pid.cc
+++ b/plugin/actuator/pid.cc
@@ -108,7 +108,7 @@ std::unique_ptr<Pid> Pid::Create(const mjModel* m, int instance) {
   }
 
   std::vector<int> actuators;
-  for (int i = 0; i < m->nu; i++) {
+  for (int i = 0; i < m->nactuator; i++) {
     if (m->actuator_plugin[i] == instance) {
       actuators.push_back(i);
     }
@@ -144,11 +144,13 @@ mjtNum Pid::GetCtrl(const mjModel* m, const mjData* d, int actuator_idx,
                     bool actearly) const {
   mjtNum ctrl = 0;
   if (m->actuator_dyntype[actuator_idx] == mjDYN_NONE) {
-    ctrl = d->ctrl[actuator_idx];
+    // controls (and their ranges) are addressed through actuator_ctrladr
+    int ctrladr = m->actuator_ctrladr[actuator_idx];
+    ctrl = d->ctrl[ctrladr];
     // clamp ctrl
-    if (m->actuator_ctrllimited[actuator_idx]) {
-      ctrl = mju_clip(ctrl, m->actuator_ctrlrange[2 * actuator_idx],
-                      m->actuator_ctrlrange[2 * actuator_idx + 1]);
+    if (m->actuator_ctrllimited[ctrladr]) {
+      ctrl = mju_clip(ctrl, m->actuator_ctrlrange[2 * ctrladr],
+                      m->actuator_ctrlrange[2 * ctrladr + 1]);
     }
   } else {
     // Use of act instead of ctrl, to create integrated-velocity controllers or
@@ -173,7 +175,7 @@ void Pid::ActDot(const mjModel* m, mjData* d, int instance) const {
   for (int actuator_idx : actuators_) {
     State state = GetState(m, d, actuator_idx);
     mjtNum ctrl = GetCtrl(m, d, actuator_idx, state, /*actearly=*/false);
-    mjtNum error = ctrl - d->actuator_length[actuator_idx];
+    mjtNum error = ctrl - d->actuator_length[m->actuator_outadr[actuator_idx]];
 
     int state_idx = m->actuator_actadr[actuator_idx];
     if (config_.i_gain) {
@@ -198,13 +200,15 @@ void Pid::Compute(const mjModel* m, mjData* d, int instance) {
     mjtNum ctrl =
         GetCtrl(m, d, actuator_idx, state, m->actuator_actearly[actuator_idx]);
 
-    mjtNum error = ctrl - d->actuator_length[actuator_idx];
+    // length, velocity and force are addressed through actuator_outadr
+    int outadr = m->actuator_outadr[actuator_idx];
+    mjtNum error = ctrl - d->actuator_length[outadr];
 
     mjtNum ctrl_dot = m->actuator_dyntype[actuator_idx] == mjDYN_NONE
                           ? 0
                           : d->act_dot[m->actuator_actadr[actuator_idx] +
                                        m->actuator_actnum[actuator_idx] - 1];
-    mjtNum error_dot = ctrl_dot - d->actuator_velocity[actuator_idx];
+    mjtNum error_dot = ctrl_dot - d->actuator_velocity[outadr];
 
     mjtNum integral = 0;
     if (config_.i_gain) {
@@ -215,7 +219,7 @@ void Pid::Compute(const mjModel* m, mjData* d, int instance) {
       }
     }
 
-    d->actuator_force[actuator_idx] = config_.p_gain * error +
+    d->actuator_force[outadr] = config_.p_gain * error +
                                       config_.d_gain * error_dot +
                                       config_.i_gain * integral;
   }
diff --git a/plugin/sensor/touch_grid.cc b/plugin/sensor/touch_grid.cc
index 044bccdd9..d0a67bc08 100644
--- a/plugin/sensor/touch_grid.cc
+++ b/plugin/sensor/touch_grid.cc
@@ -272,6 +272,10 @@ void TouchGrid::Compute(const mjModel* m, mjData* d, int instance) {
   int parent_body = m->body_weldid[m->site_bodyid[site_id]];
   int parent_weld = m->body_weldid[parent_body];
   for (int i = 0; i < d->ncon; i++) {
+    // flex contacts have no geoms (geom id -1)
+    if (d->contact[i].geom1 < 0 || d->contact[i].geom2 < 0) {
+      continue;
+    }
     int body1 = m->body_weldid[m->geom_bodyid[d->contact[i].geom1]];
     int body2 = m->body_weldid[m->geom_bodyid[d->contact[i].geom2]];
     if (body1 == parent_weld || body2 == parent_weld) {
@@ -296,6 +300,9 @@ void TouchGrid::Compute(const mjModel* m, mjData* d, int instance) {
   // Get forces and positions in spherical coordinates.
   int contact = 0;
   for (int i = 0; i < d->ncon; i++) {
+    if (d->contact[i].geom1 < 0 || d->contact[i].geom2 < 0) {
+      continue;
+    }
     int body1 = m->geom_bodyid[d->contact[i].geom1];
     int weld1 = m->body_weldid[body1];
     int body2 = m->geom_bodyid[d->contact[i].geom2];
diff --git a/src/engine/engine_support.c b/src/engine/engine_support.c
index bbfb47aee..e12e86196 100644
--- a/src/engine/engine_support.c
+++ b/src/engine/engine_support.c
@@ -708,6 +708,13 @@ mjtNum mj_nextActivation(const mjModel* m, const mjData* d,
   mjtNum act = d->act[act_adr];
   int dyntype = m->actuator_dyntype[actuator_id];
 
+  // activations owned by an actuator plugin (all but the dyntype's own last slot): plain Euler, no actrange clamp
+  if (m->actuator_plugin[actuator_id] >= 0 &&
+      (dyntype == mjDYN_NONE ||
+       act_adr != m->actuator_actadr[actuator_id] + m->actuator_actnum[actuator_id] - 1)) {
+    return act + act_dot * m->opt.timestep;
+  }
+
   if (dyntype == mjDYN_FILTEREXACT) {
     // exact filter integration
     // act_dot(0) = (ctrl-act(0)) / tau
diff --git a/src/engine/engine_vis_visualize.c b/src/engine/engine_vis_visualize.c
index aa580fa4d..20e255ea8 100644
--- a/src/engine/engine_vis_visualize.c
+++ b/src/engine/engine_vis_visualize.c
@@ -1543,6 +1543,7 @@ static void addFlexBvhGeoms(const mjModel* m, mjData* d, const mjvOption* vopt,
     }
 
     // control points box
+    mj_markStack(d);
     mjtNum* xpos = mjSTACKALLOC(d, 3*m->flex_nodenum[f], mjtNum);
     int nstart = m->flex_nodeadr[f];
     int* bodyid = m->flex_nodebodyid + m->flex_nodeadr[f];
@@ -1599,6 +1600,7 @@ static void addFlexBvhGeoms(const mjModel* m, mjData* d, const mjvOption* vopt,
             if (!shell_mode || nb_boundary) {
               mjvGeom* thisgeom = acquireGeom(scn, i, mjCAT_DECOR, mjOBJ_UNKNOWN);
               if (!thisgeom) {
+                mj_freeStack(d);
                 return;
               }
               mjv_connector(thisgeom, mjGEOM_LINE, 3, xpos+offset, xpos+offset1);
@@ -1612,6 +1614,7 @@ static void addFlexBvhGeoms(const mjModel* m, mjData* d, const mjvOption* vopt,
             if (!shell_mode || nb_boundary) {
               mjvGeom* thisgeom = acquireGeom(scn, i, mjCAT_DECOR, mjOBJ_UNKNOWN);
               if (!thisgeom) {
+                mj_freeStack(d);
                 return;
               }
               mjv_connector(thisgeom, mjGEOM_LINE, 3, xpos+offset, xpos+offset2);
@@ -1625,6 +1628,7 @@ static void addFlexBvhGeoms(const mjModel* m, mjData* d, const mjvOption* vopt,
             if (!shell_mode || nb_boundary) {
               mjvGeom* thisgeom = acquireGeom(scn, i, mjCAT_DECOR, mjOBJ_UNKNOWN);
               if (!thisgeom) {
+                mj_freeStack(d);
                 return;
               }
               mjv_connector(thisgeom, mjGEOM_LINE, 3, xpos+offset, xpos+offset3);
@@ -1634,6 +1638,7 @@ static void addFlexBvhGeoms(const mjModel* m, mjData* d, const mjvOption* vopt,
         }
       }
     }
+    mj_freeStack(d);
   }
 }
 
diff --git a/src/user/user_composite.cc b/src/user/user_composite.cc
index dddd85e05..02a73787b 100644
--- a/src/user/user_composite.cc
+++ b/src/user/user_composite.cc
@@ -339,7 +339,11 @@ mjsBody* mjCComposite::AddCableBody(
   // create body, joint, and geom names
   if (first) {
     mju::sprintf_arr(this_body, "%sB_first", prefix.c_str());
-    mju::sprintf_arr(next_body, "%sB_%d", prefix.c_str(), ix + 1);
+    if (secondlast) {
+      mju::sprintf_arr(next_body, "%sB_last", prefix.c_str());
+    } else {
+      mju::sprintf_arr(next_body, "%sB_%d", prefix.c_str(), ix + 1);
+    }
     mju::sprintf_arr(this_joint, "%sJ_first", prefix.c_str());
     mju::sprintf_arr(txt_site, "%sS_first", prefix.c_str());
   } else if (last) {
'''
