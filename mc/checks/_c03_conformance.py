"""E5 for C03: TLC on models/ThreadPool.tla + conformance replay of an edge cover of its state
graph against the real engine_thread.cc under the controlled scheduler."""
import re
import subprocess

from .. import core, tlc

PROTO = {"load", "store", "rmw", "wait", "notify", "join"}


def _last(label):
    v = tlc.label_var(label, "last")
    m = re.match(r'<<(-?\d+), "(\w+)", (-?\d+)>>', v or "")
    return (int(m.group(1)), m.group(2), int(m.group(3))) if m else None


def _impl_ops(trace):
    """protocol ops of the implementation trace: (tid, kind, value) where value is the stored operand for
    store ops and the observed result for load / rmw / wait; join -> joined tid."""
    ops = []
    pending = {}
    for line in trace.splitlines():
        m = re.match(r"t(\d+):(\w+):o(\d+):(-?\d+)$", line)
        if not m:
            continue
        tid, kind, val = int(m.group(1)), m.group(2), int(m.group(4))
        if kind == "after":
            if tid in pending:
                i = pending.pop(tid)
                if ops[i][1] in ("load", "rmw", "wait"):
                    ops[i] = (ops[i][0], ops[i][1], val)
            continue
        if kind in PROTO:
            pending[tid] = len(ops)
            ops.append((tid, kind, val))
    return ops


def _replay(args):
    x, hist, paths = args
    part = core.Part()
    exps = [[s for s in path if s[1] in PROTO] for path in paths]
    inp = "".join(",".join(str(s[0]) for s in exp) + "\n" for exp in exps)
    r = subprocess.run([x, "forcedbatch", hist], input=inp, capture_output=True, text=True)
    blocks = r.stdout.split("#END\n")
    if len(blocks) < len(exps) + 1:
        part.violation("harness c03 conformance", "driver produced %d results for %d paths: %s" % (len(blocks) - 1, len(exps), r.stderr[-300:]), {})
        return part
    for exp, blk in zip(exps, blocks):
        tids = ",".join(str(s[0]) for s in exp)
        lines = blk.split("\n", 1)
        status = lines[0].replace("#STATUS ", "", 1).strip()
        trace = lines[1] if len(lines) > 1 else ""
        part["traces"] += 1
        part.add("model_paths_replayed", 1)
        part.add("model_steps_replayed", len(exp))
        if status != "OK":
            part.violation("conformance: implementation cannot follow a model behaviour",
                           "TLC path not executable on engine_thread.cc (%s): tids=%s" % (status[:300], tids),
                           {"history": hist, "tids": tids, "status": status})
            continue
        got = _impl_ops(trace)[: len(exp)]
        if len(got) < len(exp):
            part.violation("conformance: implementation trace shorter than the model path",
                           "impl performed %d protocol ops, model path has %d" % (len(got), len(exp)), {"history": hist, "tids": tids})
            continue
        for i, (e, g) in enumerate(zip(exp, got)):
            if e != g:
                part.violation("conformance: observation differs from the model",
                               "step %d: model %s, implementation %s (history %s, tids %s)" % (i, e, g, hist, tids),
                               {"history": hist, "tids": tids, "step": i, "model": e, "impl": g})
                break
    return part


def run(ctx, x):
    tier = "thorough" if ctx.thorough else "quick"
    ok, out, dot = tlc.run_tlc("ThreadPool", "ThreadPool_%s.cfg" % tier, "c03_" + tier)
    m = re.search(r"(\d+) states generated, (\d+) distinct states found", out)
    if not ok or not m:
        # the model is static: this can only happen if the model itself was edited (harness error)
        raise RuntimeError("TLC did not complete without error:\n" + out[-1500:])
    nodes, edges, init = tlc.parse_dot(dot)
    ctx.extra["tlc_distinct_states"] = int(m.group(2))
    ctx.extra["tlc_edges"] = len(edges)
    ctx.states += int(m.group(2))
    ctx.transitions += len(edges)
    lasts = {n: _last(lbl) for n, lbl in nodes.items()}
    paths = tlc.edge_cover(nodes, edges, init, skip=lambda u, v, a: u == v)
    steps = [[lasts[v] for (_, v, _) in p] for p in paths]
    hist = "c2,d3,d2" if ctx.thorough else "c2,d2"
    nchunk = 64
    chunks = [(x, hist, steps[i::nchunk]) for i in range(nchunk)]
    chunks = [c for c in chunks if c[2]]
    sub = core.Ctx(ctx.pid, ctx.tier, ctx.seed, ctx.level)
    core.pmap(sub, _wrap, chunks, nchunks=len(chunks))
    ctx.traces += sub.traces
    ctx.extra.update(sub.extra)
    ctx.extra["tlc_edge_cover_paths"] = len(paths)
    # A mismatch means the model no longer describes the code (model drift), not that the property is broken:
    # the deciding exploration of the real code is the E3 part.  The TLC result is then not claimed.
    ctx.extra["model_conformance_ok"] = not sub.violations
    if sub.violations:
        ctx.extra["model_conformance_first_mismatch"] = sub.violations[0][1][:400]
        print("NOTE C03: ThreadPool.tla does not conform to engine_thread.cc any more (%s); TLC result not claimed"
              % sub.violations[0][1][:200])
        ctx.states -= int(m.group(2))
        ctx.transitions -= len(edges)
    if steps and len(ctx.samples) < ctx.max_samples:
        ctx.samples.append({"tlc_path_as_thread_ids": [s[0] for s in steps[len(steps) // 2] if s[1] in PROTO][:40],
                            "history": hist})


def _wrap(chunk):
    total = core.Part()
    for item in chunk:
        p = _replay(item)
        total["traces"] += p["traces"]
        total["violations"] += p["violations"]
        for k, v in p["extra"].items():
            total["extra"][k] = total["extra"].get(k, 0) + v
    return total
