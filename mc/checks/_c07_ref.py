"""C07 helpers: model emission (forest x joint menu x offsets / constraint features) and an independent
numpy forward-kinematics reference written from the documentation (XMLreference: body/joint/geom/site/camera,
computation: kinematic tree).  Nothing here calls the engine's kinematics."""
from __future__ import annotations

import math

import numpy as np

from .. import alphabet as A

FREE, BALL, SLIDE, HINGE = 0, 1, 2, 3

# body "kinds": where the inertial frame sits (decides body_sameframe / body_simple and geom/site sameframe shortcuts)
#   S  explicit inertial at the body origin, identity orientation     -> body_sameframe BODY  (body_simple candidates)
#   G  inertia inferred from the geoms                                -> NONE
#   I  explicit inertial with offset + rotation, a geom and a site share that pose / that rotation -> INERTIA / INERTIAROT
#   R  explicit inertial with offset only                             -> BODYROT
KINDS = ["S", "G", "I", "R"]
# kind of body i under placement variant pv (two S bodies next to each other so that pairs of simple bodies exist)
KSEQ = [["S", "S", "I", "R"], ["G", "I", "S", "S"], ["R", "S", "G", "I"]]
IPOS = "0.04 -0.03 0.02"
IQUAT = "0.6 0.2 -0.5 0.3"
PT_LOCAL = np.array([0.11, -0.07, 0.05])                 # arbitrary body-fixed point for mj_jac / mj_jacDot / mj_jacPointAxis
AX_LOCAL = np.array([2.0, -1.0, 2.0]) / 3.0              # arbitrary body-fixed unit axis for mj_jacPointAxis


def scalar_joint_names(js):
    out = []
    for i, j in enumerate(js):
        for k, (jt, _) in enumerate(A.JOINTS[j]):
            if jt in ("hinge", "slide"):
                out.append("j%d_%d" % (i, k))
    return out


def build_xml(par, js, pv, feat):
    """MJCF for forest `par`, joint menu entries `js`, placement variant pv in {0,1,2}, feature set
    feat in {"plain", "dense", "sparse"} (the latter two add limits / equalities / tendons / contacts)."""
    n = len(par)
    cons = feat != "plain"
    kinds = [KSEQ[pv][i % 4] for i in range(n)]
    mocap = [(pv == 1 and par[i] == -1 and js[i] == "none" and not cons) for i in range(n)]
    extra = {}
    for i in range(n):
        k = kinds[i]
        s = ""
        if k == "S":
            s += '      <inertial pos="0 0 0" mass="%g" diaginertia="0.002 0.003 0.004"/>\n' % (0.7 + 0.2 * i)
        elif k == "I":
            s += '      <inertial pos="%s" quat="%s" mass="%g" diaginertia="0.002 0.003 0.004"/>\n' % (IPOS, IQUAT, 0.7 + 0.2 * i)
            s += '      <geom name="gi%d" type="box" size="0.02 0.03 0.01" pos="%s" quat="%s" contype="0" conaffinity="0"/>\n' % (i, IPOS, IQUAT)
            s += '      <geom name="gq%d" type="box" size="0.02 0.03 0.01" pos="0.01 0.02 0.03" quat="%s" contype="0" conaffinity="0"/>\n' % (i, IQUAT)
            s += '      <site name="si%d" pos="%s" quat="%s"/>\n' % (i, IPOS, IQUAT)
            s += '      <site name="sq%d" pos="-0.02 0.01 0.03" quat="%s"/>\n' % (i, IQUAT)
        elif k == "R":
            s += '      <inertial pos="%s" mass="%g" diaginertia="0.002 0.003 0.004"/>\n' % (IPOS, 0.7 + 0.2 * i)
        # geoms / sites on the body-frame shortcuts
        s += '      <geom name="gb%d" type="sphere" size="0.02" contype="0" conaffinity="0"/>\n' % i
        s += '      <geom name="gr%d" type="sphere" size="0.02" pos="-0.03 0.05 0.01" contype="0" conaffinity="0"/>\n' % i
        s += '      <site name="sb%d"/>\n' % i
        s += '      <site name="sr%d" pos="0.06 0.01 -0.02"/>\n' % i
        s += '      <camera name="c%d" pos="0.05 0.02 -0.04" quat="0.3 -0.5 0.7 0.1"/>\n' % i
        if i == 0:
            tgt = "b%d" % (n - 1)
            s += '      <camera name="ctr" mode="track" pos="0.1 0.2 0.3" quat="0.5 0.1 -0.3 0.6"/>\n'
            s += '      <camera name="ctc" mode="trackcom" pos="-0.1 0.2 0.25" quat="0.2 0.7 -0.3 0.1"/>\n'
            s += '      <camera name="ctb" mode="targetbody" target="%s" pos="0.3 -0.25 0.4"/>\n' % tgt
            s += '      <camera name="ctm" mode="targetbodycom" target="%s" pos="-0.35 0.2 0.45"/>\n' % tgt
        if cons:
            # colliding sphere (margin so large that every contact stays active over the whole lattice)
            # (body-dependent offset: bodies i and i+3 share the same frame, their spheres must not be concentric)
            s += ('      <geom name="gc%d" type="sphere" size="0.05" pos="%g -0.01 0.03" contype="1" conaffinity="1" '
                  'margin="20" condim="%d" friction="0.8 0.02 0.003"/>\n' % (i, 0.02 + 0.03 * i, [1, 3, 6][(i + pv) % 3]))
        extra[i] = s
    # joint attributes: a non-zero reference on scalar joints of odd bodies; limits / frictionloss with constraints
    jattr = []
    for i in range(n):
        a = ""
        jl = A.JOINTS[js[i]]
        scal = all(jt in ("hinge", "slide") for jt, _ in jl)
        if scal and (i + pv) % 2 == 1:
            a += ' ref="0.21"'
        if cons and jl and jl[0][0] != "free":
            if scal:
                a += ' limited="true" range="-0.5 0.6" margin="10"'
            elif jl[0][0] == "ball":
                a += ' limited="true" range="0 1.0" margin="10"'
            if feat == "sparse":
                a += ' frictionloss="0.1"'
        jattr.append(a)
    world_extra = ""
    sections = ""
    option = ""
    if cons:
        world_extra = ('    <geom name="floor" type="plane" size="1 1 0.1" pos="0 0 -0.8" contype="1" conaffinity="1" margin="20" condim="1"/>\n'
                       '    <site name="sw" pos="0.3 0.1 0.2" quat="0.9 0.1 -0.2 0.3"/>\n')
        option = A.option_elem(jacobian=feat, cone="elliptic" if feat == "dense" else "pyramidal")
        scal = scalar_joint_names(js)
        eq = ""
        last = n - 1
        eq += '    <connect name="e_cw" body1="b0" anchor="0.03 0.02 -0.01"/>\n'
        eq += '    <weld name="e_ww" body1="b%d" relpose="0.1 -0.05 0.02 0.8 0.1 -0.3 0.5" anchor="0.02 0.03 0.04" torquescale="0.7"/>\n' % last
        eq += '    <connect name="e_cs" site1="s%d" site2="sw"/>\n' % last
        if n >= 2:
            eq += '    <connect name="e_cb" body1="b%d" body2="b0" anchor="-0.02 0.04 0.03"/>\n' % last
            eq += '    <weld name="e_wb" body1="b0" body2="b%d" relpose="0.05 0.02 -0.03 0.7 -0.2 0.4 0.1" anchor="0.01 -0.02 0.05" torquescale="1.3"/>\n' % last
            eq += '    <weld name="e_ws" site1="s0" site2="sr%d" torquescale="0.4"/>\n' % last      # sites with different local frames
        ten = '    <spatial name="t_sp" limited="true" range="0.1 0.2" margin="10"%s><site site="s%d"/><site site="sw"/></spatial>\n' % (
            ' frictionloss="0.2"' if feat == "sparse" else "", last)
        if n >= 2:
            ten += '    <spatial name="t_sb" limited="true" range="0.1 0.2" margin="10"><site site="s0"/><site site="sr%d"/><site site="sw"/></spatial>\n' % last
        if len(scal) >= 1:
            eq += '    <joint name="e_j1" joint1="%s" polycoef="0.1 0 0 0 0"/>\n' % scal[0]
        if len(scal) >= 2:
            eq += '    <joint name="e_j2" joint1="%s" joint2="%s" polycoef="0.05 1.2 -0.7 0.3 0.2"/>\n' % (scal[-1], scal[0])
            ten += ('    <fixed name="t_fx" limited="true" range="-0.1 0.1" margin="10"><joint joint="%s" coef="1.3"/>'
                    '<joint joint="%s" coef="-0.7"/></fixed>\n' % (scal[0], scal[-1]))
            eq += '    <tendon name="e_t1" tendon1="t_fx" polycoef="0.02 0 0 0 0"/>\n'
            eq += '    <tendon name="e_t2" tendon1="t_sp" tendon2="t_fx" polycoef="0.1 0.8 0.5 -0.4 0.3"/>\n'
        sections = "  <tendon>\n%s  </tendon>\n  <equality>\n%s  </equality>\n" % (ten, eq)
    # mocap roots (plain feature only): body attribute must be injected into the body tag
    xml = A.tree_mjcf(par, list(js), axis=[(i + pv) % 3 for i in range(n)], anchor=[(i + pv) % 2 for i in range(n)],
                      frame=[(i + pv) % 3 for i in range(n)], geom=[A.GEOM_ORDER[(i + pv) % 5] for i in range(n)],
                      jattr=jattr, option=option, world_extra=world_extra, sections=sections, extra_in_body=extra)
    for i in range(n):
        if mocap[i]:
            xml = xml.replace('<body name="b%d" ' % i, '<body name="b%d" mocap="true" ' % i)
    return xml


# ------------------------------------------------------------------ reference forward kinematics

def skew(v):
    return np.array([[0, -v[2], v[1]], [v[2], 0, -v[0]], [-v[1], v[0], 0.0]])


def q2m(q):
    """Rotation matrix of a quaternion (normalised first): R = I + 2 w [v]x + 2 [v]x^2."""
    q = np.asarray(q, float)
    q = q / np.linalg.norm(q)
    K = skew(q[1:])
    return np.eye(3) + 2 * q[0] * K + 2 * (K @ K)


def rodrigues(axis, angle):
    K = skew(axis)
    return np.eye(3) + math.sin(angle) * K + (1 - math.cos(angle)) * (K @ K)


class ModelView:
    """Plain numpy copies of the compiled model arrays the reference needs (read once per model)."""

    def __init__(self, m):
        g = lambda name: np.array(getattr(m, name))
        self.nbody, self.nv, self.nq, self.njnt = m.nbody, m.nv, m.nq, m.njnt
        self.ngeom, self.nsite, self.ncam = m.ngeom, m.nsite, m.ncam
        for name in ("body_parentid", "body_rootid", "body_weldid", "body_jntadr", "body_jntnum", "body_dofadr", "body_dofnum",
                     "body_pos", "body_quat", "body_ipos", "body_iquat", "body_mass", "body_subtreemass", "body_mocapid",
                     "body_sameframe", "body_simple", "jnt_type", "jnt_qposadr", "jnt_dofadr", "jnt_pos", "jnt_axis", "jnt_bodyid",
                     "qpos0", "dof_bodyid", "dof_jntid", "dof_parentid"):
            setattr(self, name, g(name))
        for name in ("geom_bodyid", "geom_pos", "geom_quat", "geom_sameframe", "geom_type", "geom_size"):
            setattr(self, name, g(name) if m.ngeom else np.zeros((0,)))
        for name in ("site_bodyid", "site_pos", "site_quat", "site_sameframe"):
            setattr(self, name, g(name) if m.nsite else np.zeros((0,)))
        for name in ("cam_bodyid", "cam_pos", "cam_quat", "cam_mode", "cam_targetbodyid", "cam_mat0", "cam_pos0", "cam_poscom0"):
            setattr(self, name, g(name) if m.ncam else np.zeros((0,)))
        # constant local rotations (reference formula, computed once per model)
        self.body_R = np.array([q2m(x) for x in self.body_quat])
        self.body_iR = np.array([q2m(x) for x in self.body_iquat])
        self.geom_R = np.array([q2m(x) for x in self.geom_quat]).reshape(-1, 3, 3)
        self.site_R = np.array([q2m(x) for x in self.site_quat]).reshape(-1, 3, 3)
        self.cam_R = np.array([q2m(x) for x in self.cam_quat]).reshape(-1, 3, 3)


def ref_fk(mv: ModelView, qpos, mocap_pos=None, mocap_quat=None):
    """Reference forward kinematics.  Returns dict of world positions / rotation matrices."""
    nb = mv.nbody
    R = [np.eye(3) for _ in range(nb)]
    p = [np.zeros(3) for _ in range(nb)]
    xanchor = np.zeros((mv.njnt, 3))
    xaxis = np.zeros((mv.njnt, 3))
    for b in range(1, nb):
        par = mv.body_parentid[b]
        ja, jn = mv.body_jntadr[b], mv.body_jntnum[b]
        if jn == 1 and mv.jnt_type[ja] == FREE:
            a = mv.jnt_qposadr[ja]
            p[b] = np.array(qpos[a:a + 3])
            R[b] = q2m(qpos[a + 3:a + 7])
            xanchor[ja] = p[b]
            xaxis[ja] = mv.jnt_axis[ja]
            continue
        if mv.body_mocapid[b] >= 0:
            bp = mocap_pos[mv.body_mocapid[b]]
            bq = mocap_quat[mv.body_mocapid[b]]
        else:
            bp, bq = mv.body_pos[b], None
        Rb = R[par] @ (mv.body_R[b] if bq is None else q2m(bq))
        pb = p[par] + R[par] @ bp
        for j in range(ja, ja + jn):
            a = mv.jnt_qposadr[j]
            t = mv.jnt_type[j]
            axis_w = Rb @ mv.jnt_axis[j]
            anchor_w = pb + Rb @ mv.jnt_pos[j]
            if t == SLIDE:
                pb = pb + axis_w * (qpos[a] - mv.qpos0[a])
            elif t == HINGE:
                Rb = Rb @ rodrigues(mv.jnt_axis[j], qpos[a] - mv.qpos0[a])
                pb = anchor_w - Rb @ mv.jnt_pos[j]
            elif t == BALL:
                Rb = Rb @ q2m(qpos[a:a + 4])
                pb = anchor_w - Rb @ mv.jnt_pos[j]
            xanchor[j] = anchor_w
            xaxis[j] = axis_w
        R[b], p[b] = Rb, pb
    R = np.array(R)
    p = np.array(p)
    out = {"xpos": p, "xmat": R, "xanchor": xanchor, "xaxis": xaxis}
    out["xipos"] = p + np.einsum("bij,bj->bi", R, mv.body_ipos)
    out["ximat"] = R @ mv.body_iR
    out["xipos"][0] = 0
    out["ximat"][0] = np.eye(3)
    if mv.ngeom:
        gb = mv.geom_bodyid
        out["geom_xpos"] = p[gb] + np.einsum("gij,gj->gi", R[gb], mv.geom_pos)
        out["geom_xmat"] = R[gb] @ mv.geom_R
    if mv.nsite:
        sb = mv.site_bodyid
        out["site_xpos"] = p[sb] + np.einsum("gij,gj->gi", R[sb], mv.site_pos)
        out["site_xmat"] = R[sb] @ mv.site_R
    # subtree centre of mass
    mom = out["xipos"] * mv.body_mass[:, None]
    for b in range(nb - 1, 0, -1):
        mom[mv.body_parentid[b]] += mom[b]
    com = np.where(mv.body_subtreemass[:, None] > 1e-15, mom / np.maximum(mv.body_subtreemass[:, None], 1e-300), out["xipos"])
    out["subtree_com"] = com
    if mv.ncam:
        cb = mv.cam_bodyid
        cp = p[cb] + np.einsum("gij,gj->gi", R[cb], mv.cam_pos)
        cm = R[cb] @ mv.cam_R
        degenerate = np.zeros(mv.ncam, bool)
        for g in range(mv.ncam):
            mode = mv.cam_mode[g]
            if mode in (1, 2):       # track / trackcom: fixed global orientation, offset from body / subtree com
                cm[g] = mv.cam_mat0[g].reshape(3, 3)
                cp[g] = (p[cb[g]] + mv.cam_pos0[g]) if mode == 1 else (com[cb[g]] + mv.cam_poscom0[g])
            elif mode in (3, 4) and mv.cam_targetbodyid[g] >= 0:
                tgt = p[mv.cam_targetbodyid[g]] if mode == 3 else com[mv.cam_targetbodyid[g]]
                z = cp[g] - tgt
                nz = np.linalg.norm(z)
                x = np.cross([0, 0, 1.0], z / max(nz, 1e-300))
                if nz < 1e-6 or np.linalg.norm(x) < 1e-6:
                    degenerate[g] = True
                    continue
                z = z / nz
                x = x / np.linalg.norm(x)
                y = np.cross(z, x)
                cm[g] = np.stack([x, y / np.linalg.norm(y), z], axis=1)
        out["cam_xpos"], out["cam_xmat"], out["cam_degenerate"] = cp, cm, degenerate
    return out
