"""C47 System-identification inertia parameters are always physical.

Exhaustive over theta in grid^10 (log-Cholesky parameters alpha, d1..d3, s12,
s23, s13, t1..t3) plus axis points through the tree's
``python/mujoco/sysid/_src/model_modifier.py``:

  pi_from_theta -> positive mass, symmetric rotational inertia, triangle
      inequalities (about the body origin and about the centre of mass),
      agreement with an independent closed form written from the docstring;
  pseudoinertia_from_pi -> symmetric positive definite (Cholesky succeeds, all
      leading minors positive), equals exp(2 alpha) U U^T of the closed form;
  theta_from_pseudoinertia -> recovers theta;
  apply_body_theta_inertia on a one-body spec -> compiles, and the compiled
      body_mass / body_ipos / body_inertia+body_iquat reproduce the same
      inertial parameters; the same body is also compiled by the tree-built C
      library (from full-precision XML of the values the modifier wrote, and
      from spec.to_xml()).
"""
from __future__ import annotations

import importlib
import itertools
import math
import re
import sys
import types

import numpy as np

from .. import build, core

LEVEL = "exploration"
META = dict(
    category=LEVEL,
    technique="exhaustive enumeration of theta in a finite grid^10 (+ axis points); invariants, round trip, independent "
              "closed-form reference and differential compile (wheel MjSpec and tree-built C library)",
    text="All 3^10 = 59049 parameter vectors over {-2, 0, 1.5} (quick: 2^10 over {-1.5, 1}) plus 112 (quick 73) single- "
         "and pair-axis excursions up to +-4 (quick +-3) are pushed through pi_from_theta / pseudoinertia_from_pi / "
         "theta_from_pseudoinertia / apply_body_theta_inertia of the tree. Every vector is checked for positive mass, "
         "positive-definite pseudo-inertia, triangle inequalities, exact agreement with a closed form, round trip, and "
         "for compiled mass properties (binding compile and tree C library compile). The functions are smooth in theta, "
         "so a complete product grid that exercises every sign pattern of shear/translation and every size ordering of "
         "the diagonal reaches each term of each formula with distinct values.",
    note="Trusted base: numpy; the installed 3.13.0 binding's MjSpec (used by the tree's modifier itself to edit and "
         "compile the body) -- its result is cross-checked against the tree-built C library. theta outside [-4, 4]^10 is "
         "not enumerated (the compiler rejects inertia eigenvalues below mjEPS, which very negative alpha/d reach).",
    design_ref="DESIGN.md §3 C47")

XML = ('<mujoco><worldbody><body name="b" pos="0 0 1"><freejoint/>'
       '<geom type="box" size=".1 .2 .3" mass="1"/></body></worldbody></mujoco>')

# thresholds (scale-aware relative errors), fixed; see ctx.assumptions for the measured noise
TOL_CLOSED = 1e-12     # pi / J against the closed form (same arithmetic up to summation order; noise ~1e-16)
TOL_ROUNDTRIP = 1e-6   # theta round trip, |dtheta| / (1+|theta|); noise <= ~2e-9 on the lattice
TOL_COMPILED = 1e-3    # compiled inertial parameters; the compiler's Jacobi iteration stops at 1-cos < 1e-12 (noise ~3e-6)
TOL_XML6 = 2e-3        # tree compile of spec.to_xml() (6 significant digits)
TOL_TRI = 1e-12        # triangle inequality slack relative to the largest moment


# ------------------------------------------------------------------ tree import
def tree_sysid(name):
    import mujoco
    p = build.REPO + "/python/mujoco"
    if p not in mujoco.__path__:
        mujoco.__path__.insert(0, p)
    pk = sys.modules.get("mujoco.sysid")
    want = build.REPO + "/python/mujoco/sysid"
    if pk is None or list(getattr(pk, "__path__", [])) != [want]:
        for k in [k for k in sys.modules if k == "mujoco.sysid" or k.startswith("mujoco.sysid.")]:
            del sys.modules[k]
        pk = types.ModuleType("mujoco.sysid")
        pk.__path__ = [want]
        sys.modules["mujoco.sysid"] = pk
    for nm in ("colorama", "tabulate", "yaml"):
        if nm in sys.modules:
            continue
        try:
            importlib.import_module(nm)
        except ImportError:
            st = types.ModuleType(nm)
            if nm == "colorama":
                class _Blank:
                    def __getattr__(self, k):
                        return ""
                st.Fore = _Blank()
                st.Style = _Blank()
            if nm == "tabulate":
                st.tabulate = lambda *a, **k: ""
            sys.modules[nm] = st
    mod = importlib.import_module("mujoco.sysid._src." + name)
    assert mod.__file__.startswith(build.REPO + "/"), "%s imported from %s, not the tree" % (name, mod.__file__)
    return mod


# ------------------------------------------------------------------ reference (plain python floats, from the docstring)
def reference(theta):
    """-> (m, h[3], Ibar[3][3], J[4][4]) with J = e^{2a} U U^T, Sigma = J[:3,:3], Ibar = tr(Sigma) 1 - Sigma."""
    a, d1, d2, d3, s12, s23, s13, t1, t2, t3 = [float(v) for v in theta]
    e = math.exp(a)
    U = [[math.exp(d1), s12, s13, t1],
         [0.0, math.exp(d2), s23, t2],
         [0.0, 0.0, math.exp(d3), t3],
         [0.0, 0.0, 0.0, 1.0]]
    J = [[e * e * sum(U[i][k] * U[j][k] for k in range(4)) for j in range(4)] for i in range(4)]
    tr = J[0][0] + J[1][1] + J[2][2]
    Ibar = [[(tr if i == j else 0.0) - J[i][j] for j in range(3)] for i in range(3)]
    return J[3][3], [J[0][3], J[1][3], J[2][3]], Ibar, J


def relerr(a, b, scale):
    return float(np.max(np.abs(np.asarray(a, dtype=float) - np.asarray(b, dtype=float)))) / scale


def triangle_margin(I):
    """(min eigenvalue, e1+e2-e3, e3) of a symmetric 3x3."""
    ev = np.linalg.eigvalsh(0.5 * (I + I.T))
    return float(ev[0]), float(ev[0] + ev[1] - ev[2]), float(ev[2])


def skew(v):
    return np.array([[0.0, -v[2], v[1]], [v[2], 0.0, -v[0]], [-v[1], v[0], 0.0]])


def quat2mat(q):
    w, x, y, z = [float(v) for v in q]
    return np.array([[w * w + x * x - y * y - z * z, 2 * (x * y - w * z), 2 * (x * z + w * y)],
                     [2 * (x * y + w * z), w * w - x * x + y * y - z * z, 2 * (y * z - w * x)],
                     [2 * (x * z - w * y), 2 * (y * z + w * x), w * w - x * x - y * y + z * z]])


def pi_of_compiled(mass, ipos, inertia, iquat):
    """(m, h, Ibar about the body origin) from compiled body_mass/ipos/inertia/iquat."""
    R = quat2mat(iquat)
    Ic = R @ np.diag(np.asarray(inertia, dtype=float)) @ R.T
    S = skew(np.asarray(ipos, dtype=float))
    return float(mass), float(mass) * np.asarray(ipos, dtype=float), Ic - float(mass) * (S @ S)


def compare_compiled(tag, key_prefix, part, rep, m_ref, h_ref, I_ref, got, tol):
    m_c, h_c, I_c = got
    sc_h = max(float(np.max(np.abs(h_ref))), m_ref)
    sc_I = float(np.max(np.abs(I_ref)))
    e = max(abs(m_c - m_ref) / m_ref, relerr(h_c, h_ref, sc_h), relerr(I_c, I_ref, sc_I))
    part.add(tag + "_within_100x_of_tolerance", 1 if e > 0.01 * tol else 0)
    if not e <= tol:
        part.violation(key_prefix + ": compiled mass properties differ from pi_from_theta",
                       "%s: compiled (mass, mass*ipos, inertia about origin)=(%r, %s, %s) but pi_from_theta gives (%r, %s, %s); "
                       "relative error %.3g > %g; theta=%s" % (tag, m_c, np.asarray(h_c).tolist(), np.asarray(I_c).tolist(), m_ref,
                                                                np.asarray(h_ref).tolist(), np.asarray(I_ref).tolist(), e, tol,
                                                                rep["theta"]), rep)
    return e


_G = {}


def check_theta(theta, part):
    mm, mujoco, lib = _G["mm"], _G["mujoco"], _G["lib"]
    theta = np.array(theta, dtype=np.float64)
    rep = {"theta": theta.tolist(), "body_xml": XML,
           "call": "pi_from_theta / pseudoinertia_from_pi / theta_from_pseudoinertia / apply_body_theta_inertia(spec, 'b', theta)"}
    theta_in = theta.copy()
    part.count(1)
    nontrivial = bool(np.any(theta[4:7] != 0) and np.any(theta[7:10] != 0))
    if nontrivial:
        part["nontrivial_count"] += 1
        if len(part["samples"]) < 1:
            part["samples"].append({"theta": theta.tolist()})

    # ---- pi_from_theta
    try:
        pi = np.asarray(mm.pi_from_theta(theta), dtype=np.float64)
    except Exception as e:   # noqa: BLE001
        part.violation("pi_from_theta: raises", "pi_from_theta(%s) raised %r" % (theta.tolist(), e), rep)
        return
    if pi.shape != (13,) or not np.all(np.isfinite(pi)):
        part.violation("pi_from_theta: malformed result", "pi_from_theta(%s) -> shape %s / non-finite %s" % (theta.tolist(), pi.shape, pi.tolist()), rep)
        return
    m, h, I = float(pi[0]), pi[1:4].copy(), pi[4:].reshape(3, 3).copy()
    rep = dict(rep, pi=pi.tolist())
    m_ref, h_ref, I_ref, J_ref = reference(theta)
    h_ref, I_ref, J_ref = np.array(h_ref), np.array(I_ref), np.array(J_ref)
    if not m > 0:
        part.violation("pi_from_theta: mass not positive", "mass %r for theta=%s" % (m, theta.tolist()), rep)
    if not np.array_equal(I, I.T):
        part.violation("pi_from_theta: rotational inertia not symmetric", "I=%s for theta=%s" % (I.tolist(), theta.tolist()), rep)
    e = max(abs(m - m_ref) / m_ref, relerr(h, h_ref, max(float(np.max(np.abs(h_ref))), m_ref)), relerr(I, I_ref, float(np.max(np.abs(I_ref)))))
    if not e <= TOL_CLOSED:
        part.violation("pi_from_theta: differs from closed form e^{2a} U U^T",
                       "pi_from_theta(%s)=%s but the closed form gives m=%r h=%s I=%s (relative error %.3g)"
                       % (theta.tolist(), pi.tolist(), m_ref, h_ref.tolist(), I_ref.tolist(), e), rep)
    # triangle inequalities: about the origin and about the centre of mass
    c = h / m
    Sc = skew(c)
    Icom = I + m * (Sc @ Sc)
    for nm, M in (("origin", I), ("centre of mass", Icom)):
        e1, tri, e3 = triangle_margin(M)
        if not (e1 > 0 and tri >= -TOL_TRI * e3):
            part.violation("pi_from_theta: rotational inertia not physical",
                           "inertia about the %s has min eigenvalue %r, e1+e2-e3=%r (largest %r); theta=%s"
                           % (nm, e1, tri, e3, theta.tolist()), rep)
        part.add("triangle_strict", 1 if tri > 0 else 0)

    # ---- pseudoinertia_from_pi
    try:
        J = np.asarray(mm.pseudoinertia_from_pi(pi), dtype=np.float64)
    except Exception as e:   # noqa: BLE001
        part.violation("pseudoinertia_from_pi: raises", "raised %r for theta=%s" % (e, theta.tolist()), rep)
        return
    if J.shape != (4, 4) or not np.array_equal(J, J.T):
        part.violation("pseudoinertia_from_pi: not a symmetric 4x4", "J=%s for theta=%s" % (J.tolist(), theta.tolist()), rep)
        return
    e = relerr(J, J_ref, float(np.max(np.abs(J_ref))))
    if not e <= TOL_CLOSED * 100:   # Sigma = tr(I)/2 - I loses a few digits to cancellation
        part.violation("pseudoinertia_from_pi: differs from e^{2a} U U^T",
                       "J=%s but the closed form gives %s (relative error %.3g); theta=%s" % (J.tolist(), J_ref.tolist(), e, theta.tolist()), rep)
    pd = True
    try:
        np.linalg.cholesky(J)
    except np.linalg.LinAlgError:
        pd = False
    minors = [float(np.linalg.det(J[k:, k:])) for k in range(4)]   # trailing minors (the upper-Cholesky order)
    if not (pd and all(v > 0 for v in minors) and float(np.linalg.eigvalsh(J)[0]) > 0):
        part.violation("pseudoinertia_from_pi: pseudo-inertia not positive definite",
                       "cholesky ok=%s trailing minors=%s min eigenvalue=%r; theta=%s"
                       % (pd, minors, float(np.linalg.eigvalsh(J)[0]), theta.tolist()), rep)

    # ---- theta_from_pseudoinertia
    try:
        th2 = np.asarray(mm.theta_from_pseudoinertia(J), dtype=np.float64)
        e = float(np.max(np.abs(th2 - theta) / (1.0 + np.abs(theta)))) if th2.shape == (10,) and np.all(np.isfinite(th2)) else math.inf
    except Exception as ex:   # noqa: BLE001
        th2, e = repr(ex), math.inf
    part.add("roundtrip_within_100x_of_tolerance", 1 if e > 0.01 * TOL_ROUNDTRIP else 0)
    if not e <= TOL_ROUNDTRIP:
        part.violation("theta_from_pseudoinertia: round trip does not recover theta",
                       "theta=%s -> pi -> J -> %s (error %.3g > %g)" % (theta.tolist(), th2.tolist() if hasattr(th2, "tolist") else th2,
                                                                         e, TOL_ROUNDTRIP), dict(rep, theta_back=th2))

    # ---- apply_body_theta_inertia on a one-body spec, binding compile
    spec = mujoco.MjSpec.from_string(XML)
    try:
        out = mm.apply_body_theta_inertia(spec, "b", theta)
        body = spec.body("b")
        wrote = dict(mass=float(body.mass), ipos=[float(v) for v in body.ipos], fullinertia=[float(v) for v in body.fullinertia],
                     explicitinertial=bool(body.explicitinertial))
        model = spec.compile()
    except Exception as ex:   # noqa: BLE001
        part.violation("apply_body_theta_inertia: spec does not compile",
                       "apply_body_theta_inertia + compile raised %r for theta=%s" % (ex, theta.tolist()), rep)
        return
    if out is not spec:
        part.violation("apply_body_theta_inertia: does not return the spec", "returned %r" % (out,), rep)
    if not np.array_equal(theta, theta_in):
        part.violation("apply_body_theta_inertia: modifies theta", "theta changed to %s" % theta.tolist(), rep)
    rep = dict(rep, written=wrote)
    bid = 1
    got = pi_of_compiled(model.body_mass[bid], model.body_ipos[bid], model.body_inertia[bid], model.body_iquat[bid])
    compare_compiled("binding", "apply_body_theta_inertia", part, rep, m, h, I, got, TOL_COMPILED)
    pm = np.asarray(model.body_inertia[bid], dtype=float)
    if not (pm[2] > 0 and pm[1] + pm[2] >= pm[0] * (1 - 1e-9)):
        part.violation("apply_body_theta_inertia: compiled principal moments not physical",
                       "body_inertia=%s for theta=%s" % (pm.tolist(), theta.tolist()), rep)

    # ---- the same body through the tree-built C library (batched: see flush_tree)
    if lib is not None:
        f = wrote["fullinertia"]
        inertial_full = ('<inertial pos="%r %r %r" mass="%r" fullinertia="%r %r %r %r %r %r"/>'
                         % (wrote["ipos"][0], wrote["ipos"][1], wrote["ipos"][2], wrote["mass"], f[0], f[1], f[2], f[3], f[4], f[5]))
        mt = re.search(r"<inertial [^>]*/>", spec.to_xml())
        if mt is None:
            part.violation("apply_body_theta_inertia: saved XML has no inertial element", "to_xml()=%s" % spec.to_xml(), rep)
            return
        _G["pending"].append(dict(rep=rep, m=m, h=h, I=I, tri=triangle_margin(Icom), full=inertial_full, xml6=mt.group(0)))
        if len(_G["pending"]) >= BATCH:
            flush_tree(part)


BATCH = 32
BODY = '<body name="b%d" pos="0 0 1"><freejoint/>%s<geom type="box" size=".1 .2 .3" mass="1"/></body>'


def flush_tree(part):
    """Compile the pending bodies with the tree-built C library, BATCH bodies per model (one body per model if a batch
    is rejected, to attribute the error), from full-precision fullinertia and from the 6-digit inertial of to_xml()."""
    from .. import mj
    lib = _G["lib"]
    pending, _G["pending"] = _G["pending"], []
    if not pending:
        return
    for tag, field, tol in (("tree_full", "full", TOL_COMPILED), ("tree_to_xml", "xml6", TOL_XML6)):
        groups = [pending]
        while groups:
            grp = groups.pop()
            xml = "<mujoco><worldbody>" + "".join(BODY % (i, it[field]) for i, it in enumerate(grp)) + "</worldbody></mujoco>"
            try:
                tm = lib.load_xml(xml)
            except mj.MjError as ex:
                if len(grp) > 1:
                    groups.extend([it] for it in grp)
                    continue
                it = grp[0]
                # 6-digit XML of a nearly degenerate inertia may round across the compiler's A+B>=C test: spec boundary
                e1, tri, e3 = it["tri"]
                if tag == "tree_to_xml" and tri < 1e-4 * e3:
                    part.add("boundary_excluded")
                    continue
                part.violation("apply_body_theta_inertia: tree C library rejects the resulting body",
                               "%s: tree compile raised %s for theta=%s" % (tag, ex, it["rep"]["theta"]), dict(it["rep"], xml=xml))
                continue
            try:
                vals = [(float(tm.body_mass[i + 1]), tm.body_ipos[i + 1].copy(), tm.body_inertia[i + 1].copy(),
                         tm.body_iquat[i + 1].copy()) for i in range(len(grp))]
            finally:
                tm.free()
            for it, v in zip(grp, vals):
                compare_compiled(tag, "apply_body_theta_inertia (tree C library)", part, dict(it["rep"], inertial_xml=it[field]),
                                 it["m"], it["h"], it["I"], pi_of_compiled(*v), tol)
                part.add("tree_compiles")


def _setup():
    if "mm" in _G:
        return
    import mujoco
    _G["mujoco"] = mujoco
    _G["mm"] = tree_sysid("model_modifier")
    from .. import mj
    _G["lib"] = mj.load()
    _G["pending"] = []


def _chunk(chunk):
    _setup()
    part = core.Part()
    _G["pending"] = []
    for theta in chunk:
        check_theta(theta, part)
    flush_tree(part)
    return part


def lattice(thorough):
    vals = (-2.0, 0.0, 1.5) if thorough else (-1.5, 1.0)
    pts = list(itertools.product(vals, repeat=10))
    axis_vals = (-4.0, -3.0, -1.0, -0.5, 0.5, 1.0, 3.0, 4.0) if thorough else (-3.0, -0.5, 0.5, 3.0)
    extra = [tuple([0.0] * 10)]
    for i in range(10):
        for v in axis_vals:
            t = [0.0] * 10
            t[i] = v
            extra.append(tuple(t))
    # pairs: an extreme stretch with an extreme shear / translation, extreme scale with extreme stretch
    for i, j in ((1, 4), (1, 6), (2, 5), (3, 9), (0, 1), (0, 7), (4, 7), (6, 9)):
        for vi in (-3.0, 3.0):
            for vj in (-3.0, 3.0):
                t = [0.0] * 10
                t[i], t[j] = vi, vj
                extra.append(tuple(t))
    seen = set(pts)
    extra = [t for t in extra if not (t in seen or seen.add(t))]
    return pts + extra, vals, axis_vals, len(extra)


def run(ctx):
    _setup()
    pts, vals, axis_vals, nextra = lattice(ctx.thorough)
    core.pmap(ctx, _chunk, pts, nchunks=core.NCPU * 4)
    ctx.extra["grid_points"] = len(pts) - nextra
    ctx.extra["axis_and_pair_points"] = nextra
    ctx.extra["tree_module"] = _G["mm"].__file__
    ctx.extra.setdefault("boundary_excluded", 0)
    ctx.rule = ("theta = (alpha, d1, d2, d3, s12, s23, s13, t1, t2, t3) over the full product %r^10 (%d vectors) + %d axis/pair "
                "points (one coordinate in %r, or two coordinates in {-3, 3}, others 0). One evaluation = one theta through "
                "all four functions, the binding compile and two compiles by the tree C library. non-trivial = at least one "
                "shear AND at least one translation component non-zero (all off-diagonal terms of U U^T, the parallel-axis "
                "term and the fullinertia ordering are exercised). boundary_excluded = spec.to_xml() (6 digits) of a body "
                "whose triangle inequality margin is below 1e-4 being rejected by the tree compiler."
                % (list(vals), len(pts) - nextra, nextra, list(axis_vals)))
    ctx.assumptions = [
        "model_modifier.py is the tree's file (asserted); MjSpec editing/compilation inside apply_body_theta_inertia uses the "
        "installed 3.13.0 binding (trusted base), cross-checked by compiling the same inertial with the tree-built C library",
        "thresholds: closed form %g, round trip %g (observed <= ~2e-9), compiled %g (observed <= ~3e-6, the compiler's Jacobi "
        "eigen-iteration stops at 1-cos < 1e-12), 6-digit XML %g; coverage.*_within_100x_of_tolerance count near misses"
        % (TOL_CLOSED, TOL_ROUNDTRIP, TOL_COMPILED, TOL_XML6),
        "pi_from_theta returns 13 numbers (m, h, flattened 3x3 inertia) although its docstring says 10; "
        "pseudoinertia_from_pi consumes the same 13 -- treated as the interface",
    ]


def replay(ctx, path):
    """./check C47 --replay <file>: re-run the single recorded theta; no evidence is written."""
    import json
    rep = json.load(open(path))["replay"]
    _setup()
    part = core.Part()
    _G["pending"] = []
    check_theta(tuple(rep["theta"]), part)
    flush_tree(part)
    for v in part["violations"]:
        print("VIOLATION property=C47 replay=%s\n  [%s] %s" % (path, v["key"], v["what"][:600]))
    print("replayed theta=%s against %s: %d violation(s)" % (rep["theta"], _G["mm"].__file__, len(part["violations"])))
    return 1 if part["violations"] else 0
