"""What mjcf_read_table.inc and mjcf_default_table.inc must contain for a schema (C42), and their parse-back.

The two tables bind schema attributes to fields of the C spec structs, so the
expectation needs the struct layouts: read here with an own reader from
include/mujoco/mjspec.h and mjmodel.h.  Row layouts are the ones documented in
the generated headers:

  mjXAttr          {attr, kind, len, exact, required, nodefault, handwrite, offset[, map, size[, const]]}
  mjXDefaultEntry  {attr, offset, kind, len, ndecl, unset, {values}}   kind: 0=double 1=float 2=int 3=byte 4=mjtNum
"""
from __future__ import annotations

import re

from . import _c42_expect as X
from ._c42_expect import Mismatch, Refuse, need


# ------------------------------------------------------------------ C struct layouts

def _strip_c_comments(text):
    out = []
    i = 0
    n = len(text)
    while i < n:
        if text[i:i + 2] == '//':
            j = text.find('\n', i)
            i = n if j < 0 else j
        elif text[i:i + 2] == '/*':
            j = text.find('*/', i + 2)
            i = n if j < 0 else j + 2
        else:
            out.append(text[i])
            i += 1
    return ''.join(out)


def _match_brace(text, i):
    depth = 0
    while i < len(text):
        if text[i] == '{':
            depth += 1
        elif text[i] == '}':
            depth -= 1
            if depth == 0:
                return i
        i += 1
    return -1


def _fields(body, name, structs):
    fields = {}
    i = 0
    n = len(body)
    while i < n:
        j = i
        while j < n and body[j] not in ';{':
            j += 1
        if j >= n:
            break
        if body[j] == '{':
            end = _match_brace(body, j)
            semi = body.find(';', end)
            sub = body[end + 1:semi].strip()
            if body[i:j].split()[:1] == ['struct'] and sub.isidentifier():
                structs['%s.%s' % (name, sub)] = _fields(body[j + 1:end], '%s.%s' % (name, sub), structs)
            i = semi + 1
            continue
        decl = body[i:j].strip()
        i = j + 1
        if not decl or '(' in decl or decl.startswith('#'):
            continue
        dim = None
        if '[' in decl:
            k = decl.index('[')
            dim = decl[k + 1:decl.index(']', k)].strip()
            decl = decl[:k]
        decl = decl.replace('*', '* ')
        parts = decl.split()
        if len(parts) < 2:
            continue
        fname = parts[-1]
        ctype = ''.join(p for p in parts[:-1] if p not in ('const', 'struct'))
        if fname.isidentifier():
            fields[fname] = (ctype, dim)
    return fields


def read_structs(paths):
    """{struct name: {field: (ctype, dim or None)}}; anonymous sub-structs as 'Outer.sub'."""
    structs = {}
    for p in paths:
        text = _strip_c_comments(open(p, encoding='utf-8').read())
        text = '\n'.join(l for l in text.split('\n') if not l.lstrip().startswith('#'))
        for m in re.finditer(r'typedef\s+struct\s+(\w+)_\s*\{', text):
            start = m.end() - 1
            end = _match_brace(text, start)
            tail = text[end + 1:text.find(';', end)].strip()
            if end < 0 or tail != m.group(1):
                continue
            structs[m.group(1)] = _fields(text[start + 1:end], m.group(1), structs)
    return structs


# ------------------------------------------------------------------ mjcf_read_table.inc

def _b(x):
    return 'true' if x else 'false'


def _row_for(spec, fields, a, ctx, cfg, prefix=''):
    required = _b(a.facets.get('required'))
    nodefault = _b(a.facets.get('nodefault'))
    handwrite = _b(a.facets.get('writing'))
    if a.type == 'id' and a.name == 'name':
        return ['"name"', 'mjXAttr::kName', '1', 'true', required, 'true', 'false', '-1']
    if a.type == 'ref' and a.target == 'default':
        return None
    if a.type == 'file':
        return None
    field = a.facets.get('field', a.name)
    entry = fields.get(field)
    if entry is None:
        raise Refuse('%s.%s: no field %s.%s' % (ctx, a.name, spec, field))
    ctype, dim = entry
    extra = []
    if a.type in ('string', 'ref', 'id'):
        if ctype == 'mjStringVec*':
            kind = 'kStringVec'
        elif ctype == 'mjString*':
            kind = 'kString'
        else:
            raise Refuse('%s.%s: text attribute bound to %s' % (ctx, a.name, ctype))
        length, exact = '1', 'true'
    elif a.type == 'enum':
        if not (ctype.startswith('mjt') or ctype == 'int'):
            raise Refuse('%s.%s: enum bound to %s' % (ctx, a.name, ctype))
        kind = 'kEnumByte' if ctype in ('mjtByte', 'mjtBool') else 'kEnum'
        length, exact = '1', 'true'
        extra = [a.target + '_map', a.target + '_sz']
    elif a.type == 'flags':
        if ctype != 'int':
            raise Refuse('%s.%s: flags bound to %s' % (ctx, a.name, ctype))
        kind, length, exact = 'kFlags', '1', 'true'
        extra = [a.target + '_map', a.target + '_sz']
    elif a.type == 'bool':
        if ctype in ('mjtBool', 'mjtByte'):
            kind, length, exact = 'kBool', '1', 'true'
        elif ctype == 'int' or ctype.startswith('mjt'):
            kind, length, exact = 'kEnum', '1', 'true'
            extra = ['bool_map', '2']
        else:
            raise Refuse('%s.%s: bool bound to %s' % (ctx, a.name, ctype))
    elif a.type == 'chars':
        if ctype != 'char' or dim is None or str(dim) != str(a.hi):
            raise Refuse('%s.%s: chars bound to %s[%s]' % (ctx, a.name, ctype, dim))
        kind, length, exact = 'kChars', str(a.hi), _b(a.lo == a.hi)
    elif a.hi is None:
        kind = {'mjDoubleVec*': 'kDoubleVec', 'mjFloatVec*': 'kFloatVec', 'mjIntVec*': 'kIntVec'}.get(ctype)
        if kind is None:
            raise Refuse('%s.%s: unbounded vector bound to %s' % (ctx, a.name, ctype))
        length, exact = '1', 'true'
    else:
        kind = {'int': 'kInt', 'double': 'kDouble', 'mjtNum': 'kNum', 'float': 'kFloat'}.get(ctype)
        if kind is None or (a.type == 'int') != (kind == 'kInt'):
            raise Refuse('%s.%s: %s bound to %s' % (ctx, a.name, a.type, ctype))
        length = str(a.hi)
        declared = str(dim) if dim is not None else '1'
        if declared != length:
            if cfg.DIM_EQUIV.get(declared) == length:
                length = declared
            else:
                raise Refuse('%s.%s: arity %s vs field dim %s' % (ctx, a.name, length, declared))
        exact = _b(a.lo == a.hi)
    return ['"%s"' % a.name, 'mjXAttr::' + kind, length, exact, required, nodefault, handwrite,
            '(int)offsetof(%s,%s%s)' % (spec, prefix, field)] + extra


def expected_read(view, structs, cfg):
    """[(array name, rows)] in emission order, then dispatch rows; raises Refuse where the generator documents one."""
    arrays = []
    migrated = []
    for name, el in view.elements.items():
        if not el.spec or name in cfg.NOT_TABLE_DRIVEN:
            continue
        if not any('reading' not in a.facets for a in el.attrs()):
            continue
        migrated.append(name)
    for name in migrated:
        el = view.elements[name]
        sub = el.facets.get('field')
        key = '%s.%s' % (el.spec, sub) if sub else el.spec
        fields = structs.get(key)
        if fields is None:
            raise Refuse('%s: struct %s not found' % (name, key))
        prefix = '%s.' % sub if sub else ''
        hand = set()
        for g in cfg.HAND_GROUPS:
            if any(m[0] == 'use' and m[1] == g for m in el.members):
                hand |= set(m[1] for m in view.groups[g][2] if m[0] == 'attr')
        rows = []
        for field, value in el.consts():
            entry = fields.get(field)
            if entry is None:
                raise Refuse('%s: set %s: no such field' % (name, field))
            if not (entry[0].startswith('mjt') or entry[0] == 'int'):
                raise Refuse('%s: set %s: field is %s' % (name, field, entry[0]))
            rows.append(['nullptr', 'mjXAttr::kConst', '1', 'true', 'false', 'false', 'false',
                         '(int)offsetof(%s,%s%s)' % (el.spec, prefix, field), 'nullptr', '0', value])
        for a in el.attrs():
            if a.name in hand or 'reading' in a.facets:
                continue
            row = _row_for(el.spec, fields, a, name, cfg, prefix)
            if row is not None:
                rows.append(row)
        arrays.append(('k%sAttrs' % name.capitalize(), rows))
    dispatch = []
    for name in cfg.SENSOR_DISPATCH:
        if name not in view.elements:
            raise Refuse('sensor dispatch names an element the schema does not declare')    # KeyError in the tree
        arr = 'k%sAttrs' % name.capitalize()
        dispatch.append(['"%s"' % view.elements[name].xml_name(), arr, arr + 'N'])
    groups = []
    for gname, (struct, array) in cfg.EMIT_GROUPS.items():
        fields = structs.get(struct)
        if fields is None:
            raise Refuse('%s: struct %s not found' % (gname, struct))
        if gname not in view.groups:
            raise Refuse('emitted group not declared')
        rows = []
        for m in view.groups[gname][2]:
            if m[0] != 'attr':
                continue
            a = X.Attr(m)
            if 'reading' in a.facets:
                continue
            row = _row_for(struct, fields, a, gname, cfg)
            if row is not None:
                rows.append(row)
        groups.append((array, rows))
    return arrays, dispatch, groups


def _norm(x):
    return x.replace(' ', '') if isinstance(x, str) else x


def check_read(view, text, structs, cfg):
    arrays, dispatch, groups = expected_read(view, structs, cfg)      # may Refuse
    got, plain = X.c_arrays(text)
    want = [(n, r) for n, r in arrays] + [('kSensorDispatch', dispatch)] + [(n, r) for n, r in groups]
    need([n for _, n, _ in got] == [n for n, _ in want], 'read:array-set',
         'extra %s missing %s' % (sorted(set(n for _, n, _ in got) - set(n for n, _ in want))[:4],
                                 sorted(set(n for n, _ in want) - set(n for _, n, _ in got))[:4]))
    items = 0
    for (decl, name, rows), (_, wrows) in zip(got, want):
        grows = [[_norm(c) for c in r] for r in rows]
        wrows = [[_norm(c) for c in r] for r in wrows]
        if grows != wrows:
            for g, w in zip(grows, wrows):
                if g != w:
                    if g[0] != w[0]:
                        raise Mismatch('read:row-order', '%s: row %s where the schema gives %s' % (name, g[0], w[0]))
                    cols = ('attr', 'kind', 'len', 'exact', 'required', 'nodefault', 'handwrite', 'offset', 'map', 'size', 'const')
                    for k in range(max(len(g), len(w))):
                        if k >= len(g) or k >= len(w) or g[k] != w[k]:
                            raise Mismatch('read:row-' + cols[min(k, 10)], '%s %s: emitted %s, schema gives %s' % (name, g[0], g, w))
            raise Mismatch('read:row-count', '%s: %d rows, schema gives %d' % (name, len(grows), len(wrows)))
        items += len(wrows)
        if name != 'kSensorDispatch':
            need(re.search(r'\bint\s+%sN\s*=\s*sizeof\(%s\)\s*/\s*sizeof\(%s\[0\]\)\s*;' % (name, name, name), plain),
                 'read:size-constant', name)
    return items


# ------------------------------------------------------------------ mjcf_default_table.inc

_KIND = {'double': 0, 'float': 1, 'int': 2, 'mjtByte': 3, 'mjtBool': 3, 'mjtNum': 4}


def expected_defaults(view, structs, cfg, rcfg):
    tables = {}
    order = []
    seen = {}
    for el in view.elements.values():
        if not el.spec:
            continue
        sub = el.facets.get('field')
        key = '%s.%s' % (el.spec, sub) if sub else el.spec
        fields = structs.get(key)
        if fields is None:
            continue
        prefix = '%s.' % sub if sub else ''
        for a in el.attrs():
            if a.type in ('string', 'file', 'chars', 'ref', 'id', 'flags'):
                continue
            field = a.facets.get('field', a.name)
            entry = fields.get(field)
            if entry is None:
                if 'reading' in a.facets or a.default is None:
                    continue
                raise Refuse('%s.%s: default without a bound field' % (el.name, a.name))
            ctype, dim = entry
            if ctype not in _KIND and not ctype.startswith('mjt'):
                if a.default is None:
                    continue
                raise Refuse('%s.%s: default bound to %s' % (el.name, a.name, ctype))
            if ctype.endswith('*'):
                continue
            kind = _KIND.get(ctype, 2)
            length = str(dim) if dim is not None else '1'
            unset = 1 if (key, field) in cfg.UNSET_SENTINELS else 0
            if a.default is None:
                values = []
            else:
                if unset:
                    raise Refuse('%s.%s: declared default on an unset-sentinel field' % (el.name, a.name))
                if a.type == 'enum':
                    values = ['(double)' + dict(view.enums[a.target][2])[a.default]]
                elif a.type == 'bool':
                    values = [1.0 if a.default == 'true' else 0.0]
                else:
                    values = list(a.default) if isinstance(a.default, tuple) else [a.default]
            if len(values) > 8:
                raise Refuse('%s.%s: more than 8 default values' % (el.name, a.name))
            row = (a.name, '(int)offsetof(%s,%s%s)' % (el.spec, prefix, field), kind, length, len(values), unset, values)
            declared = a.default is not None
            prior = seen.get((key, field))
            if prior is not None:
                prow, pdecl = prior
                if declared and pdecl and prow[4:] != row[4:]:
                    raise Refuse('%s.%s: conflicting defaults' % (el.name, a.name))
                if not declared or pdecl:
                    continue
                tables[key][tables[key].index(prow)] = row
                seen[(key, field)] = (row, True)
                continue
            seen[(key, field)] = (row, declared)
            if key not in tables:
                tables[key] = []
            tables[key].append(row)
    return tables


def check_defaults(view, text, structs, cfg, rcfg):
    tables = expected_defaults(view, structs, cfg, rcfg)
    got, plain = X.c_arrays(text)
    keys = sorted(tables)
    want_names = ['kDefaults_' + k.replace('.', '_') for k in keys] + ['kDefaultTables']
    need([n for _, n, _ in got] == want_names, 'defaults:array-set',
         'extra %s missing %s' % (sorted(set(n for _, n, _ in got) - set(want_names))[:4],
                                 sorted(set(want_names) - set(n for _, n, _ in got))[:4]))
    items = 0
    for (decl, name, rows), key in zip(got, keys):
        want = tables[key]
        need(len(rows) == len(want), 'defaults:row-count', '%s: %d rows, schema gives %d' % (name, len(rows), len(want)))
        for r, w in zip(rows, want):
            need(len(r) == 7 and isinstance(r[6], list), 'defaults:row-shape', repr(r)[:200])
            need(r[0] == '"%s"' % w[0], 'defaults:row-order', '%s: row %s where the schema gives %s' % (name, r[0], w[0]))
            need(_norm(r[1]) == w[1], 'defaults:row-offset', '%s %s: %s, schema gives %s' % (name, w[0], r[1], w[1]))
            need(r[2] == str(w[2]), 'defaults:row-kind', '%s %s: kind %s, field type gives %s' % (name, w[0], r[2], w[2]))
            need(_norm(r[3]) == _norm(w[3]), 'defaults:row-len', '%s %s: len %s, field gives %s' % (name, w[0], r[3], w[3]))
            need(r[4] == str(w[4]) and r[5] == str(w[5]), 'defaults:row-ndecl', '%s %s: ndecl/unset %s %s, schema gives %s %s'
                 % (name, w[0], r[4], r[5], w[4], w[5]))
            vals = r[6]
            if not w[6]:
                need(vals == ['0'], 'defaults:row-values', '%s %s: %s, nothing declared' % (name, w[0], vals))
            else:
                need(len(vals) == len(w[6]), 'defaults:row-values', '%s %s: %s, declared %s' % (name, w[0], vals, w[6]))
                for v, wv in zip(vals, w[6]):
                    if isinstance(wv, str):
                        need(_norm(v) == wv, 'defaults:row-values', '%s %s: %s, declared %s' % (name, w[0], v, wv))
                    else:
                        need(X.numbers_equal(v, wv), 'defaults:row-values', '%s %s: %s, declared %r' % (name, w[0], v, wv))
            items += 1
    idx = got[-1][2]
    want_idx = [['"%s"' % k.split('.')[0], 'kDefaults_' + k.replace('.', '_')] for k in keys]
    need([[r[0], r[1]] for r in idx] == want_idx, 'defaults:index', repr(idx)[:200])
    return items + len(keys)
