"""Scenario models for C20 (arena exhaustion): contact-rich, constraint-rich, island-rich.

All scenarios have active contacts / constraints from the very first step so that the two steps of
every fault point exercise the allocation sites named in the property (pair buffer, contacts, efc
arrays, island arrays, dual arrays Y / AR)."""
from __future__ import annotations


def _opt(cone, island, solver, jacobian, extra='ccd_iterations="1"'):
    flags = "" if island else '<flag island="disable"/>'
    return ('<option cone="%s" solver="%s" jacobian="%s" timestep="0.002" %s>%s</option>'
            % (cone, solver, jacobian, extra, flags))


def spheres(n, cone, island, solver, jacobian):
    """n free spheres stacked in a 2x2 column pattern inside a box (plane + 4 walls), initially
    overlapping so that contacts exist at step 1."""
    bodies = []
    for i in range(n):
        x = 0.09 * (i % 2) - 0.045
        y = 0.09 * ((i // 2) % 2) - 0.045
        z = 0.048 + 0.085 * (i // 4)
        bodies.append('<body pos="%g %g %g"><freejoint/><geom type="sphere" size="0.05" condim="%d"/></body>'
                      % (x, y, z, 3 if i % 3 else (4 if i % 2 else 1)))
    walls = ('<geom type="plane" size="1 1 .1"/>'
             '<geom type="box" size=".02 .2 .2" pos=".11 0 .2"/><geom type="box" size=".02 .2 .2" pos="-.11 0 .2"/>'
             '<geom type="box" size=".2 .02 .2" pos="0 .11 .2"/><geom type="box" size=".2 .02 .2" pos="0 -.11 .2"/>')
    return "<mujoco>%s<worldbody>%s%s</worldbody></mujoco>" % (_opt(cone, island, solver, jacobian), walls, "".join(bodies))


def chain(n, cone, island, solver, jacobian):
    """hinge chain with violated joint limits, friction loss, a connect and a joint equality, a limited fixed tendon
    with friction loss, and a foot sphere touching the plane."""
    inner = ""
    for i in range(n, 0, -1):
        foot = '<geom type="sphere" size=".03" pos="0 0 -.1"/><site name="sf" pos="0 0 -.1" size=".04"/>' if i == n else ""
        if i == 1:
            foot += '<site name="s1"/>'
        inner = ('<body name="b%d" pos="0 0 -.1"><joint name="j%d" type="hinge" axis="0 1 0" limited="true" range="%s" '
                 'frictionloss="0.1"/><geom type="capsule" size=".01" fromto="0 0 0 0 0 -.1" contype="0" conaffinity="0"/>%s%s</body>'
                 % (i, i, ".05 .4" if i % 2 else "-.4 .4", foot, inner))
    return ("<mujoco>%s<worldbody><geom type='plane' size='1 1 .1' pos='0 0 %g'/><body name='anchor' pos='.3 0 0'>"
            "<joint name='ja' type='slide' axis='1 0 0'/><geom type='sphere' size='.02' contype='0' conaffinity='0'/></body>"
            "<body pos='0 0 0'>%s</body></worldbody>"
            "<equality><connect body1='b%d' body2='anchor' anchor='0 0 -.05'/><joint joint1='j1' joint2='j2' polycoef='0 1 0 0 0'/></equality>"
            "<tendon><fixed name='t' limited='true' range='.05 .1' frictionloss='.05'><joint joint='j1' coef='1'/><joint joint='j%d' coef='1'/></fixed></tendon>"
            "<sensor><force site='s1'/><torque site='s1'/><accelerometer site='s1'/><touch site='sf'/></sensor></mujoco>"
            % (_opt(cone, island, solver, jacobian), -0.1 * n - 0.12, inner, n, n))


def islands(k, cone, island, solver, jacobian):
    """k well separated piles (box on plane + sphere on box): k islands, one multi-geom body per pile (midphase) and
    one explicit <pair>."""
    bodies, pairs = [], []
    for i in range(k):
        x = 0.5 * i
        bodies.append('<body pos="%g 0 .049"><freejoint/><geom name="bx%d" type="box" size=".05 .05 .05"/>'
                      '<geom type="sphere" size=".02" pos=".06 0 0"/></body>' % (x, i))
        bodies.append('<body pos="%g 0 .138"><freejoint/><geom name="sp%d" type="sphere" size=".04" contype="2" conaffinity="2"/></body>' % (x, i))
        pairs.append('<pair geom1="bx%d" geom2="sp%d" condim="%d"/>' % (i, i, 3 if i % 2 else 6))
    return ("<mujoco>%s<worldbody><geom type='plane' size='5 5 .1'/>%s</worldbody><contact>%s</contact></mujoco>"
            % (_opt(cone, island, solver, jacobian), "".join(bodies), "".join(pairs)))


def mixed(cone, island, solver, jacobian):
    """tiny model: one free capsule on the plane, one limited slide, one weld to the world."""
    return ("<mujoco>%s<worldbody><geom type='plane' size='1 1 .1'/>"
            "<body pos='0 0 .019'><freejoint/><geom type='capsule' size='.02 .05' euler='0 90 0'/></body>"
            "<body pos='.5 0 .5'><joint type='slide' axis='0 0 1' limited='true' range='.1 .2'/><geom type='sphere' size='.02'/></body>"
            "<body name='w' pos='1 0 .5'><freejoint/><geom type='sphere' size='.02'/><site name='sw'/></body>"
            "</worldbody><equality><weld body1='w'/></equality><sensor><force site='sw'/></sensor></mujoco>" % _opt(cone, island, solver, jacobian))


def clump(k, cone, island, solver, jacobian, midphase=True):
    """two free bodies with k overlapping sphere geoms each: one body pair in the broadphase but k*k candidate geom
    pairs pushed on the arena (pushPairArena) and up to k*k contacts."""
    def body(z, off):
        g = "".join('<geom type="sphere" size=".05" pos="%g %g 0"/>' % (0.01 * (i % 3) + off, 0.01 * (i // 3)) for i in range(k))
        return '<body pos="0 0 %g"><freejoint/>%s</body>' % (z, g)
    flags = ('<flag island="%s" midphase="%s"/>' % ("enable" if island else "disable", "enable" if midphase else "disable"))
    return ('<mujoco><option cone="%s" solver="%s" jacobian="%s" timestep="0.002" ccd_iterations="1">%s</option>'
            '<worldbody><geom type="plane" size="1 1 .1"/>%s%s</worldbody></mujoco>'
            % (cone, solver, jacobian, flags, body(0.2, 0), body(0.27, 0.005)))


def pairs(k, cone, island, solver, jacobian):
    """two free bodies with k long thin capsules each, 0.1 apart: all k*k bounding spheres overlap, so k*k candidate pairs
    are pushed on the arena (pushPairArena) by the all-to-all loop (midphase disabled), but nothing touches: the arena
    need is dominated by the pair buffer."""
    def body(z, yaw):
        g = "".join('<geom type="capsule" size=".005 .5" pos="0 %g 0" euler="0 90 %g"/>' % (0.02 * i, yaw) for i in range(k))
        # a small far-away sphere makes the two body AABBs overlap in z so that the broadphase keeps the body pair
        g += '<geom type="sphere" size=".02" pos="0.7 0.7 %g"/>' % (0.1 if yaw == 0 else -0.1)
        return '<body pos="0 0 %g"><freejoint/>%s</body>' % (z, g)
    flags = '<flag island="%s" midphase="disable"/>' % ("enable" if island else "disable")
    return ('<mujoco><option cone="%s" solver="%s" jacobian="%s" timestep="0.002" ccd_iterations="1" gravity="0 0 0">%s</option>'
            '<worldbody>%s%s</worldbody></mujoco>' % (cone, solver, jacobian, flags, body(0.2, 0), body(0.3, 90)))


def scenarios(thorough: bool):
    """(name, xml) list.  The option lattice cone x island x (solver, jacobian) is complete in thorough; quick takes one
    small model per allocation-site family with two covering lattice points."""
    out = []
    if not thorough:
        a = ("pyramidal", True, "Newton", "dense")
        b = ("elliptic", False, "PGS", "sparse")
        tag = lambda t: "%s,%s,%s,%s" % (t[0], "island" if t[1] else "noisland", t[2], t[3])
        out.append(("chain4[%s]" % tag(a), chain(4, *a)))          # efc arrays, island arrays, equality rows
        out.append(("chain4[%s]" % tag(b), chain(4, *b)))          # dual arrays Y / AR
        out.append(("mixed[%s]" % tag(b), mixed(*b)))              # contact + limit + weld, 3 trees
        out.append(("clump3[%s]" % tag(a), clump(3, *a)))          # contacts, midphase, island arrays with contacts
        out.append(("pairs8[%s]" % tag(a), pairs(8, *a)))          # pair buffer
        return out
    lattice = [(c, i, s, j) for c in ("pyramidal", "elliptic") for i in (True, False)
               for s in ("Newton", "CG", "PGS") for j in ("dense", "sparse")]
    for cone, island, solver, jac in lattice:
        tag = "%s,%s,%s,%s" % (cone, "island" if island else "noisland", solver, jac)
        out.append(("mixed[%s]" % tag, mixed(cone, island, solver, jac)))
        out.append(("chain8[%s]" % tag, chain(8, cone, island, solver, jac)))
        # the large families need 70-220 KB each: cone x island x {Newton dense, PGS sparse}
        if (solver, jac) in (("Newton", "dense"), ("PGS", "sparse")):
            out.append(("clump5[%s]" % tag, clump(5, cone, island, solver, jac)))
            out.append(("islands4[%s]" % tag, islands(4, cone, island, solver, jac)))
            out.append(("spheres6[%s]" % tag, spheres(6, cone, island, solver, jac)))
        if solver == "Newton" and jac == "dense":
            out.append(("clump5-nomidphase[%s]" % tag, clump(5, cone, island, solver, jac, midphase=False)))
    out.append(("pairs8[pyramidal,island,Newton,dense]", pairs(8, "pyramidal", True, "Newton", "dense")))
    out.append(("pairs16[elliptic,noisland,PGS,sparse]", pairs(16, "elliptic", False, "PGS", "sparse")))
    out.append(("spheres20[pyramidal,island,Newton,sparse]", spheres(20, "pyramidal", True, "Newton", "sparse")))
    return out
