"""Reference ray caster for C16 (numpy, written from the documentation).

A ray is (p + x*v, x >= 0); the answer is the smallest x >= 0 at which the ray
meets the geom *surface* (so a ray that starts inside a solid reports the exit
point), or -1.  Every solid primitive is convex, hence (ray meet solid) is one
interval [t0, t1] obtained by intersecting / hulling elementary intervals
(ball, infinite cylinder, slab): no case analysis on caps, rims or faces.
Meshes and height-field surfaces use Moller-Trumbore on explicit triangles.

All functions are vectorised over N rays given in the geom's LOCAL frame and
return (x, normal_local); normal is the outward unit normal at the hit.
"""
from __future__ import annotations

import numpy as np

PLANE, HFIELD, SPHERE, CAPSULE, ELLIPSOID, CYLINDER, BOX, MESH = 0, 1, 2, 3, 4, 5, 6, 7
INF = np.inf


# ----------------------------------------------------------------- elementary intervals

def _ball(P, V, c, r):
    d = P - c
    a = np.einsum("ij,ij->i", V, V)
    b = np.einsum("ij,ij->i", V, d)
    cc = np.einsum("ij,ij->i", d, d) - r * r
    disc = b * b - a * cc
    ok = disc >= 0
    sq = np.sqrt(np.where(ok, disc, 0.0))
    t0 = np.where(ok, (-b - sq) / a, INF)
    t1 = np.where(ok, (-b + sq) / a, -INF)
    return t0, t1


def _slab(P, V, axis, h):
    p = P[:, axis]
    v = V[:, axis]
    par = v == 0
    vs = np.where(par, 1.0, v)
    ta = (-h - p) / vs
    tb = (h - p) / vs
    t0 = np.minimum(ta, tb)
    t1 = np.maximum(ta, tb)
    inside = np.abs(p) <= h
    t0 = np.where(par, np.where(inside, -INF, INF), t0)
    t1 = np.where(par, np.where(inside, INF, -INF), t1)
    return t0, t1


def _infcyl(P, V, r):
    a = V[:, 0] ** 2 + V[:, 1] ** 2
    b = V[:, 0] * P[:, 0] + V[:, 1] * P[:, 1]
    cc = P[:, 0] ** 2 + P[:, 1] ** 2 - r * r
    par = a == 0
    as_ = np.where(par, 1.0, a)
    disc = b * b - as_ * cc
    ok = disc >= 0
    sq = np.sqrt(np.where(ok, disc, 0.0))
    t0 = np.where(ok, (-b - sq) / as_, INF)
    t1 = np.where(ok, (-b + sq) / as_, -INF)
    inside = cc <= 0
    t0 = np.where(par, np.where(inside, -INF, INF), t0)
    t1 = np.where(par, np.where(inside, INF, -INF), t1)
    return t0, t1


def _isect(*ivs):
    t0 = np.maximum.reduce([iv[0] for iv in ivs])
    t1 = np.minimum.reduce([iv[1] for iv in ivs])
    emp = t0 > t1
    return np.where(emp, INF, t0), np.where(emp, -INF, t1)


def _hull(*ivs):
    # union of intervals known to form one interval (convex union)
    t0 = np.minimum.reduce([iv[0] for iv in ivs])
    t1 = np.maximum.reduce([iv[1] for iv in ivs])
    return t0, t1


def _first(t0, t1):
    """nearest surface crossing with x >= 0 of a solid interval; also the interval length (graze measure)."""
    x = np.where(t0 >= 0, t0, np.where(t1 >= 0, t1, -1.0))
    x = np.where(t0 > t1, -1.0, x)
    x = np.where(np.isfinite(x), x, -1.0)
    return x


def _unit(a):
    n = np.linalg.norm(a, axis=1, keepdims=True)
    return a / np.where(n == 0, 1.0, n)


# ----------------------------------------------------------------- solids

def ray_sphere(P, V, size):
    x = _first(*_ball(P, V, np.zeros(3), size[0]))
    H = P + x[:, None] * V
    return x, _unit(H)


def ray_ellipsoid(P, V, size):
    s = np.asarray(size[:3], float)
    x = _first(*_ball(P / s, V / s, np.zeros(3), 1.0))
    H = P + x[:, None] * V
    return x, _unit(H / (s * s))


def ray_box(P, V, size):
    x = _first(*_isect(_slab(P, V, 0, size[0]), _slab(P, V, 1, size[1]), _slab(P, V, 2, size[2])))
    H = P + x[:, None] * V
    q = np.abs(H) / np.asarray(size[:3], float)
    k = np.argmax(q, axis=1)
    N = np.zeros_like(H)
    N[np.arange(len(H)), k] = np.sign(H[np.arange(len(H)), k])
    return x, N


def ray_cylinder(P, V, size):
    r, h = size[0], size[1]
    x = _first(*_isect(_infcyl(P, V, r), _slab(P, V, 2, h)))
    H = P + x[:, None] * V
    rho = np.hypot(H[:, 0], H[:, 1])
    onflat = (h - np.abs(H[:, 2])) < (r - rho)   # closer to a flat face than to the round side
    N = np.zeros_like(H)
    N[:, 2] = np.where(onflat, np.sign(H[:, 2]), 0.0)
    rad = _unit(np.stack([H[:, 0], H[:, 1], np.zeros(len(H))], axis=1))
    N = np.where(onflat[:, None], N, rad)
    return x, N


def ray_capsule(P, V, size):
    r, h = size[0], size[1]
    side = _isect(_infcyl(P, V, r), _slab(P, V, 2, h))
    top = _ball(P, V, np.array([0, 0, h]), r)
    bot = _ball(P, V, np.array([0, 0, -h]), r)
    x = _first(*_hull(side, top, bot))
    H = P + x[:, None] * V
    zc = np.clip(H[:, 2], -h, h)
    return x, _unit(H - np.stack([np.zeros(len(H)), np.zeros(len(H)), zc], axis=1))


def ray_plane(P, V, size):
    """One-sided (front face only), limited to the rendered rectangle when a half-size is positive."""
    vz = V[:, 2]
    ok = vz < 0
    x = np.where(ok, -P[:, 2] / np.where(ok, vz, 1.0), -1.0)
    ok &= x >= 0
    H = P + x[:, None] * V
    if size[0] > 0:
        ok &= np.abs(H[:, 0]) <= size[0]
    if size[1] > 0:
        ok &= np.abs(H[:, 1]) <= size[1]
    x = np.where(ok, x, -1.0)
    N = np.zeros_like(P)
    N[:, 2] = 1.0
    return x, N


# ----------------------------------------------------------------- triangles

def ray_triangles(P, V, tri, two_sided=True, chunk=4096):
    """Moller-Trumbore. tri: (F,3,3). Returns nearest x >= 0 over all triangles, index of that triangle,
    and the smallest barycentric slack (distance to the triangle border in barycentric units) of the winning hit."""
    tri = np.asarray(tri, float)
    v0 = tri[:, 0]
    e1 = tri[:, 1] - v0
    e2 = tri[:, 2] - v0
    N = len(P)
    best = np.full(N, INF)
    bidx = np.full(N, -1)
    bslack = np.full(N, INF)
    for s in range(0, N, chunk):
        p = P[s:s + chunk, None, :]
        v = V[s:s + chunk, None, :]
        h = np.cross(v, e2[None])
        a = np.einsum("fk,nfk->nf", e1, h)
        par = a == 0
        inv = 1.0 / np.where(par, 1.0, a)
        sv = p - v0[None]
        u = inv * np.einsum("nfk,nfk->nf", sv, h)
        q = np.cross(sv, e1[None])
        w = inv * np.einsum("nfk,nfk->nf", v, q)
        t = inv * np.einsum("fk,nfk->nf", e2, q)
        ok = (~par) & (u >= 0) & (w >= 0) & (u + w <= 1) & (t >= 0)
        t = np.where(ok, t, INF)
        k = np.argmin(t, axis=1)
        r = np.arange(t.shape[0])
        best[s:s + chunk] = t[r, k]
        bidx[s:s + chunk] = np.where(np.isfinite(t[r, k]), k, -1)
        bslack[s:s + chunk] = np.minimum(np.minimum(u[r, k], w[r, k]), 1 - u[r, k] - w[r, k])
    x = np.where(np.isfinite(best), best, -1.0)
    return x, bidx, bslack


def tri_normals(tri):
    tri = np.asarray(tri, float)
    n = np.cross(tri[:, 1] - tri[:, 0], tri[:, 2] - tri[:, 0])
    return n / np.linalg.norm(n, axis=1, keepdims=True)


def ray_mesh(P, V, tri):
    x, k, slack = ray_triangles(P, V, tri)
    tn = tri_normals(tri)
    N = np.where((k >= 0)[:, None], tn[np.maximum(k, 0)], 0.0)
    return x, N


def hull_faces(verts):
    """Brute-force convex hull faces (outward oriented triangles) of a small point set in convex, general position
    up to coplanar quads (each planar facet is fan-triangulated)."""
    verts = np.asarray(verts, float)
    n = len(verts)
    c = verts.mean(axis=0)
    facets = {}
    for i in range(n):
        for j in range(i + 1, n):
            for k in range(j + 1, n):
                nrm = np.cross(verts[j] - verts[i], verts[k] - verts[i])
                ln = np.linalg.norm(nrm)
                if ln < 1e-14:
                    continue
                nrm = nrm / ln
                d = (verts - verts[i]) @ nrm
                if np.all(d <= 1e-12) or np.all(d >= -1e-12):
                    if np.all(d >= -1e-12):
                        nrm = -nrm
                        d = -d
                    on = tuple(np.nonzero(np.abs(d) <= 1e-12)[0])
                    facets[on] = nrm
    faces = []
    for on, nrm in facets.items():
        pts = verts[list(on)]
        cc = pts.mean(axis=0)
        # order counter-clockwise about nrm
        a = _unit((pts[0] - cc)[None])[0]
        b = np.cross(nrm, a)
        ang = np.arctan2((pts - cc) @ b, (pts - cc) @ a)
        order = [on[t] for t in np.argsort(ang)]
        for t in range(1, len(order) - 1):
            faces.append((order[0], order[t], order[t + 1]))
    return np.array(faces, int)


# ----------------------------------------------------------------- height field

def hfield_triangles(nrow, ncol, size, elev01):
    """Top-surface triangles and side-wall triangles of a height field in its local frame.
    elev01[r][c] is the normalised elevation with row 0 at y = -size[1] (mjModel order)."""
    sx, sy, sz, sb = size
    dx = 2.0 * sx / (ncol - 1)
    dy = 2.0 * sy / (nrow - 1)
    e = np.asarray(elev01, float).reshape(nrow, ncol) * sz

    def pt(r, c):
        return (dx * c - sx, dy * r - sy, e[r, c])
    top = []
    for r in range(nrow - 1):
        for c in range(ncol - 1):
            top.append((pt(r, c), pt(r, c + 1), pt(r + 1, c + 1)))
            top.append((pt(r, c), pt(r + 1, c + 1), pt(r + 1, c)))
    walls = []

    def wall(a, b, flip):
        a0 = (a[0], a[1], 0.0)
        b0 = (b[0], b[1], 0.0)
        quads = []
        if a[2] > 0 or b[2] > 0:
            if b[2] > 0:
                quads.append((a0, b0, b))
            if a[2] > 0:
                quads.append((a0, b, a))
        for q in quads:
            walls.append(q if not flip else (q[0], q[2], q[1]))
    for c in range(ncol - 1):
        wall(pt(0, c), pt(0, c + 1), False)                  # y = -sy, outward -y
        wall(pt(nrow - 1, c), pt(nrow - 1, c + 1), True)     # y = +sy
    for r in range(nrow - 1):
        wall(pt(r, 0), pt(r + 1, 0), True)                   # x = -sx
        wall(pt(r, ncol - 1), pt(r + 1, ncol - 1), False)    # x = +sx
    return np.array(top, float), (np.array(walls, float) if walls else np.zeros((0, 3, 3)))


def ray_hfield(P, V, hf):
    """hf = dict(size=(sx,sy,sz,sb), top=(F,3,3), walls=(W,3,3)).  Outside origins only (see C16 rule)."""
    sx, sy, sz, sb = hf["size"]
    Pb = P + np.array([0, 0, sb / 2.0])
    xb, Nb = ray_box(Pb, V, (sx, sy, sb / 2.0))
    tri = np.concatenate([hf["top"], hf["walls"]]) if len(hf["walls"]) else hf["top"]
    xt, k, slack = ray_triangles(P, V, tri)
    tn = tri_normals(tri)
    Nt = np.where((k >= 0)[:, None], tn[np.maximum(k, 0)], 0.0)
    use_t = (xt >= 0) & ((xb < 0) | (xt < xb))
    x = np.where(use_t, xt, xb)
    N = np.where(use_t[:, None], Nt, Nb)
    return x, N


# ----------------------------------------------------------------- dispatch

def ray_geom(gtype, P, V, size, extra=None):
    P = np.asarray(P, float)
    V = np.asarray(V, float)
    if gtype == PLANE:
        return ray_plane(P, V, size)
    if gtype == SPHERE:
        return ray_sphere(P, V, size)
    if gtype == CAPSULE:
        return ray_capsule(P, V, size)
    if gtype == ELLIPSOID:
        return ray_ellipsoid(P, V, size)
    if gtype == CYLINDER:
        return ray_cylinder(P, V, size)
    if gtype == BOX:
        return ray_box(P, V, size)
    if gtype == MESH:
        return ray_mesh(P, V, extra)
    if gtype == HFIELD:
        return ray_hfield(P, V, extra)
    raise ValueError(gtype)


def to_local(pos, R, pnt, vec):
    """World ray -> local frame of a geom with world position pos and rotation R (columns = local axes)."""
    return (np.asarray(pnt, float) - pos) @ R, np.asarray(vec, float) @ R


def stable(gtype, P, V, size, extra, delta, jump):
    """Specification-continuity test: evaluates the oracle on the 12 rays obtained by moving the origin by +-delta
    along each axis and the direction by +-delta*|v| along each axis.  A ray is 'stable' when all 13 answers agree on
    hit / no hit and the hit distance (in length units) moves by less than `jump`; normals are 'stable' when they move
    by less than 1e-3.  Unstable rays sit on a discontinuity of the specification (grazing, rim of a finite plane,
    exactly along a face ...) and are boundary-excluded by the caller."""
    x0, N0 = ray_geom(gtype, P, V, size, extra)
    vn = np.linalg.norm(V, axis=1)
    ok = np.ones(len(P), bool)
    nok = np.ones(len(P), bool)
    for ax in range(3):
        for sg in (-1.0, 1.0):
            e = np.zeros(3)
            e[ax] = sg * delta
            for (PP, VV) in ((P + e, V), (P, V + e[None] * vn[:, None])):
                x1, N1 = ray_geom(gtype, PP, VV, size, extra)
                same = (x0 >= 0) == (x1 >= 0)
                ok &= same & (np.abs(x1 - x0) * vn < jump)
                nok &= np.linalg.norm(N1 - N0, axis=1) < 1e-3
    return x0, N0, ok, nok & ok


# ----------------------------------------------------------------- classification helpers (not part of the oracle)

def slab_replica(aabb, xpos, xmat, pnt, vec):
    """Bit-for-bit replica of the arithmetic of mju_raySlab (same operation order, IEEE doubles); used only to attribute
    a mesh miss to BVH culling versus the triangle test."""
    f = np.float64
    with np.errstate(all="ignore"):
        dif = [f(pnt[i]) - f(xpos[i]) for i in range(3)]
        src = [f(xmat[0 + j]) * dif[0] + f(xmat[3 + j]) * dif[1] + f(xmat[6 + j]) * dif[2] for j in range(3)]
        dr = [f(xmat[0 + j]) * f(vec[0]) + f(xmat[3 + j]) * f(vec[1]) + f(xmat[6 + j]) * f(vec[2]) for j in range(3)]
        tmin, tmax = f(0.0), f(np.inf)
        for k in range(3):
            mn = f(aabb[k]) - f(aabb[3 + k])
            mx = f(aabb[k]) + f(aabb[3 + k])
            inv = f(1.0) / dr[k]
            t1 = (mn - src[k]) * inv
            t2 = (mx - src[k]) * inv
            minval = t1 if t1 < t2 else t2
            maxval = t2 if t1 < t2 else t1
            tmin = tmin if tmin > minval else minval
            tmax = tmax if tmax < maxval else maxval
        return bool(tmin < tmax)


def bvh_path_culled(m, d, geomid, face, pnt, vec):
    """True if some BVH node on the root->leaf path of mesh face `face` is rejected by the slab test; None if unknown."""
    meshid = int(m.geom_dataid[geomid])
    adr = int(m.mesh_bvhadr[meshid])
    n = int(m.mesh_bvhnum[meshid])
    child = np.array(m.bvh_child).reshape(-1, 2)[adr:adr + n]
    nodeid = np.array(m.bvh_nodeid)[adr:adr + n]
    aabb = np.array(m.bvh_aabb).reshape(-1, 6)[adr:adr + n]
    parent = {0: -1}
    stack = [0]
    leaf = None
    while stack:
        k = stack.pop()
        if nodeid[k] == face:
            leaf = k
        for c in child[k]:
            if c != -1:
                parent[int(c)] = k
                stack.append(int(c))
    if leaf is None:
        return None
    k = leaf
    xpos = np.array(d.geom_xpos[geomid])
    xmat = np.array(d.geom_xmat[geomid])
    while k != -1:
        if not slab_replica(aabb[k], xpos, xmat, pnt, vec):
            return True
        k = parent[k]
    return False
