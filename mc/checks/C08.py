"""C08 Conservative systems conserve energy and momentum.

Conservative family: every rooted ordered forest with <= N bodies x joint menu {none, hinge, slide, ball, free, hinge2, slide+hinge}
x spring variant {none, linear springs on all joints, linear springs on non-free joints, polynomial springs,
fixed-tendon spring} x gravity {on, off}; no damping / friction / actuation / contact.

Static part (full state lattice): energy[1] == 1/2 v'Mv; energy[0] == gravity + spring potential recomputed in
numpy; (qfrc_spring - qfrc_bias|v=0) == -d energy[0] / dq by central differences along every dof.
Dynamic part (initial-state lattice, RK4, horizon 0.5 s, h in {4,2,1,.5} ms): drift e(h) = max_t |E(t)-E(0)| must
shrink with fitted order >= 3 (on average e(h)/e(h/2) >= 8) over the step sizes where it is above the round-off floor; without gravity the linear and
angular momentum (numpy, about the world origin) of every free-floating tree drift with order >= 3 as well, and the
engine's subtree_linvel*mass / subtree_angmom agree with the numpy momenta.

Subtree part (static, every state of the lattice with non-zero velocity): for EVERY body b, the world included,
subtree_com[b], subtree_linvel[b]*subtreemass[b] and subtree_angmom[b] (about subtree_com[b]) equal the sums over the
descendants of b recomputed in numpy from body-com Jacobians.  Because the backward accumulation passes of mj_subtreeVel
only distinguish a body's own mass from its subtree mass, and a leaf child from an inner child, below a nesting depth of
three, the family is extended for this part alone by the "deep" set: all forests with exactly N+1 bodies x the full joint
menu product, and all forests with N+2 bodies x a covering joint assignment (body i takes menu entry (k+i) mod |menu|,
k = 0..|menu|-1); these models are evaluated statically only (no trajectories), which is cheap.
"""
import itertools
import json
import math
import os

import numpy as np

from .. import alphabet as A
from .. import core, mj
from ..mjutil import relerr, dense
from . import _c05_util as U

LEVEL = "exploration"
META = dict(
    category=LEVEL,
    technique="exhaustive enumeration of a conservative model family (all forests <= N bodies x joint menu x spring variant x gravity) "
              "x state lattice; invariants (energy / momentum drift order under timestep refinement) + numpy reference potentials + finite differences",
    text="For every model of the family and every initial state of the lattice the RK4 energy drift over 0.5 s is measured at four "
         "step sizes and must shrink at order >= 3 above a fixed round-off floor; free-floating trees must conserve linear and angular "
         "momentum at the same order without gravity. Kinetic energy, potential energy and the force/potential gradient relation are "
         "checked against numpy on the full state lattice; the subtree quantities of mj_subtreeVel (com, linear velocity, angular momentum) "
         "of every body including the world are compared with plain sums over descendants, on the family plus a static-only set of deeper "
         "forests (one and two more bodies) so that inner bodies that are themselves children occur. A sign or frame error in bias, spring or gravity forces keeps the motion "
         "plausible but destroys conservation, for the specific joint type / tree shape where it occurs; the family is enumerated exhaustively.",
    note="Order-of-convergence statements are about four step sizes on a finite family. Momenta use the engine's body Jacobians (C07). "
         "Cases whose drift is below the floor at the coarser step are counted as floor-excluded, not as passes. Tendon dead-bands and the "
         "cut locus of ball springs (angle pi) are non-smooth and excluded from the order test (covered statically in C29).",
    design_ref="DESIGN.md §3 C08")

HS = [0.004, 0.002, 0.001, 0.0005]
HORIZON = 0.5
SAMPLE_DT = 0.004         # energy of the actual state sampled at the same physical times for every h
MIN_RATIO = 8.0
CUT_MARGIN = 0.3          # rad
MIN_ORDER = 3.0           # log2(MIN_RATIO)
FLOOR_REL = 1e-9           # floor = FLOOR_REL * energy scale (round-off over <=1000 RK4 steps is ~1e-13 * scale)
TOL = 1e-9
FD_EPS = 1e-5
QUATS3 = A.QUATS[:3]

SPRINGS = ["none", "all", "internal", "poly", "tendon", "tendonband"]
KEY_RK4_QUAT = ("RK4 is only second-order accurate for ball/free joint orientations: stage angular velocities are summed "
                "without the Lie-group (dexp^-1) correction, so energy/momentum drift shrinks like h^2")
KEY_STAGE_ENERGY = ("after mj_step with RK4, mjData.energy is the energy of the last Runge-Kutta stage, not of the previous state "
                    "(mj_forwardSkip recomputes energy although skipsensor=1)")
QUAT_OVERALL = 3.0        # a drift that still converges (on average >= 3x per halving of h) in a model with quaternion joints is
                          # attributed to KEY_RK4_QUAT; a drift that does not shrink (a conservation bug) is reported separately
K_LIN = 'stiffness="1.5" springref="0.2"'
K_POLY = 'stiffness="1.2 0.8 0.6" springref="-0.15"'


def build(par, js, spring, gravity):
    n = len(par)
    jattr = [""] * n
    sections = ""
    if spring == "all":
        jattr = [K_LIN] * n
    elif spring == "internal":
        jattr = [K_LIN if js[i] != "free" else "" for i in range(n)]
        if all(not a or js[i] == "none" for i, a in enumerate(jattr)):
            return None
    elif spring == "poly":
        jattr = [K_POLY] * n
    elif spring in ("tendon", "tendonband"):
        scal = [nm for nm, t in U.joint_names(js) if t in ("hinge", "slide")]
        if len(scal) < 1:
            return None
        j2 = scal[1] if len(scal) > 1 else None
        # "tendonband": a genuine dead band lo < hi; the lattice puts the tendon below, inside and above it
        sl = "0.1" if spring == "tendon" else "-0.05 0.15"
        sections = '<tendon><fixed name="t0" stiffness="0.6 0 0.3" springlength="%s"><joint joint="%s" coef="1.3"/>%s</fixed></tendon>\n' % (
            sl, scal[0], '<joint joint="%s" coef="-0.7"/>' % j2 if j2 else "")
    opt = A.option_elem(timestep=HS[0], integrator="RK4", gravity="0 0 -9.81" if gravity else "0 0 0", flags={"energy": "enable"})
    return U.std_tree_xml(par, js, jattr=jattr, sections=sections, option=opt)


# ------------------------------------------------------------------ numpy references

def ref_potential(m, mi, d, gravity_on):
    V = 0.0
    if gravity_on:
        g = np.array(m.opt.gravity, float)
        xipos = np.array(d.xipos).reshape(-1, 3)
        for b in range(1, mi.nbody):
            V -= float(m.body_mass[b]) * float(g @ xipos[b])
    q = np.array(d.qpos)
    qs = np.array(m.qpos_spring)
    for j in range(mi.njnt):
        k = float(m.jnt_stiffness[j])
        poly = [float(x) for x in np.array(m.jnt_stiffnesspoly).reshape(-1, U.NPOLY)[j]]
        if k == 0 and not any(poly):
            continue
        t = mi.jnt_type[j]
        pa = mi.jnt_qposadr[j]
        if t == U.FREE:
            x = float(np.linalg.norm(q[pa:pa + 3] - qs[pa:pa + 3]))
            V += U.poly_potential(k, poly, x)
            pa += 3
            t = U.BALL
        if t == U.BALL:
            x = float(np.linalg.norm(U.quat_sub(q[pa:pa + 4], qs[pa:pa + 4])))
            V += U.poly_potential(k, poly, x)
        else:
            V += U.poly_potential(k, poly, float(q[pa] - qs[pa]))
    for i in range(mi.ntendon):
        k = float(m.tendon_stiffness[i])
        poly = [float(x) for x in np.array(m.tendon_stiffnesspoly).reshape(-1, U.NPOLY)[i]]
        L = float(d.ten_length[i])
        lo, hi = [float(x) for x in np.array(m.tendon_lengthspring).reshape(-1, 2)[i]]
        x = L - hi if L > hi else (L - lo if L < lo else 0.0)
        V += U.poly_potential(k, poly, x)
    return V


def momenta(lib, m, mi, d):
    """Per tree root (bodies whose parent is the world): linear momentum P, angular momentum about the world origin L,
    subtree mass and com, from body-com Jacobians."""
    nv = mi.nv
    v = np.array(d.qvel)
    xipos = np.array(d.xipos).reshape(-1, 3)
    ximat = np.array(d.ximat).reshape(-1, 3, 3)
    root = [0] * mi.nbody
    for b in range(1, mi.nbody):
        root[b] = b if mi.body_parentid[b] == 0 else root[mi.body_parentid[b]]
    out = {}
    jp = np.zeros((3, nv))
    jr = np.zeros((3, nv))
    for b in range(1, mi.nbody):
        lib.mj_jacBodyCom(m, d, jp, jr, b)
        mb = float(m.body_mass[b])
        vb = jp @ v
        wb = jr @ v
        Iw = ximat[b] @ np.diag(np.array(m.body_inertia[b], float)) @ ximat[b].T
        r = out.setdefault(root[b], dict(P=np.zeros(3), L=np.zeros(3), mass=0.0, mx=np.zeros(3)))
        r["P"] += mb * vb
        r["L"] += np.cross(xipos[b], mb * vb) + Iw @ wb
        r["mass"] += mb
        r["mx"] += mb * xipos[b]
    return out


def _cross(a, b):
    a = np.asarray(a)
    b = np.asarray(b)
    return np.stack([a[..., 1] * b[..., 2] - a[..., 2] * b[..., 1], a[..., 2] * b[..., 0] - a[..., 0] * b[..., 2],
                     a[..., 0] * b[..., 1] - a[..., 1] * b[..., 0]], axis=-1)


def subtree_reference(lib, m, mi, d):
    """For every body b (0 = world): mass, centre of mass, linear momentum and angular momentum about that centre of mass of
    the set {b and all its descendants}: plain sums over the member bodies (membership matrix from the parent ids), momenta
    taken about the world origin and shifted to the subtree's centre of mass once -- no recursion over partial results, so an
    accumulation error in the engine's backward passes cannot be mirrored here."""
    nv = mi.nv
    v = np.array(d.qvel)
    xipos = np.array(d.xipos).reshape(-1, 3)
    ximat = np.array(d.ximat).reshape(-1, 3, 3)
    jp = np.zeros((3, nv))
    jr = np.zeros((3, nv))
    mass = [float(x) for x in m.body_mass]
    pb, lb = [np.zeros(3)], [np.zeros(3)]
    for b in range(1, mi.nbody):
        lib.mj_jacBodyCom(m, d, jp, jr, b)
        Iw = ximat[b] @ np.diag(np.array(m.body_inertia[b], float)) @ ximat[b].T
        pb.append(mass[b] * (jp @ v))
        lb.append(Iw @ (jr @ v))
    # membership matrix S[b, c] = 1 iff c is b or a descendant of b (from parent ids only)
    S = np.eye(mi.nbody)
    for c in range(1, mi.nbody):
        a = mi.body_parentid[c]
        while True:
            S[a, c] = 1.0
            if a == 0:
                break
            a = mi.body_parentid[a]
    mass = np.array(mass)
    pb = np.array(pb)
    lb = np.array(lb)
    ms = S @ mass
    mx = S @ (mass[:, None] * xipos)
    P = S @ pb
    L0 = S @ (lb + _cross(xipos, pb))          # about the world origin
    out = []
    for b in range(mi.nbody):
        if ms[b] <= 0:
            out.append(None)
            continue
        com = mx[b] / ms[b]
        out.append(dict(mass=float(ms[b]), com=com, P=P[b], L=L0[b] - _cross(com, P[b]), n=int(S[b].sum())))
    return out


def subtree_checks(lib, part, m, d, mi, bad, rp):
    """engine's subtree quantities of every body (world included) vs the numpy sums; call after mj_forward."""
    lib.mj_subtreeVel(m, d)
    ref = subtree_reference(lib, m, mi, d)
    slv = np.array(d.subtree_linvel).reshape(-1, 3)
    sam = np.array(d.subtree_angmom).reshape(-1, 3)
    scom = np.array(d.subtree_com).reshape(-1, 3)
    stm = np.array(m.body_subtreemass, float)
    for b, r in enumerate(ref):
        if r is None:
            continue
        part.add("subtree_entries_compared")
        if b == 0:
            part.add("subtree_entries_world")
        elif mi.body_parentid[b] != 0 and r["n"] > 1:
            part.add("subtree_entries_inner_nonroot")
        if abs(stm[b] - r["mass"]) > TOL * r["mass"]:
            bad("body_subtreemass != sum of descendant masses", "body %d: %r vs %r" % (b, float(stm[b]), r["mass"]), rp)
        if relerr(slv[b] * r["mass"], r["P"], atol=1e-3) > TOL:
            bad("subtree_linvel*mass != linear momentum", "body %d: %s vs %s" % (b, slv[b] * r["mass"], r["P"]), rp)
        if relerr(sam[b], r["L"], atol=1e-3) > TOL:
            bad("subtree_angmom != angular momentum about subtree com", "body %d: %s vs %s" % (b, sam[b], r["L"]), rp)
        if relerr(scom[b], r["com"], atol=1e-3) > TOL:
            bad("subtree_com != sum m x / sum m", "body %d: %s vs %s" % (b, scom[b], r["com"]), rp)


# ------------------------------------------------------------------ static checks

def static_checks(lib, part, m, d, mi, ident, xml, gravity_on, spring):
    qs = A.qpos_lattice(m, limit=12)
    vs = A.qvel_lattice(mi.nv, units=False)
    nv = mi.nv
    qs_spring = np.array(m.qpos_spring)

    def bad(name, msg, rp):
        part.violation("%s %s" % (name, ident), "%s: %s (%s)" % (name, msg, ident), rp)
    for qi, q in enumerate(qs):
        for vi, v in enumerate(vs):
            d.qpos[:] = q
            d.qvel[:] = v
            lib.mj_forward(m, d)
            rp = {"xml": xml, "qpos": q, "qvel": v}
            part.count(1)
            if spring == "tendonband" and vi == 0:
                L = float(d.ten_length[0])
                lo, hi = [float(x) for x in np.array(m.tendon_lengthspring).reshape(-1, 2)[0]]
                part.add("deadband_states_" + ("below" if L < lo else "above" if L > hi else "inside"))
            E = np.array(d.energy)
            M = U.fullM(lib, m, d)
            T = 0.5 * float(v @ M @ v)
            if abs(E[1] - T) > TOL * (1e-6 + abs(T)):
                bad("energy[1] != 1/2 v'Mv", "%r vs %r" % (float(E[1]), T), rp)
            V = ref_potential(m, mi, d, gravity_on)
            if abs(E[0] - V) > TOL * (1e-3 + abs(V)):
                bad("energy[0] != gravity + spring potential", "%r vs %r" % (float(E[0]), V), rp)
            if vi:
                # engine's subtree quantities of EVERY body (world included) vs numpy (any joint type, gravity irrelevant)
                subtree_checks(lib, part, m, d, mi, bad, rp)
                continue
            # force == -grad potential (v = 0: qfrc_bias is minus the gravity force)
            frc = np.array(d.qfrc_spring) - np.array(d.qfrc_bias)
            # exclude the cut locus of ball/free springs (relative angle within 1e-3 of pi): potential not differentiable there
            near_cut = False
            if spring in ("all", "poly", "internal"):
                for j in range(mi.njnt):
                    if mi.jnt_type[j] in (U.FREE, U.BALL) and (float(m.jnt_stiffness[j]) != 0):
                        pa = mi.jnt_qposadr[j] + (3 if mi.jnt_type[j] == U.FREE else 0)
                        if abs(np.linalg.norm(U.quat_sub(q[pa:pa + 4], qs_spring[pa:pa + 4])) - math.pi) < 1e-3:
                            near_cut = True
            if near_cut:
                part.add("boundary_excluded")
                continue
            grad = np.zeros(nv)
            for i in range(nv):
                e = np.zeros(nv)
                e[i] = 1.0
                vals = []
                for sgn in (1, -1):
                    d.qpos[:] = U.integrate_pos(mi, q, e, sgn * FD_EPS)
                    lib.mj_forward(m, d)
                    vals.append(float(d.energy[0]))
                grad[i] = (vals[0] - vals[1]) / (2 * FD_EPS)
            e = relerr(frc, -grad, atol=1e-2)
            if e > 1e-6:
                bad("qfrc_spring + gravity force != -d energy[0]/dq", "rel err %.3g: %s vs %s" % (e, frc, -grad), rp)


# ------------------------------------------------------------------ dynamic checks

def simulate(lib, m, d, mi, q0, v0, h, free_roots):
    """RK4 run over HORIZON; total energy (and momenta) of the *actual* state sampled every SAMPLE_DT via mj_forward."""
    nsteps = int(round(HORIZON / h))
    sample_every = int(round(SAMPLE_DT / h))
    m.opt.timestep = h
    lib.mj_resetData(m, d)
    d.qpos[:] = q0
    d.qvel[:] = v0
    en = d.energy
    qs = np.array(m.qpos_spring)
    sprung = [mi.jnt_qposadr[j] + (3 if mi.jnt_type[j] == U.FREE else 0) for j in range(mi.njnt)
              if mi.jnt_type[j] in (U.FREE, U.BALL) and (float(m.jnt_stiffness[j]) != 0 or np.any(np.array(m.jnt_stiffnesspoly).reshape(-1, U.NPOLY)[j]))]
    angmax = 0.0
    E0 = None
    Tmax = 0.0
    Vmin = math.inf
    Vmax = -math.inf
    emax = 0.0
    mom = []
    step = lib.mj_step
    for s in range(nsteps + 1):
        if s % sample_every == 0:
            lib.mj_forward(m, d)
            e0, e1 = float(en[0]), float(en[1])
            if E0 is None:
                E0 = e0 + e1
            Tmax = max(Tmax, e1)
            Vmin = min(Vmin, e0)
            Vmax = max(Vmax, e0)
            emax = max(emax, abs(e0 + e1 - E0))
            if sprung:
                q = np.array(d.qpos)
                for a in sprung:
                    angmax = max(angmax, float(np.linalg.norm(U.quat_sub(q[a:a + 4], qs[a:a + 4]))))
            if free_roots and s % (5 * sample_every) == 0:
                lib.mj_subtreeVel(m, d)
                mm = momenta(lib, m, mi, d)
                mom.append((mm, np.array(d.subtree_linvel).reshape(-1, 3).copy(), np.array(d.subtree_angmom).reshape(-1, 3).copy(),
                            np.array(d.subtree_com).reshape(-1, 3).copy()))
        if s < nsteps:
            step(m, d)
    if int(np.array(d.warning)["number"].sum()):
        return None
    return dict(emax=emax, scale=max(1e-3, Tmax + (Vmax - Vmin)), mom=mom, angmax=angmax)


def _stat(row):
    """debug aid: C08_STATS=<dir> dumps every measured drift sequence (never used for the verdict)."""
    dn = os.environ.get("C08_STATS")
    if dn:
        with open(os.path.join(dn, "c08.%d.jsonl" % os.getpid()), "a") as fh:
            fh.write(json.dumps(core.jsonable(row)) + "\n")


def converges(errs, floor):
    """the drift shrinks on average by >= 3 per halving of h (order >= ~1.6) from the first step size above the floor to the finest"""
    for i0, e in enumerate(errs[:-1]):
        if e > floor:
            return e / max(errs[-1], 1e-300) >= QUAT_OVERALL ** (len(errs) - 1 - i0)
    return False


def order_ok(errs, floor):
    """errs for HS. The observed order p is the least-squares slope of log2(drift) against log2(h) over the step sizes whose
    drift is above the floor (a single pair reduces to log2 of the ratio); p >= MIN_ORDER is required, i.e. on average
    e(h)/e(h/2) >= 8. A fit is used because the maximum drift over the horizon is not a smooth function of h and isolated pairs
    show cancellation. Returns ([(h_first, e_first, e_last, p)] if violated, number of floor-excluded pairs, number of judged pairs)."""
    idx = [i for i, e in enumerate(errs) if e > floor]
    # only a contiguous run starting at the coarsest above-floor step is meaningful (errors decrease with h)
    run = []
    for i in idx:
        if not run or i == run[-1] + 1:
            run.append(i)
    nfloor = (len(errs) - 1) - max(0, len(run) - 1)
    if len(run) < 2:
        return [], nfloor, 0
    x = np.log2([HS[i] for i in run])
    y = np.log2([errs[i] for i in run])
    p = float(np.polyfit(x, y, 1)[0])
    bad = [(HS[run[0]], errs[run[0]], errs[run[-1]], p)] if p < MIN_ORDER else []
    return bad, nfloor, len(run) - 1


NINIT = [2]


def reported_energy_check(lib, part, m, d, mi, ident, xml):
    """doc (piConsistency): after mj_step the quantities in mjData correspond to the previous state -- so does energy."""
    d2 = lib.make_data(m)
    q = A.qpos_lattice(m, quat_levels=QUATS3, limit=2)[-1]
    v = A.qvel_lattice(mi.nv, units=False)[-1]
    for integ in (U.INT_EULER, U.INT_RK4, U.INT_IMPLICITFAST):
        m.opt.integrator = integ
        m.opt.timestep = HS[0]
        lib.mj_resetData(m, d)
        d.qpos[:] = q
        d.qvel[:] = v
        for s in range(3):
            lib.mj_copyData(d2, m, d)
            lib.mj_forward(m, d2)
            Epre = np.array(d2.energy)
            lib.mj_step(m, d)
            part.count(1)
            Erep = np.array(d.energy)
            if np.max(np.abs(Erep - Epre)) > 1e-12 * (1e-3 + np.max(np.abs(Epre))):
                k = KEY_STAGE_ENERGY if integ == U.INT_RK4 else "energy after mj_step != energy of previous state [%s] %s" % (U.INT_NAME[integ], ident)
                part.violation(k, "after mj_step (%s, step %d) mjData.energy=%s but the previous state has energy %s (%s)" % (
                    U.INT_NAME[integ], s, Erep, Epre, ident), {"xml": xml, "qpos": q, "qvel": v, "integrator": U.INT_NAME[integ], "steps": s + 1})
                break
    m.opt.integrator = U.INT_RK4
    d2.free()


def dynamic_checks(lib, part, m, d, mi, ident, xml, gravity_on, spring, par, js):
    quat_levels = QUATS3
    qs = A.qpos_lattice(m, quat_levels=quat_levels, limit=2)[:2]
    vmix = A.qvel_lattice(mi.nv, units=False)[-1] * 1.5
    inits = [(qs[0], vmix), (qs[-1], np.zeros(mi.nv)), (qs[-1], vmix)][:NINIT[0]]
    # free-floating trees: root body has a free joint and (for momentum) no spring to the world
    free_roots = []
    if not gravity_on and spring in ("none", "internal", "tendon"):
        for b in range(1, mi.nbody):
            if mi.body_parentid[b] == 0 and mi.body_jntnum[b] == 1 and mi.jnt_type[mi.body_jntadr[b]] == U.FREE:
                free_roots.append(b)
    if spring == "tendon" and free_roots:
        # tendon across two trees couples them: momentum is conserved only for the union; keep single-tree tendons only
        tj = [int(x) for x in np.array(m.wrap_objid)[:int(np.array(m.tendon_num)[0])]]
        roots = set()
        for j in tj:
            b = mi.jnt_bodyid[j]
            while mi.body_parentid[b] != 0:
                b = mi.body_parentid[b]
            roots.add(b)
        if len(roots) > 1:
            free_roots = []
    for ii, (q0, v0) in enumerate(inits):
        res = []
        for h in HS:
            r = simulate(lib, m, d, mi, q0, v0, h, free_roots)
            res.append(r)
        rp = {"xml": xml, "qpos": q0, "qvel": v0, "hs": HS, "horizon": HORIZON}
        if any(r is None for r in res):
            part.add("diverged_skipped")
            continue
        if max(r["angmax"] for r in res) > math.pi - CUT_MARGIN:
            # a sprung ball/free joint comes close to a relative rotation of pi, where the spring potential 1/2 k theta^2 has a cusp:
            # the dynamics are not smooth there and no integrator keeps its order
            part.add("boundary_excluded_cutlocus")
            continue
        scale = max(r["scale"] for r in res)
        errs = [r["emax"] for r in res]
        floor = FLOOR_REL * scale
        bad, nfloor, ntested = order_ok(errs, floor)
        _stat({"kind": "energy", "ident": ident, "init": ii, "errs": errs, "floor": floor, "quat": bool(mi.quat_adr)})
        part.add("energy_pairs_floor_excluded", nfloor)
        part.add("energy_pairs_tested", ntested)
        key = (par, js, spring, gravity_on, ii) if ntested else None
        part.count(1, key=key, sample={"parents": par, "joints": js, "spring": spring, "gravity": gravity_on, "qpos": q0, "qvel": v0,
                                       "energy_drift": errs} if (ntested == 3 and ii == 0) else None)
        _stat({"kind": "order", "ident": ident, "quat": bool(mi.quat_adr), "p": (bad[0][3] if bad else None), "errs": errs, "floor": floor})
        for hb, e1, e2, p in bad:
            k = KEY_RK4_QUAT if (mi.quat_adr and converges(errs, floor)) else "energy drift order < 3 %s" % ident
            part.violation(k, "RK4 energy drift over %g s shrinks with observed order %.2f < %g under timestep refinement: drifts %s for h=%s "
                           "(floor %.2g) init %d (%s)" % (HORIZON, p, MIN_ORDER, ["%.3g" % e for e in errs], HS, floor, ii, ident), rp)
        # momentum
        for b in free_roots:
            perr, lerr = [], []
            pscale = lscale = 1e-6
            for r in res:
                P0 = r["mom"][0][0][b]["P"]
                L0 = r["mom"][0][0][b]["L"]
                pe = le = 0.0
                for mm, slv, sam, scom in r["mom"]:
                    pe = max(pe, float(np.max(np.abs(mm[b]["P"] - P0))))
                    le = max(le, float(np.max(np.abs(mm[b]["L"] - L0))))
                    pscale = max(pscale, float(np.max(np.abs(mm[b]["P"]))), float(mm[b]["mass"]) * 0.1)
                    lscale = max(lscale, float(np.max(np.abs(mm[b]["L"]))), 1e-3)
                    # engine's subtree quantities vs numpy
                    Peng = slv[b] * mm[b]["mass"]
                    com = mm[b]["mx"] / mm[b]["mass"]
                    Lcom = mm[b]["L"] - np.cross(com, mm[b]["P"])
                    if relerr(Peng, mm[b]["P"], atol=1e-3) > TOL:
                        part.violation("subtree_linvel*mass != linear momentum %s" % ident, "%s vs %s (%s)" % (Peng, mm[b]["P"], ident), rp)
                    if relerr(sam[b], Lcom, atol=1e-3) > TOL:
                        part.violation("subtree_angmom != angular momentum about subtree com %s" % ident, "%s vs %s (%s)" % (sam[b], Lcom, ident), rp)
                    if relerr(scom[b], com, atol=1e-3) > TOL:
                        part.violation("subtree_com != sum m x / sum m %s" % ident, "%s vs %s (%s)" % (scom[b], com, ident), rp)
                perr.append(pe)
                lerr.append(le)
            for name, errs2, sc in (("linear", perr, pscale), ("angular", lerr, lscale)):
                bad, nfloor, ntested = order_ok(errs2, FLOOR_REL * sc)
                _stat({"kind": name, "ident": ident, "init": ii, "errs": errs2, "floor": FLOOR_REL * sc, "quat": True})
                part.add("momentum_pairs_floor_excluded", nfloor)
                part.add("momentum_pairs_tested", ntested)
                if ntested:
                    part.count(1, key=(par, js, spring, ii, b, name))
                for hb, e1, e2, p in bad:
                    part.violation(KEY_RK4_QUAT if converges(errs2, FLOOR_REL * sc) else "%s momentum drift order < 3 %s" % (name, ident),
                                   "%s momentum of the free-floating tree rooted at body %d drifts with observed order %.2f < %g: drifts %s for h=%s "
                                   "init %d (%s)" % (name, b, p, MIN_ORDER, ["%.3g" % e for e in errs2], HS, ii, ident), rp)


def run_case(lib, part, par, js, spring, gravity_on):
    xml = build(par, js, spring, gravity_on)
    if xml is None:
        part.add("variant_not_applicable")
        return
    m = lib.load_xml(xml)
    d = lib.make_data(m)
    mi = U.MInfo(m)
    ident = "parents=%s joints=%s spring=%s gravity=%s" % (par, js, spring, "on" if gravity_on else "off")
    static_checks(lib, part, m, d, mi, ident, xml, gravity_on, spring)
    reported_energy_check(lib, part, m, d, mi, ident, xml)
    if spring == "tendonband":
        # the dead-band force has a kink at the band edges: the RK4 order test does not apply; statics only
        part.add("dynamic_skipped_nonsmooth_deadband")
    else:
        dynamic_checks(lib, part, m, d, mi, ident, xml, gravity_on, spring, par, js)
    d.free()
    m.free()


def height(par):
    """number of bodies on the longest root-to-leaf path"""
    dep = []
    for p in par:
        dep.append(1 if p < 0 else dep[p] + 1)
    return max(dep) if dep else 0


def deep_models(n_full, n_cover, menu):
    """The "deep" set of the subtree part: all forests with exactly n_full bodies x full product of the joint menu, and all
    forests with exactly n_cover bodies x a covering assignment (body i takes entry (k+i) mod |menu_i|, k = 0..|menu|-1)."""
    for par in A.forests(n_full):
        doms = [A.joint_menu(p == -1, menu) for p in par]
        for js in itertools.product(*doms):
            if not all(j == "none" for j in js):
                yield par, js
    for par in A.forests(n_cover):
        doms = [A.joint_menu(p == -1, menu) for p in par]
        seen = set()
        for k in range(len(menu)):
            js = tuple(dm[(k + i) % len(dm)] for i, dm in enumerate(doms))
            if js not in seen and not all(j == "none" for j in js):
                seen.add(js)
                yield par, js


def run_deep(lib, part, par, js):
    """static subtree part on one model of the deep set: covering configuration lattice x mixed velocity, no trajectories"""
    opt = A.option_elem(timestep=HS[0], integrator="RK4", gravity="0 0 0", flags={"energy": "enable"})
    xml = U.std_tree_xml(par, js, option=opt)
    m = lib.load_xml(xml)
    d = lib.make_data(m)
    mi = U.MInfo(m)
    ident = "parents=%s joints=%s spring=none gravity=off" % (par, js)
    v = A.qvel_lattice(mi.nv, units=False)[-1]
    deep = height(par) >= 3

    def bad(name, msg, rp):
        part.violation("%s %s" % (name, ident), "%s: %s (%s)" % (name, msg, ident), rp)
    part.add("deep_models")
    part.add("deep_models_height_ge3", int(deep))
    for qi, q in enumerate(A.qpos_lattice(m, limit=12)):
        d.qpos[:] = q
        d.qvel[:] = v
        lib.mj_forward(m, d)
        part.count(1, key=("subtree", par, js, qi) if deep else None,
                   sample={"parents": par, "joints": js, "qpos": q, "qvel": v, "part": "subtree"} if qi == 1 and deep else None)
        part.add("deep_states")
        subtree_checks(lib, part, m, d, mi, bad, {"xml": xml, "qpos": q, "qvel": v})
    d.free()
    m.free()


def _chunk(chunk):
    lib = mj.load()
    part = core.Part()
    for it in chunk:
        if it[0] == "deep":
            try:
                run_deep(lib, part, it[1], it[2])
            except mj.MjError as e:
                part.violation("engine error parents=%s joints=%s spring=none" % (it[1], it[2]), "unexpected mju_error/compile error: %s" % e,
                               {"parents": it[1], "joints": it[2], "part": "deep"})
            continue
        par, js, spring, g = it
        try:
            run_case(lib, part, par, js, spring, g)
        except mj.MjError as e:
            part.violation("engine error parents=%s joints=%s spring=%s" % (par, js, spring), "unexpected mju_error/compile error: %s" % e,
                           {"parents": par, "joints": js, "spring": spring, "gravity": g})
    return part


MENU_QUICK = ["none", "hinge", "slide", "ball", "free", "hinge2", "slidehinge"]
MENU_THOROUGH = ["none", "hinge", "slide", "ball", "free", "hinge2"]


def run(ctx):
    mj.load()
    nmax = ctx.q(2, 3)
    MENU = ctx.q(MENU_QUICK, MENU_THOROUGH)
    NINIT[0] = ctx.q(2, 3)
    items = [(par, js, sp, g) for par, js in U.models(nmax, MENU) for sp in SPRINGS for g in (1, 0)]
    # canonical (minimal) replays of the known root causes are produced first, in-process
    for it in [((-1,), ("ball",), "all", 0)]:
        ctx.merge(_chunk([it]))
    deep = [("deep", par, js) for par, js in deep_models(nmax + 1, nmax + 2, MENU)]
    core.pmap(ctx, _chunk, items + deep, nchunks=min(len(items) + len(deep), 256))
    ctx.extra["model_variants"] = len(items)
    ctx.extra["deep_set_models"] = len(deep)
    ctx.extra["deep_set_models_height_ge3"] = sum(1 for _, par, _ in deep if height(par) >= 3)
    ctx.rule = ("all rooted ordered forests with <=%d bodies x full product of the joint menu %s x spring variant %s x gravity {on,off}; "
                "static: covering lattice of <=12 configurations x {zero, mixed} velocity (energy[1], energy[0], force = -grad potential by central "
                "FD eps=%g); dynamic: %d initial states x h in %s over %g s with RK4, fitted order of the drift >= log2(%g) over the step sizes whose drift is > %g*energy scale; "
                "momentum of free-rooted trees sampled every 0.02 s. non-trivial = a case whose drift is above the floor for at least one pair. "
                "subtree part (static): at every lattice state with non-zero velocity subtree_com / subtree_linvel / subtree_angmom / body_subtreemass "
                "of EVERY body (world included) against plain numpy sums over the body's descendants; for this part the family is extended by the "
                "deep set = all forests with exactly %d bodies x full menu product + all forests with exactly %d bodies x covering joint assignment "
                "(body i takes menu entry (k+i) mod |menu|), gravity off, no springs, <=12 configurations x mixed velocity; non-trivial there = "
                "(model,state) with a forest of height >= 3 (an inner body that is itself a child)" % (
                    nmax, MENU, SPRINGS, FD_EPS, NINIT[0], HS, HORIZON, MIN_RATIO, FLOOR_REL, nmax + 1, nmax + 2))
    ctx.assumptions = ["momenta are built from mj_jacBodyCom / xipos / ximat (C07)", "floor-excluded pairs are counted in coverage, not treated as passes",
                       "ball-spring cut locus (relative angle within 1e-3 of pi) excluded from the gradient test (boundary_excluded); runs in which a sprung "
                       "ball/free joint comes within 0.3 rad of it are excluded from the order test (boundary_excluded_cutlocus)"]
