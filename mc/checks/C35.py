"""C35 Compiled mass properties match the geometry.

Finite lattices, all compiled by the tree's compiler from MJCF, compared with an independent numpy reference
(_c35_ref: closed forms for solid/shell primitives validated against quadrature at start-up, exact polyhedron
integrals, parallel-axis composition):

 A  single geom:   5 primitive types x sizes x poses x {density, density', explicit mass} x shellinertia x length scale
 B  combinations:  every 1-, 2-, 3-subset (thorough: every non-empty subset) of 6-geom menus (one geom per type + a mesh) on one body x scale,
                   in the body frame, and the same bodies behind a free joint with align true/false (world frame)
 C  meshes:        box, n-gon prisms (8..64), icospheres (0..2), a non-convex L prism x inertia {convex,exact,legacy,shell}
                   x {faces given, hull only} x {scale, mirror, refpos/refquat} : exact polyhedron of the float32 vertices;
                   refinement series against the primitive they tessellate (monotone, below the analytic bound)
 D  options:       inertiafromgeom x explicit inertial, fullinertia over a rotation lattice (incl. degenerate spectra,
                   near-diagonal), balanceinertia, boundmass/boundinertia, inertiagrouprange, settotalmass,
                   mj_setTotalmass, body_subtreemass on every forest with <= 4 bodies
 every body:       R(iquat) diag(inertia) R' reconstructs the reference tensor, iquat is a unit quaternion, principal
                   moments are positive and satisfy the triangle inequality.
"""
import itertools
import math

import numpy as np

from .. import alphabet as A
from .. import core, mj
from . import _c35_ref as R

LEVEL = "exploration"
META = dict(
    category=LEVEL,
    technique="exhaustive enumeration of geom / mesh / compiler-option lattices, closed-form + exact-polyhedron reference in numpy",
    text="Every element of the stated lattices (geom type x size x pose x mass mode x shell x scale; all 1-3 geom subsets of "
         "6-geom menus; every tessellation x inertia mode x mesh transform; every compiler option combination) is compiled by the "
         "tree's compiler and body_mass / body_ipos / R(body_iquat) diag(body_inertia) R' are compared with closed forms combined "
         "by the parallel-axis theorem.  The reference is independent of user_objects.cc / user_mesh.cc and is itself checked "
         "against numerical quadrature on every run.",
    note="Tolerances: 1e-9 relative for primitives and exact polyhedra (float32 vertex rounding is applied in the reference as "
         "documented for mesh storage); tessellation error must decrease with refinement and stay below (edge angle)^2.  "
         "qhull is replaced by the sandbox's brute-force hull (<= 220 vertices): inertia='convex' exercises the tree's volume code "
         "on the shim's hull.  OBJ/STL/MSH decoders, SDF and hfield geoms are not in the alphabet.",
    design_ref="DESIGN.md §3 C35")

TOL = 1e-9          # relative, primitives and exact polyhedra
TOL_EIG = 1e-9      # tensor reconstruction
DENS = (1000.0, 417.3)
MASS = 0.83

POSES = [((0.0, 0.0, 0.0), (1.0, 0.0, 0.0, 0.0)),
         ((0.03, 0.02, -0.05), (1.0, 0.0, 0.0, 0.0)),
         ((0.15, -0.2, 0.1), (0.8, 0.2, -0.4, 0.4)),
         ((-0.07, 0.11, 0.02), (0.5, 0.5, 0.5, 0.5)),
         ((0.0, 0.0, 0.09), (0.0, 0.6, 0.0, 0.8))]
SIZES = {"sphere": [(0.07,), (0.013,), (0.5,)],
         "capsule": [(0.04, 0.1), (0.09, 0.01), (0.01, 0.3)],
         "cylinder": [(0.05, 0.08), (0.12, 0.005), (0.008, 0.25)],
         "ellipsoid": [(0.05, 0.07, 0.09), (0.11, 0.03, 0.02), (0.06, 0.06, 0.06)],
         "box": [(0.05, 0.07, 0.09), (0.2, 0.01, 0.03), (0.04, 0.04, 0.04)]}
PRIMS = ["sphere", "capsule", "ellipsoid", "cylinder", "box"]

K_ELL_AREA = "ellipsoid shellinertia: surface area is Thomsen's approximation (mass = density*area off by up to ~1%)"
K_ELL_INERTIA = ("ellipsoid shellinertia: inertia is that of the layer between the ellipsoid and one with semi-axes +1e-6 "
                 "(non-uniform thickness, finite difference), not of a uniform surface density")
K_EIG_REL = ("mjuu_eig3 (Jacobi) stops when the next rotation is below ~1.4e-6 rad (cosine > 1-1e-12): body_iquat/body_inertia "
             "reconstruct the inertia tensor only to ~1e-7 relative (off-diagonal residue up to 1.4e-6 x eigenvalue gap)")
K_EIG_ABS = ("mjuu_eig3 (Jacobi) stops at an ABSOLUTE off-diagonal threshold 1e-12: for small bodies (inertia << 1e-3) the principal "
             "frame / moments are inaccurate (relative error ~1e-12 / inertia)")
K_CONVEX_MIRROR = ("mesh inertia='convex' with a mirroring scale (negative determinant) does not compile ('mesh volume is negative'): "
                   "the hull faces are built before the transform and are not re-oriented like the mesh faces")
K_TINY_MASS = "explicit geom mass ignored for a small geom (volume/area below mjEPS=1e-14): body gets mass 0"

MINIMAL = {
    K_EIG_REL: dict(xml='<mujoco><worldbody><body><inertial pos="0 0 0" mass="2" fullinertia="0.20144 0.20256 0.246 0.00192 0.0432 '
                        '0.0576"/></body></worldbody></mujoco>',
                    observed="R(body_iquat) diag(body_inertia) R' differs from the given matrix by 7.3e-8 relative (entries (0,2),(1,2))",
                    expected="agreement to ~1e-15 (the matrix is exactly R diag(0.3,0.2,0.15) R' for quat (0.8,0.2,-0.4,0.4)/|.|)"),
    K_EIG_ABS: dict(xml='<mujoco><worldbody><body><inertial pos="0 0 0" mass="3.1e-6" fullinertia="1.50932834e-12 3.20999308e-12 '
                        '2.89764715e-12 -2.9290578e-13 -8.13901493e-13 -1.1241754e-13"/></body></worldbody></mujoco>',
                    observed="body_inertia = (3.21e-12, 2.90e-12, 1.51e-12) = the DIAGONAL of the given matrix, body_iquat = an axis "
                             "permutation: all off-diagonals (< 1e-12 absolute, 25% of the largest moment) are dropped; the same tensor "
                             "arises from a 3.1 mg two-geom body of ~2 mm extent (combo menu A subset (2,5) at scale 0.01)",
                    expected="principal moments (3.287e-12, 3.243e-12, 1.088e-12) and the rotated principal frame, as obtained for "
                             "the same matrix scaled by 1e6"),
    K_ELL_AREA: dict(xml='<mujoco><worldbody><body><geom type="ellipsoid" size="0.2 0.2 0.01" shellinertia="true" density="10"/></body>'
                         '</worldbody></mujoco>',
                     observed="body_mass = 10 * 0.25634 (Thomsen), +1.06% ; -0.87% for size 0.3 0.02 0.02",
                     expected="10 * exact surface area 0.2536477"),
    K_ELL_INERTIA: dict(xml='<mujoco><worldbody><body><geom type="ellipsoid" size="0.3 0.02 0.02" shellinertia="true" mass="1"/></body>'
                            '</worldbody></mujoco>',
                        observed="body_inertia/mass off by -15% (y,z), +5% (x); +1.7e-5 even for a sphere-shaped ellipsoid size 0.06 0.06 0.06",
                        expected="second moments of a uniform surface density on the ellipsoid"),
    K_CONVEX_MIRROR: dict(xml='<mujoco><asset><mesh name="m" vertex="0.1 0.1 0.1  0.1 -0.1 -0.1  -0.1 0.1 -0.1  -0.1 -0.1 0.1" '
                              'scale="-1 1 1" inertia="convex"/></asset><worldbody><body><geom type="mesh" mesh="m"/></body></worldbody>'
                              '</mujoco>',
                          observed="compile error 'mesh volume is negative (misoriented triangles)'; inertia=exact/legacy/shell compile",
                          expected="the mirrored tetrahedron's mass properties"),
    K_TINY_MASS: dict(xml='<mujoco><worldbody><body><geom type="sphere" size="7e-6" mass="0.37"/></body></worldbody></mujoco>',
                      observed="body_mass = 0 (geom volume 1.4e-15 < mjEPS, explicit mass silently dropped)", expected="body_mass = 0.37"),
}


def fmt(v):
    return " ".join("%.17g" % x for x in v)


# ------------------------------------------------------------------------------------------ geoms

def geom_xml(g, scale=1.0, mscale=1.0):
    a = 'type="%s"' % g["type"]
    if g["type"] == "mesh":
        a += ' mesh="%s"' % g["mesh"]
    else:
        a += ' size="%s"' % fmt([s * scale for s in g["size"]])
    a += ' pos="%s" quat="%s"' % (fmt([p * scale for p in g["pos"]]), fmt(g["quat"]))
    if "mass" in g:
        a += ' mass="%.17g"' % (g["mass"] * mscale)
    if "density" in g:
        a += ' density="%.17g"' % g["density"]
    if g.get("shell"):
        a += ' shellinertia="true"'
    if "group" in g:
        a += ' group="%d"' % g["group"]
    return "<geom %s/>" % a


def geom_ref(g, scale=1.0, meshes=None, mscale=1.0):
    """(mass, com, I about com) of one geom in the body frame."""
    if g["type"] == "mesh":
        mz = meshes[g["mesh"]]
        meas, com_l, I_l = mz["ref"]          # per unit density, in the mesh's user frame (already scaled by the asset)
    else:
        size = [s * scale for s in g["size"]]
        meas, ipm = R.PRIM[g["type"]](size, bool(g.get("shell")))
        com_l, I_l = np.zeros(3), np.diag(ipm) * meas
    m = g["mass"] * mscale if "mass" in g else g.get("density", 1000.0) * meas
    return R.placed(m, com_l, I_l * (m / meas), [p * scale for p in g["pos"]], g["quat"])


def geom_measure(g, scale=1.0, meshes=None):
    if g["type"] == "mesh":
        return meshes[g["mesh"]]["ref"][0]
    return R.PRIM[g["type"]]([s * scale for s in g["size"]], bool(g.get("shell")))[0]


def body_ref(geoms, scale=1.0, meshes=None, mscale=1.0):
    return R.combine([geom_ref(g, scale, meshes, mscale) for g in geoms])


def viol(part, key, what, rp):
    """violation with the canonical minimal reproducer of a known root cause attached."""
    if key in MINIMAL:
        rp = dict(rp or {}, minimal=MINIMAL[key])
    part.violation(key, what, rp)


def compiled(m, b):
    q = np.array(m.body_iquat[b])
    Rm = R.quat2mat(q)
    d = np.array(m.body_inertia[b])
    return float(m.body_mass[b]), np.array(m.body_ipos[b]), Rm @ np.diag(d) @ Rm.T, q, d


def eig_attribution(q, d, rI, Rm=None):
    """Is (q, d) what a Jacobi iteration with mjuu_eig3's two termination tests leaves behind for the tensor rI?
    D = R' rI R must have diag == d and every off-diagonal entry below 1e-12 (absolute test) or below
    1.5e-6 |d_i - d_j| (rotation/cosine test).  Returns the root-cause key, or None when the result is something else."""
    Rm = R.quat2mat(q) if Rm is None else Rm
    D = Rm.T @ rI @ Rm
    scale = float(np.max(np.abs(d)))
    # eigval is read off diag(R' M R) for the final R, so the diagonal agrees to rounding whatever the residue is
    if float(np.max(np.abs(np.diag(D) - d))) > 1e-12 * scale:
        return None
    rel = False
    for i, j in ((0, 1), (0, 2), (1, 2)):
        off = abs(D[i, j])
        if off <= 1e-12:
            continue
        if off <= 1.5e-6 * abs(d[i] - d[j]) + 1e-12:
            rel = True
            continue
        return None
    return K_EIG_REL if rel else K_EIG_ABS


def compare(part, label, key, rp, got, ref, length, tol=TOL, extra_checks=True):
    """got/ref = (mass, com, tensor[, quat, diag]); returns the largest relative error."""
    gm, gc, gI = got[0], got[1], got[2]
    rm, rc, rI = ref
    em = abs(gm - rm) / rm
    ec = float(np.max(np.abs(gc - rc))) / length
    eI = float(np.max(np.abs(gI - rI)) / np.max(np.abs(rI)))
    if not all(np.isfinite([em, ec, eI])):
        em = float("inf")
    if em > tol:
        part.violation(key + ": body_mass", "%s: body_mass %.17g, reference %.17g (rel %.3g)" % (label, gm, rm, em), rp)
    if ec > tol:
        part.violation(key + ": body_ipos", "%s: body_ipos %s, reference COM %s (err/length %.3g)" % (label, gc, rc, ec), rp)
    if eI > tol:
        kk = key + ": inertia tensor"
        if len(got) > 3 and em <= tol and ec <= tol:
            kk = eig_attribution(got[3], got[4], rI, got[5] if len(got) > 5 else None) or kk
        viol(part, kk, "%s: R diag(I) R' =\n%s\nreference\n%s (rel %.3g)" % (label, gI, rI, eI), rp)
    if extra_checks and len(got) > 3:
        q, d = got[3], got[4]
        if abs(np.linalg.norm(q) - 1) > 1e-12:
            part.violation(key + ": body_iquat not unit", "%s: |iquat|-1 = %.3g" % (label, np.linalg.norm(q) - 1), rp)
        s = np.sort(d)
        if s[0] <= 0 or s[0] + s[1] < s[2] * (1 - 1e-12):
            part.violation(key + ": principal moments violate A+B>=C", "%s: body_inertia %s" % (label, d), rp)
    return max(em, ec, eI)


# ------------------------------------------------------------------------------------------ A: single geoms

def items_single(thorough):
    ns = 3
    npz = 5 if thorough else 3
    scales = (1.0, 0.1, 0.01, 0.001) if thorough else (1.0, 0.01)
    out = []
    for t in PRIMS:
        for si in range(ns):
            for sc in scales:
                out.append(("single", t, si, npz, sc))
    return out


def run_single(lib, part, item):
    _, t, si, npz, sc = item
    size = SIZES[t][si]
    geoms = []
    for pi in range(npz):
        for mm in ("d0", "d1", "mass"):
            for shell in (False, True):
                g = dict(type=t, size=size, pos=POSES[pi][0], quat=POSES[pi][1], shell=shell)
                if mm == "mass":
                    g["mass"] = MASS * sc ** 3
                else:
                    g["density"] = DENS[int(mm[1])] * (0.01 if shell else 1.0)
                geoms.append((pi, mm, shell, g))
    body = "".join('<body pos="%g 0 0">%s</body>\n' % (i, geom_xml(g, sc)) for i, (_, _, _, g) in enumerate(geoms))
    xml = A.mjcf(body)
    m = lib.load_xml(xml)
    for i, (pi, mm, shell, g) in enumerate(geoms):
        b = i + 1
        label = "single %s size=%s scale=%g pose=%d %s shell=%s" % (t, size, sc, pi, mm, shell)
        rp = {"xml": A.mjcf("<body>%s</body>" % geom_xml(g, sc)), "body": 1}
        ref = body_ref([g], sc)
        got = compiled(m, b)
        L = max(max(size), max(abs(x) for x in g["pos"]) or 0) * sc
        if t == "ellipsoid" and shell:
            # two documented-nowhere approximations, one key each (independent of size / pose / scale)
            if mm != "mass" and abs(got[0] - ref[0]) / ref[0] > TOL:
                viol(part, K_ELL_AREA, "%s: body_mass %.12g, density*exact area %.12g (rel %.3g)" % (
                    label, got[0], ref[0], abs(got[0] - ref[0]) / ref[0]), rp)
            ipm_got = got[2] / got[0]
            ipm_ref = ref[2] / ref[0]
            e = float(np.max(np.abs(ipm_got - ipm_ref)) / np.max(np.abs(ipm_ref)))
            if e > TOL:
                viol(part, K_ELL_INERTIA, "%s: inertia/mass differs from the uniform shell by rel %.3g" % (label, e), rp)
            ec = float(np.max(np.abs(got[1] - ref[1]))) / L
            if ec > TOL:
                part.violation("single ellipsoid shell: body_ipos", "%s: %s vs %s" % (label, got[1], ref[1]), rp)
            part.count(1, key=("single", t, si, pi, mm, shell, sc))
            continue
        meas = R.PRIM[t]([x * sc for x in size], shell)[0]
        if mm == "mass" and meas <= 1e-14 and got[0] == 0.0:
            viol(part, K_TINY_MASS, "%s: measure %.3g <= mjEPS, mass=%.3g -> body_mass 0" % (label, meas, g["mass"]), rp)
            part.count(1, key=("single", t, si, pi, mm, shell, sc))
            continue
        e = compare(part, label, "single %s%s" % (t, " shell" if shell else ""), rp, got, ref, L)
        part["extra"]["worst_single"] = max(part["extra"].get("worst_single", 0.0), e)
        part.count(1, key=("single", t, si, pi, mm, shell, sc) if (pi > 0 or shell) else None,
                   sample={"geom": g, "scale": sc} if (pi == 2 and shell and mm == "mass") else None)
    m.free()


# ------------------------------------------------------------------------------------------ B: combinations

TETRA = [(0.1, 0.1, 0.1), (0.1, -0.1, -0.1), (-0.1, 0.1, -0.1), (-0.1, -0.1, 0.1)]
TETRA_F = [(0, 1, 2), (0, 3, 1), (0, 2, 3), (1, 3, 2)]


def menus():
    mA = [dict(type="sphere", size=(0.07,), pos=(0.1, 0, 0), quat=(1, 0, 0, 0), density=1000.0),
          dict(type="capsule", size=(0.04, 0.1), pos=(0, 0.15, 0.05), quat=(0.8, 0.2, -0.4, 0.4), density=800.0),
          dict(type="ellipsoid", size=(0.05, 0.07, 0.09), pos=(-0.1, 0.05, 0), quat=(0.9, 0.1, 0.3, -0.2), mass=0.7),
          dict(type="cylinder", size=(0.05, 0.08), pos=(0.03, 0.02, -0.12), quat=(0.7, -0.1, 0.5, 0.3), density=12.0, shell=True),
          dict(type="box", size=(0.05, 0.07, 0.09), pos=(0, -0.13, 0.08), quat=(0.5, 0.5, 0.5, 0.5), density=1200.0),
          dict(type="mesh", mesh="tet", pos=(0.08, 0.08, 0.08), quat=(0.6, 0, 0.8, 0), density=900.0)]
    mB = [dict(type="sphere", size=(0.05,), pos=(0, 0, 0.2), quat=(0.3, 0.4, 0.5, 0.6), density=9.0, shell=True),
          dict(type="capsule", size=(0.03, 0.12), pos=(0.1, 0.1, 0.1), quat=(0.1, 0.9, 0.1, 0.2), mass=0.4, shell=True),
          dict(type="ellipsoid", size=(0.11, 0.03, 0.02), pos=(0, 0, 0), quat=(1, 0, 0, 0), density=1000.0),
          dict(type="cylinder", size=(0.12, 0.005), pos=(-0.05, 0.02, 0.03), quat=(0.5, -0.5, 0.5, 0.5), mass=1.3),
          dict(type="box", size=(0.2, 0.01, 0.03), pos=(0.02, -0.01, -0.06), quat=(0.9, 0.1, 0.3, -0.2), density=15.0, shell=True),
          dict(type="mesh", mesh="tet", pos=(-0.1, -0.1, 0.0), quat=(1, 0, 0, 0), mass=0.25)]
    mC = [dict(type="sphere", size=(0.013,), pos=(0.3, 0, 0), quat=(1, 0, 0, 0), mass=2.0),
          dict(type="capsule", size=(0.01, 0.3), pos=(0, 0, 0), quat=(0.7071067811865476, 0.7071067811865476, 0, 0), density=2000.0),
          dict(type="ellipsoid", size=(0.06, 0.06, 0.06), pos=(0.0, 0.25, 0), quat=(1, 0, 0, 0), density=500.0),
          dict(type="cylinder", size=(0.008, 0.25), pos=(0, 0, 0.1), quat=(1, 0, 0, 0), density=2000.0),
          dict(type="box", size=(0.04, 0.04, 0.04), pos=(0, 0, -0.3), quat=(0.9238795325112867, 0, 0, 0.3826834323650898), density=700.0),
          dict(type="mesh", mesh="tet", pos=(0, 0, 0), quat=(0.9, 0.1, 0.3, -0.2), density=100.0)]
    return {"A": mA, "B": mB, "C": mC}


def mesh_tet(scale):
    V = np.array(TETRA, float) * scale
    Vf = V.astype(np.float32).astype(float)
    return {"asset": '<mesh name="tet" vertex="%s" face="%s" inertia="exact"/>' % (
        fmt(V.ravel()), " ".join(str(i) for f in TETRA_F for i in f)), "ref": R.poly_solid(Vf, TETRA_F)}


def items_combo(thorough):
    out = []
    kmax = 6 if thorough else 3
    scales = (1.0, 0.1, 0.01, 0.001) if thorough else (1.0, 0.1, 0.01)
    for mn in ("A", "B", "C"):
        for sc in scales:
            for free in (0, 1, 2):     # no joint / free joint align=false / free joint align=true
                out.append(("combo", mn, kmax, sc, free))
    return out


def run_combo(lib, part, item):
    _, mn, kmax, sc, free = item
    menu = menus()[mn]
    subsets = [s for k in range(1, kmax + 1) for s in itertools.combinations(range(6), k)]
    meshes = {"tet": mesh_tet(sc)}
    bpose = POSES[2]
    # documented / diagnosed input limits: moving bodies need mass and inertia above mjMINVAL (1e-15), and the principal-axes
    # computation of a multi-geom body rejects eigenvalues below mjEPS (1e-14, "inertia must have positive eigenvalues").
    # Subsets whose reference moments come within 100x of those limits are not valid inputs (counted).
    keep = []
    for s in subsets:
        if free or len(s) > 1:
            rm, _, rI = body_ref([menu[i] for i in s], sc, meshes, sc ** 3)
            if rm < 1e-12 or float(np.min(np.linalg.eigvalsh(rI))) < 1e-12:
                part.add("boundary_excluded")
                continue
        keep.append(s)
    subsets = keep
    if not subsets:
        return
    bodies = ""
    for s in subsets:
        j = "" if not free else '<freejoint align="%s"/>' % ("false" if free == 1 else "true")
        bodies += '<body pos="%s" quat="%s">%s%s</body>\n' % (
            fmt([p * sc for p in bpose[0]]), fmt(bpose[1]), j, "".join(geom_xml(menu[i], sc, sc ** 3) for i in s))
    xml = A.mjcf(bodies, asset=meshes["tet"]["asset"])
    m = lib.load_xml(xml)
    Rb = R.quat2mat(bpose[1])
    pb = np.array(bpose[0]) * sc
    for bi, s in enumerate(subsets):
        b = bi + 1
        geoms = [menu[i] for i in s]
        label = "combo menu %s subset %s scale=%g free=%d" % (mn, s, sc, free)
        rp = {"menu": mn, "subset": s, "scale": sc, "free": free,
              "xml": A.mjcf('<body pos="%s" quat="%s">%s%s</body>' % (
                  fmt(pb), fmt(bpose[1]), "" if not free else '<freejoint align="%s"/>' % ("false" if free == 1 else "true"),
                  "".join(geom_xml(g, sc, sc ** 3) for g in geoms)), asset=meshes["tet"]["asset"])}
        ref = body_ref(geoms, sc, meshes, sc ** 3)
        got = compiled(m, b)
        L = 0.3 * sc
        has_ell_shell = any(g["type"] == "ellipsoid" and g.get("shell") for g in geoms)
        assert not has_ell_shell
        if any("mass" in g and geom_measure(g, sc, meshes) <= 1e-14 for g in geoms):
            # a geom whose explicit mass the compiler drops (one root cause, one key)
            if abs(got[0] - ref[0]) > TOL * ref[0]:
                viol(part, K_TINY_MASS, "%s: body_mass %.3g, reference %.3g" % (label, got[0], ref[0]), rp)
            part.count(1, key=("combo", mn, s, sc, free))
            continue
        if free:
            # compare in the parent (world) frame: alignment may move the body frame, never the mass distribution
            Rc = R.quat2mat(np.array(m.body_quat[b]))
            pc = np.array(m.body_pos[b])
            gotw = (got[0], pc + Rc @ got[1], Rc @ got[2] @ Rc.T, got[3], got[4], Rc @ R.quat2mat(got[3]))
            refw = (ref[0], pb + Rb @ ref[1], Rb @ ref[2] @ Rb.T)
            e = compare(part, label, "combo(free joint, world frame)", rp, gotw, refw, L, tol=TOL_EIG)
            if free == 2:
                # documented: body frame aligned with the inertial frame
                if float(np.max(np.abs(got[1]))) > 1e-12 * max(1.0, L) or abs(abs(got[3][0]) - 1) > 1e-12:
                    part.violation("freejoint align=true: body frame not aligned with the inertial frame",
                                   "%s: body_ipos %s body_iquat %s" % (label, got[1], got[3]), rp)
        else:
            e = compare(part, label, "combo", rp, got, ref, L, tol=TOL_EIG)
        part["extra"]["worst_combo"] = max(part["extra"].get("worst_combo", 0.0), e)
        part.count(1, key=("combo", mn, s, sc, free) if len(s) > 1 else None,
                   sample={"menu": mn, "subset": s, "scale": sc, "free": free} if s == (1, 3, 5) else None)
    m.free()


# ------------------------------------------------------------------------------------------ C: meshes

def mesh_catalogue():
    cat = {}
    cat["box"] = R.box_mesh(0.05, 0.07, 0.09)
    for n in (8, 16, 32, 64):
        cat["prism%d" % n] = R.prism_mesh(n, 0.05, 0.08)
    for lvl in (0, 1, 2):
        V, F = A.icosphere(lvl, 0.07)
        cat["ico%d" % lvl] = (np.asarray(V, float), R._outward(np.asarray(V, float), [tuple(f) for f in F]))
    cat["lshape"] = R.lshape_mesh()
    return cat




def lshape_hull():
    """convex hull of the L prism: the pentagon prism without the reflex corner."""
    a, t, hh = 0.1, 0.04, 0.03
    P = [(0, 0), (a, 0), (a, t), (t, a), (0, a)]
    n = len(P)
    V = np.array([[x, y, -hh] for x, y in P] + [[x, y, hh] for x, y in P], float)
    F = []
    for k in range(1, n - 1):
        F += [(0, k + 1, k), (n, n + k, n + k + 1)]
    for k in range(n):
        k1 = (k + 1) % n
        F += [(k, k1, n + k1), (k, n + k1, n + k)]
    return V, F


TRANSFORMS = {
    "none": dict(),
    "scale": dict(scale=(1.5, 0.5, 2.0)),
    "mirror": dict(scale=(-1.0, 1.0, 1.0)),
    "ref": dict(refpos=(0.02, -0.03, 0.05), refquat=(0.8, 0.2, -0.4, 0.4)),
    "refscale": dict(refpos=(0.02, -0.03, 0.05), refquat=(0.5, 0.5, 0.5, 0.5), scale=(1.0, -2.0, 0.5)),
}


def transformed(V, tr):
    """documented order: subtract refpos, rotate by the inverse of refquat, scale."""
    V = np.array(V, float)
    if "refpos" in tr:
        V = V - np.array(tr["refpos"])
    if "refquat" in tr:
        Rq = R.quat2mat(tr["refquat"])
        V = V @ Rq            # rows: (Rq' v)' = v' Rq
    if "scale" in tr:
        V = V * np.array(tr["scale"])
    return V


def items_mesh(thorough):
    out = []
    names = ["box", "prism8", "prism16", "prism32", "prism64", "ico0", "ico1", "ico2", "lshape"]
    for nm in names:
        for mode in ("convex", "exact", "legacy", "shell"):
            if nm == "lshape" and mode == "legacy":
                continue        # documented: legacy overcounts non-convex meshes
            small = nm in ("box", "prism8", "ico0", "lshape")
            trs = list(TRANSFORMS) if (small or thorough) else ["none"]
            for tr in trs:
                for faces in ((True, False) if (small or thorough) else (True,)):
                    if not faces and nm == "lshape" and mode != "convex":
                        continue    # without faces the mesh IS its hull
                    out.append(("mesh", nm, mode, tr, faces))
    return out


def mesh_reference(nm, mode, tr, faces, cat):
    V, F = cat[nm]
    Vf = np.asarray(V, float).astype(np.float32).astype(float)      # meshes are stored in single precision
    Vt = transformed(Vf, TRANSFORMS[tr])
    flip = "scale" in TRANSFORMS[tr] and np.prod(TRANSFORMS[tr]["scale"]) < 0
    use_hull = (nm == "lshape") and (mode == "convex" or not faces)
    if use_hull:
        Vh, Fh = lshape_hull()
        Vh = transformed(Vh.astype(np.float32).astype(float), TRANSFORMS[tr])
        Vt, F = Vh, Fh
    Fo = [(f[0], f[2], f[1]) for f in F] if flip else list(F)
    return (R.poly_shell if mode == "shell" else R.poly_solid)(Vt, Fo)


def run_mesh(lib, part, item, cat):
    _, nm, mode, tr, faces = item
    V, F = cat[nm]
    t = TRANSFORMS[tr]
    attrs = 'inertia="%s"' % mode
    for k in ("scale", "refpos", "refquat"):
        if k in t:
            attrs += ' %s="%s"' % (k, fmt(t[k]))
    vs = fmt(np.asarray(V, float).ravel())
    asset = '<mesh name="m" vertex="%s" %s %s/>' % (
        vs, ('face="%s"' % " ".join(str(i) for f in F for i in f)) if faces else "", attrs)
    ref_mesh = mesh_reference(nm, mode, tr, faces, cat)
    meshes = {"m": {"ref": ref_mesh}}
    geoms = []
    for pi in (0, 2):
        for mm in ("density", "mass"):
            g = dict(type="mesh", mesh="m", pos=POSES[pi][0], quat=POSES[pi][1])
            if mm == "mass":
                g["mass"] = MASS
            else:
                g["density"] = 7.0 if mode == "shell" else 1000.0
            geoms.append(g)
    body = "".join('<body pos="%d 0 0">%s</body>\n' % (i, geom_xml(g)) for i, g in enumerate(geoms))
    xml = A.mjcf(body, asset=asset)
    rp0 = {"mesh": nm, "inertia": mode, "transform": tr, "faces": faces}
    try:
        m = lib.load_xml(xml)
    except mj.MjError as e:
        neg = "scale" in t and np.prod(t["scale"]) < 0
        if mode == "convex" and neg and "volume is negative" in str(e):
            viol(part, K_CONVEX_MIRROR, "mesh %s inertia=convex %s faces=%s: %s" % (nm, attrs, faces, str(e)[:200]),
                           dict(rp0, xml=A.mjcf('<body><geom type="mesh" mesh="m"/></body>', asset=(
                               '<mesh name="m" vertex="%s" scale="-1 1 1" inertia="convex"/>' % fmt(np.array(TETRA).ravel())))))
        else:
            part.violation("mesh does not compile [%s %s %s faces=%s]" % (nm, mode, tr, faces), str(e)[:300], dict(rp0, xml=xml[:3000]))
        part.count(1, key=("mesh-error", nm, mode, tr, faces))
        return
    worst = 0.0
    for i, g in enumerate(geoms):
        label = "mesh %s inertia=%s transform=%s faces=%s geom %d" % (nm, mode, tr, faces, i)
        ref = body_ref([g], 1.0, meshes)
        got = compiled(m, i + 1)
        e = compare(part, label, "mesh inertia=%s" % mode, dict(rp0, geom=g, xml=xml if len(xml) < 6000 else None), got, ref, 0.2)
        worst = max(worst, e)
        part.count(1, key=("mesh", nm, mode, tr, faces, i))
    part["extra"]["worst_mesh"] = max(part["extra"].get("worst_mesh", 0.0), worst)
    # unit-density mass properties of the mesh itself (for the refinement series): geom 0 has pose 0 and density rho
    rho = geoms[0]["density"]
    got0 = compiled(m, 1)
    part["extra"].setdefault("series", {})["%s|%s|%s|%s" % (nm, mode, tr, faces)] = [
        got0[0] / rho, float(got0[2][0, 0] / rho), float(got0[2][2, 2] / rho)]
    m.free()


def check_series(ctx, series):
    """tessellations of a primitive: error decreases monotonically with refinement and is below (edge angle)^2."""
    n = 0
    for mode in ("convex", "exact", "legacy", "shell"):
        shell = mode == "shell"
        for fam, names, prim, size, angles in (
                ("prism", ["prism8", "prism16", "prism32", "prism64"], "cylinder", (0.05, 0.08), [2 * math.pi / k for k in (8, 16, 32, 64)]),
                ("ico", ["ico0", "ico1", "ico2"], "sphere", (0.07,), [1.1071487177940904 / 2 ** k for k in (0, 1, 2)])):
            meas, ipm = R.PRIM[prim](size, shell)
            target = np.array([meas, ipm[0] * meas, ipm[2] * meas])
            prev = None
            for nm, ang in zip(names, angles):
                key = "%s|%s|none|True" % (nm, mode)
                if key not in series:
                    continue
                err = np.abs(np.array(series[key]) - target) / target
                n += 1
                ctx.count(1, key=("series", nm, mode))
                if float(err.max()) > ang * ang:
                    ctx.violation("tessellation error above the analytic bound [%s %s]" % (fam, mode),
                                  "%s inertia=%s: rel err (measure, Ixx, Izz) %s > angle^2 = %.3g" % (nm, mode, err, ang * ang),
                                  {"mesh": nm, "inertia": mode})
                if prev is not None and not np.all(err < prev):
                    ctx.violation("tessellation error not decreasing with refinement [%s %s]" % (fam, mode),
                                  "%s inertia=%s: rel err %s, previous level %s" % (nm, mode, err, prev), {"mesh": nm, "inertia": mode})
                prev = err
    ctx.extra["series_points"] = n


# ------------------------------------------------------------------------------------------ D: options

ROTS = [(1, 0, 0, 0), (0.7071067811865476, 0.7071067811865476, 0, 0), (0.7071067811865476, 0, 0.7071067811865476, 0),
        (0.7071067811865476, 0, 0, 0.7071067811865476), (0.5, 0.5, 0.5, 0.5), (0.8, 0.2, -0.4, 0.4), (0.9, 0.1, 0.3, -0.2),
        (1, 1e-4, -2e-4, 5e-5), (1, 1e-7, 2e-7, -1e-7), (1, 3e-9, 0, 0), (0, 1, 0, 0), (0.1, 0.9, 0.1, 0.2)]
SPECTRA = [(0.3, 0.2, 0.15), (0.15, 0.2, 0.3), (0.2, 0.3, 0.15), (0.2, 0.2, 0.1), (0.1, 0.2, 0.2), (0.2, 0.2, 0.2),
           (0.3, 0.2, 0.1000001), (0.2, 0.2000001, 0.15)]


def items_options(thorough):
    out = [("fullinertia", si, sc) for si in range(len(SPECTRA)) for sc in ((1.0, 1e-3, 1e-6, 1e-9) if thorough else (1.0, 1e-4, 1e-8))]
    out += [("inertial_modes",), ("balance",), ("bounds",), ("grouprange",), ("tiny_mass",)]
    out += [("totalmass", par) for par in A.all_forests(4)]
    return out


def run_fullinertia(lib, part, item):
    _, si, sc = item
    spec = np.array(SPECTRA[si]) * sc
    bodies = ""
    refs = []
    for ri, q in enumerate(ROTS):
        Rq = R.quat2mat(q)
        M = Rq @ np.diag(spec) @ Rq.T
        M = (M + M.T) / 2
        full = [M[0, 0], M[1, 1], M[2, 2], M[0, 1], M[0, 2], M[1, 2]]
        bodies += ('<body pos="%d 0 0"><inertial pos="0.1 0.2 0.3" mass="%.17g" fullinertia="%s"/><geom size="0.1"/></body>\n'
                   % (ri, 2.0 * sc, fmt(full)))
        refs.append((2.0 * sc, np.array([0.1, 0.2, 0.3]), np.array([[full[0], full[3], full[4]], [full[3], full[1], full[5]],
                                                                       [full[4], full[5], full[2]]])))
    xml = A.mjcf(bodies)
    m = lib.load_xml(xml)
    for ri, ref in enumerate(refs):
        label = "fullinertia spectrum %s x %g rotation %s" % (SPECTRA[si], sc, ROTS[ri])
        rp = {"spectrum": SPECTRA[si], "scale": sc, "rotation": ROTS[ri],
              "xml": A.mjcf(bodies.splitlines()[ri])}
        got = compiled(m, ri + 1)
        e = compare(part, label, "explicit fullinertia", rp, got, ref, 1.0, tol=TOL_EIG)
        part["extra"]["worst_fullinertia"] = max(part["extra"].get("worst_fullinertia", 0.0), e)
        part.count(1, key=("fullinertia", si, sc, ri))
    m.free()


def _expect_error(lib, part, xml, key, what):
    try:
        m = lib.load_xml(xml)
    except mj.MjError:
        return True
    m.free()
    part.violation(key, what, {"xml": xml})
    return False


def run_inertial_modes(lib, part):
    inertial = '<inertial pos="0.01 0.02 0.03" quat="0.8 0.2 -0.4 0.4" mass="3" diaginertia="0.3 0.2 0.15"/>'
    geom = dict(type="box", size=(0.05, 0.07, 0.09), pos=POSES[2][0], quat=POSES[2][1], density=1000.0)
    gref = body_ref([geom])
    qn = np.array([0.8, 0.2, -0.4, 0.4]) / np.linalg.norm([0.8, 0.2, -0.4, 0.4])
    Rq = R.quat2mat(qn)
    iref = (3.0, np.array([0.01, 0.02, 0.03]), Rq @ np.diag([0.3, 0.2, 0.15]) @ Rq.T)
    for mode in ("false", "true", "auto"):
        for has in (True, False):
            body = '<body><joint type="hinge"/>%s%s</body>' % (inertial if has else "", geom_xml(geom))
            xml = A.mjcf(body, compiler='angle="radian" inertiafromgeom="%s"' % mode)
            label = "inertiafromgeom=%s inertial=%s" % (mode, has)
            part.count(1, key=("inertial_modes", mode, has))
            if mode == "false" and not has:
                _expect_error(lib, part, xml, "inertiafromgeom=false without inertial: no compile error",
                              "documented: 'each body must have explicitly defined mass and inertia ... or else a compile error'")
                continue
            m = lib.load_xml(xml)
            use_geom = (mode == "true") or (mode == "auto" and not has)
            got = compiled(m, 1)
            compare(part, label, "inertiafromgeom=%s inertial=%s" % (mode, has), {"xml": xml}, got, gref if use_geom else iref, 0.2)
            if not use_geom:
                # explicit frame and diagonal are kept as given (no re-diagonalisation)
                if float(np.max(np.abs(got[4] - np.array([0.3, 0.2, 0.15])))) > 1e-15 or float(np.max(np.abs(got[3] - qn))) > 1e-15:
                    part.violation("explicit inertial quat/diaginertia not stored as given",
                                   "%s: body_iquat %s body_inertia %s" % (label, got[3], got[4]), {"xml": xml})
            m.free()


def run_balance(lib, part):
    cases = [((1.0, 1.0, 3.0), True), ((1.0, 3.0, 1.0), True), ((3.0, 1.0, 1.0), True), ((1.0, 2.0, 3.0), False),
             ((1.0, 2.0, 2.9), False), ((0.1, 0.1, 0.2000001), True), ((2.0, 2.0, 2.0), False)]
    for d, bad in cases:
        for bal in (False, True):
            body = '<body><joint type="hinge"/><inertial pos="0 0 0" mass="1" diaginertia="%s"/></body>' % fmt(d)
            xml = A.mjcf(body, compiler='angle="radian" balanceinertia="%s"' % ("true" if bal else "false"))
            part.count(1, key=("balance", d, bal))
            if bad and not bal:
                _expect_error(lib, part, xml, "diaginertia violating A+B>=C accepted without balanceinertia", "diaginertia %s" % (d,))
                continue
            m = lib.load_xml(xml)
            want = np.full(3, sum(d) / 3) if (bad and bal) else np.array(d)
            got = np.array(m.body_inertia[1])
            if float(np.max(np.abs(got - want))) > 1e-15 * max(d):
                part.violation("balanceinertia: result differs from the documented rule (average iff A+B<C)",
                               "diaginertia %s balanceinertia=%s -> %s expected %s" % (d, bal, got, want), {"xml": xml})
            m.free()


def run_bounds(lib, part):
    for bm, bi in ((0.0, 0.0), (0.5, 0.0), (0.0, 0.005), (0.5, 0.005), (5.0, 0.5)):
        bodies = ""
        specs = [(0.1, (0.002, 0.003, 0.004)), (1.0, (0.006, 0.007, 0.008)), (0.5, (0.005, 0.005, 0.005)), (3.0, (0.4, 0.45, 0.6))]
        for mass, d in specs:
            bodies += '<body><inertial pos="0 0 0" mass="%g" diaginertia="%s"/></body>\n' % (mass, fmt(d))
        xml = A.mjcf(bodies, compiler='angle="radian" boundmass="%g" boundinertia="%g"' % (bm, bi))
        m = lib.load_xml(xml)
        for i, (mass, d) in enumerate(specs):
            part.count(1, key=("bounds", bm, bi, i))
            wm = max(mass, bm)
            wd = np.maximum(np.array(d), bi)
            if abs(m.body_mass[i + 1] - wm) > 1e-15 or float(np.max(np.abs(np.array(m.body_inertia[i + 1]) - wd))) > 1e-15:
                part.violation("boundmass/boundinertia: not max(value, bound)",
                               "boundmass=%g boundinertia=%g body(mass %g, diag %s) -> mass %g diag %s" % (
                                   bm, bi, mass, d, m.body_mass[i + 1], m.body_inertia[i + 1]), {"xml": xml})
        if m.body_mass[0] != 0 or np.any(np.array(m.body_inertia[0]) != 0):
            part.violation("bounds applied to the world body", "mass %g" % m.body_mass[0], {"xml": xml})
        m.free()


def run_grouprange(lib, part):
    g0 = dict(type="box", size=(0.05, 0.07, 0.09), pos=POSES[2][0], quat=POSES[2][1], density=1000.0, group=0)
    g1 = dict(type="sphere", size=(0.07,), pos=POSES[1][0], quat=POSES[1][1], density=1000.0, group=2)
    g2 = dict(type="capsule", size=(0.04, 0.1), pos=POSES[3][0], quat=POSES[3][1], density=1000.0, group=4)
    for lo, hi in ((0, 5), (0, 1), (2, 2), (1, 4), (3, 5), (0, 0)):
        sel = [g for g in (g0, g1, g2) if lo <= g["group"] <= hi]
        xml = A.mjcf("<body>%s</body>" % "".join(geom_xml(g) for g in (g0, g1, g2)),
                     compiler='angle="radian" inertiagrouprange="%d %d"' % (lo, hi))
        m = lib.load_xml(xml)
        part.count(1, key=("grouprange", lo, hi))
        compare(part, "inertiagrouprange %d %d" % (lo, hi), "inertiagrouprange", {"xml": xml}, compiled(m, 1), body_ref(sel), 0.3,
                tol=TOL_EIG)
        m.free()


def run_tiny_mass(lib, part):
    """explicit geom mass must be honoured whatever the geom's size (documented: mass overrides density)."""
    for t in PRIMS:
        for shell in (False, True):
            for sc in (1e-1, 1e-2, 1e-3, 1e-4, 1e-5):
                g = dict(type=t, size=SIZES[t][0], pos=(0, 0, 0), quat=(1, 0, 0, 0), mass=0.37, shell=shell)
                xml = A.mjcf("<body>%s</body>" % geom_xml(g, sc))
                part.count(1, key=("tiny_mass", t, shell, sc))
                try:
                    m = lib.load_xml(xml)
                except mj.MjError as e:
                    part.violation("explicit geom mass: small geom does not compile", "%s scale %g: %s" % (t, sc, e), {"xml": xml})
                    continue
                if abs(m.body_mass[1] - 0.37) > 1e-12:
                    viol(part, K_TINY_MASS,
                                   "%s%s size %s x %g mass=0.37 -> body_mass %.6g" % (t, " shell" if shell else "", SIZES[t][0], sc,
                                                                                     m.body_mass[1]), {"xml": xml})
                m.free()


def run_totalmass(lib, part, par):
    n = len(par)
    geoms = [dict(type=PRIMS[i % 5], size=SIZES[PRIMS[i % 5]][0], pos=POSES[(i + 1) % 5][0], quat=POSES[(i + 2) % 5][1],
                  density=DENS[i % 2]) for i in range(n)]

    def body(i, indent="  "):
        s = '%s<body pos="0.1 0.2 0.3" quat="0.9 0.1 0.3 -0.2"><joint type="hinge"/>%s\n' % (indent, geom_xml(geoms[i]))
        for k, p in enumerate(par):
            if p == i:
                s += body(k, indent + "  ")
        return s + indent + "</body>\n"
    wb = "".join(body(r) for r, p in enumerate(par) if p == -1)
    base = lib.load_xml(A.mjcf(wb))
    refs = [body_ref([g]) for g in geoms]
    # body ids follow pre-order = generator numbering + 1
    masses = np.array([r[0] for r in refs])

    def subtree(i):
        return masses[i] + sum(subtree(k) for k, p in enumerate(par) if p == i)
    sub_ref = np.array([subtree(i) for i in range(n)])
    rp = {"parents": par}
    for i in range(n):
        part.count(1, key=("subtree", par, i) if n > 1 else None)
        if abs(base.body_mass[i + 1] - masses[i]) > TOL * masses[i]:
            part.violation("tree: body_mass", "parents %s body %d: %g vs %g" % (par, i, base.body_mass[i + 1], masses[i]), rp)
        if abs(base.body_subtreemass[i + 1] - sub_ref[i]) > TOL * sub_ref[i]:
            part.violation("body_subtreemass != sum of body_mass over the subtree",
                           "parents %s body %d: %.12g vs %.12g" % (par, i, base.body_subtreemass[i + 1], sub_ref[i]), rp)
    if abs(base.body_subtreemass[0] - masses.sum()) > TOL * masses.sum():
        part.violation("body_subtreemass[world] != total mass", "parents %s: %.12g vs %.12g" % (par, base.body_subtreemass[0],
                                                                                               masses.sum()), rp)
    for target in (1.0, 123.456):
        # compile-time and run-time scaling must both equal the reference scaled by target / total
        mc = lib.load_xml(A.mjcf(wb, compiler='angle="radian" settotalmass="%.17g"' % target))
        mr = lib.load_xml(A.mjcf(wb))
        lib.mj_setTotalmass(mr, target)
        dr = lib.make_data(mr)
        lib.mj_setConst(mr, dr)      # source comment: derived constants (body_subtreemass) need mj_setConst afterwards
        dr.free()
        k = target / masses.sum()
        for nm, mm in (("settotalmass", mc), ("mj_setTotalmass", mr)):
            for i in range(n):
                part.count(1, key=(nm, par, i, target))
                ref = (refs[i][0] * k, refs[i][1], refs[i][2] * k)
                compare(part, "%s=%g parents %s body %d" % (nm, target, par, i), nm, dict(rp, target=target), compiled(mm, i + 1), ref, 0.3)
                if abs(mm.body_subtreemass[i + 1] - sub_ref[i] * k) > TOL * sub_ref[i] * k:
                    part.violation("%s: body_subtreemass not rescaled" % nm,
                                   "parents %s body %d: %.12g vs %.12g" % (par, i, mm.body_subtreemass[i + 1], sub_ref[i] * k), rp)
            if abs(float(np.sum(mm.body_mass)) - target) > TOL * target:
                part.violation("%s: total mass differs from the requested value" % nm,
                               "parents %s: sum(body_mass) %.15g target %.15g" % (par, float(np.sum(mm.body_mass)), target), rp)
        mc.free()
        mr.free()
    base.free()


# ------------------------------------------------------------------------------------------ driver

_CAT = None


def _chunk(chunk):
    global _CAT
    lib = mj.load()
    part = core.Part()
    if _CAT is None:
        _CAT = mesh_catalogue()
    for item in chunk:
        kind = item[0]
        try:
            if kind == "single":
                run_single(lib, part, item)
            elif kind == "combo":
                run_combo(lib, part, item)
            elif kind == "mesh":
                run_mesh(lib, part, item, _CAT)
            elif kind == "fullinertia":
                run_fullinertia(lib, part, item)
            elif kind == "inertial_modes":
                run_inertial_modes(lib, part)
            elif kind == "balance":
                run_balance(lib, part)
            elif kind == "bounds":
                run_bounds(lib, part)
            elif kind == "grouprange":
                run_grouprange(lib, part)
            elif kind == "tiny_mass":
                run_tiny_mass(lib, part)
            elif kind == "totalmass":
                run_totalmass(lib, part, item[1])
        except mj.MjError as e:
            part.violation("unexpected compile error [%s]" % kind, "%s: %s" % (item, str(e)[:300]), {"item": item})
    return part


def run(ctx):
    mj.load()
    w = R.selftest()
    if w > 1e-12:
        raise RuntimeError("reference self-test failed: closed forms deviate from quadrature by %.3g" % w)
    ctx.extra["reference_selftest_max_rel_dev"] = w
    items = items_single(ctx.thorough) + items_combo(ctx.thorough) + items_mesh(ctx.thorough) + items_options(ctx.thorough)
    worst = {}
    series = {}
    # merge needs numeric extras: collect max / dict extras by hand

    orig_merge = ctx.merge

    def merge(part):
        ex = part.get("extra", {})
        for k in list(ex):
            if k.startswith("worst_"):
                worst[k] = max(worst.get(k, 0.0), ex.pop(k))
        series.update(ex.pop("series", {}))
        orig_merge(part)
    ctx.merge = merge
    core.pmap(ctx, _chunk, items, nchunks=min(len(items), core.NCPU * 6))
    ctx.merge = orig_merge
    for k, v in worst.items():
        ctx.extra[k] = v
    check_series(ctx, series)
    ctx.extra["items"] = len(items)
    ctx.rule = ("A: %d primitive types x %s sizes x %s poses x {2 densities, explicit mass} x shellinertia x length scales; "
                "B: all 1..%d-subsets of 6-geom menus x scales x {static, free joint align false/true}; "
                "C: 9 tessellations x {convex,exact,legacy,shell} x mesh transforms x {faces, hull}; each compiled body vs closed "
                "form / exact polyhedron + parallel axis; D: inertiafromgeom x inertial, fullinertia %d spectra x %d rotations x "
                "scales, balanceinertia, bounds, grouprange, tiny geoms with explicit mass, settotalmass / mj_setTotalmass / "
                "body_subtreemass on all forests <= 4 bodies.  evaluations = compiled bodies compared; non-trivial = offset or "
                "rotated or shell or multi-geom or mesh or option cases"
                % (len(PRIMS), 3, ctx.q(3, 5), ctx.q(3, 6), len(SPECTRA), len(ROTS)))
    ctx.assumptions = ["reference closed forms validated against Gauss-Legendre quadrature each run (max rel dev %.2g)" % w,
                       "mesh vertices are rounded to float32 in the reference (mesh storage precision); hull by the sandbox shim",
                       "tolerance 1e-9 relative (mass; COM / body length; tensor / largest entry)"]
