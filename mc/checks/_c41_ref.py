"""Independent reference for the MJCF schema-definition language (C41, C42).

Written from the grammar in the docstring of doc/generate/mjcf_schema.py, the
syntax reference at the top of src/xml/mjcf.schema and the rule names the
pinned tests mention -- deliberately boring: a hand-written character scanner
(no regular expressions), a token-list parser that records *every* violation
it can see (not only the first) together with the line it belongs to, and a
validator that lists all broken rules.  Nothing of the tree is imported here.

Outcome of ``analyse(text)``:

* ``Accept(model)``  - the text is a valid schema; ``model`` is a plain-tuple
  description of what the text says (used to check the returned Schema).
* ``Reject(lines, rules, at_eof)`` - the text is invalid; ``lines`` is the set
  of lines at which a violation is located (a reported error line must be one
  of them), ``rules`` the names of the broken rules, ``at_eof`` is True when
  the only reason is that the text stops too early (a viable prefix).

Where the documentation is silent the reference follows the most permissive
reading and says so in ``UNSPECIFIED`` (these are listed as assumptions in the
evidence).
"""
from __future__ import annotations

ATTR_FACETS = ('field', 'required', 'nodefault', 'pattern', 'reading', 'writing', 'min', 'max', 'positive')
ELEM_FACETS = ('xml', 'alias', 'field')
SCALARS = ('double', 'float', 'int', 'bool', 'string', 'file', 'chars')
TARGETED = ('enum', 'flags', 'id', 'ref')
CARDS = ('?', '!', '*', 'R')
VERBS = ('exclusive', 'together', 'requires', 'oneof')
PUNCT = '{}()[]<>:=,?!*+'

UNSPECIFIED = [
    "a constraint inside a group may only name attributes declared directly in that group (not ones it pulls in with 'use')",
    "after '+' a bundle may continue on the next line; bundles themselves must start on the verb's line",
    "the element facet 'field' and the attribute facets other than min/max are not checked for the kind of value they carry",
    "a flags<> attribute is treated like a scalar number for its default; an int attribute may carry a fractional default",
    "a string/file/enum/bool default may be written as an identifier or as a quoted string",
    "duplicate attributes are only a fault once expanded into an element (a group nobody uses may repeat a name)",
    "digits are Unicode decimal digits (category Nd), letters are ASCII",
]


class Tok(object):
    __slots__ = ('kind', 'value', 'line')

    def __init__(self, kind, value, line):
        self.kind, self.value, self.line = kind, value, line

    def __repr__(self):
        return 'Tok(%r,%r,%d)' % (self.kind, self.value, self.line)


class LexError(Exception):
    def __init__(self, line, ntok=0):
        Exception.__init__(self, line)
        self.line = line
        self.ntok = ntok


def _digits(text, j, n):
    while j < n and text[j].isdecimal():
        j += 1
    return j


def _scan_number(text, i, n):
    """End index of a NUMBER starting at i, or -1."""
    j = i
    if j < n and text[j] == '-':
        j += 1
    if j < n and text[j].isdecimal():
        j = _digits(text, j, n)
        if j < n and text[j] == '.' and not (j + 1 < n and text[j + 1] == '.'):
            j = _digits(text, j + 1, n)
    elif j + 1 < n and text[j] == '.' and text[j + 1].isdecimal():
        j = _digits(text, j + 1, n)
    else:
        return -1
    if j < n and text[j] in 'eE':
        k = j + 1
        if k < n and text[k] in '+-':
            k += 1
        if k < n and text[k].isdecimal():
            j = _digits(text, k, n)
    return j


def _is_letter(c):
    return ('a' <= c <= 'z') or ('A' <= c <= 'Z') or c == '_'


def lex(text, layout=None):
    """-> (tokens incl. final eof, {line: comment text}); raises LexError(line).

    If `layout` is a list it receives every token *and* ('nl' | 'comment') layout
    items in source order, so that a text can be re-rendered after token edits."""
    toks = []
    comments = {}
    line = 1
    i = 0
    n = len(text)
    while i < n:
        c = text[i]
        if c == ' ' or c == '\t':
            i += 1
        elif c == '\n':
            if layout is not None:
                layout.append(Tok('nl', '\n', line))
            line += 1
            i += 1
        elif c == '#':
            j = text.find('\n', i)
            if j < 0:
                j = n
            comments[line] = text[i + 1:j].strip()
            if layout is not None:
                layout.append(Tok('comment', text[i:j], line))
            i = j
        elif c == '"':
            j = i + 1
            while j < n and text[j] != '"' and text[j] != '\n':
                j += 1
            if j >= n or text[j] != '"':
                raise LexError(line, len(toks))
            toks.append(Tok('string', text[i:j + 1], line))
            if layout is not None:
                layout.append(toks[-1])
            i = j + 1
        else:
            j = _scan_number(text, i, n)
            if j > i:
                toks.append(Tok('number', text[i:j], line))
                i = j
                if layout is not None:
                    layout.append(toks[-1])
            elif c == '.' and i + 1 < n and text[i + 1] == '.':
                toks.append(Tok('dotdot', '..', line))
                i += 2
                if layout is not None:
                    layout.append(toks[-1])
            elif _is_letter(c):
                j = i + 1
                while j < n and (_is_letter(text[j]) or ('0' <= text[j] <= '9')):
                    j += 1
                toks.append(Tok('ident', text[i:j], line))
                i = j
                if layout is not None:
                    layout.append(toks[-1])
            elif c in PUNCT:
                toks.append(Tok(c, c, line))
                i += 1
                if layout is not None:
                    layout.append(toks[-1])
            else:
                raise LexError(line, len(toks))
    toks.append(Tok('eof', '', line))
    return toks, comments


# ------------------------------------------------------------------ model
# Plain tuples.  member = ('attr', name, type, target, lo, hi, default, facets, doc, line)
#                       | ('use', group, line) | ('child', name, card, doc, line)
#                       | ('set', field, value, doc, line) | ('con', kind, bundles, doc, line)
# enum  = (name, ctype, items, doc, line)
# group = (name, variant, members, doc, line)
# element = (name, spec, facets, members, doc, line)
# model = (enums, groups, elements)  each a tuple in declaration order


class Accept(object):
    ok = True
    rules = ()

    def __init__(self, model, ntok=0):
        self.model = model
        self.ntok = ntok

    def viable(self):
        return True


class Reject(object):
    ok = False

    def __init__(self, lines, rules, at_eof=False, phase='parse', ntok=0):
        self.lines = set(lines)
        self.rules = sorted(set(rules))
        self.at_eof = at_eof
        self.phase = phase
        self.ntok = ntok          # tokens read before the verdict

    def viable(self):
        """Can more text appended at the end still make this a valid schema?"""
        return self.at_eof or self.phase == 'validate'


class _Stop(Exception):
    def __init__(self, line, rule, at_eof):
        Exception.__init__(self, rule)
        self.line, self.rule, self.at_eof = line, rule, at_eof


def _is_int_text(s):
    t = s[1:] if s[:1] == '-' else s
    return len(t) > 0 and all(ch.isdecimal() for ch in t)


class _P(object):
    def __init__(self, toks, comments):
        self.t = toks
        self.c = comments
        self.i = 0
        self.found = []       # (line, rule) violations that do not stop reading

    # -- token helpers
    def peek(self):
        return self.t[self.i]

    def take(self):
        tok = self.t[self.i]
        if tok.kind != 'eof':
            self.i += 1
        return tok

    def stop(self, tok, rule):
        raise _Stop(tok.line, rule, tok.kind == 'eof')

    def need(self, kind, rule):
        tok = self.t[self.i]
        if tok.kind != kind:
            self.stop(tok, rule)
        self.i += 1
        return tok

    def opt(self, kind):
        if self.t[self.i].kind == kind:
            self.i += 1
            return True
        return False

    def note(self, line, rule):
        self.found.append((line, rule))

    # -- grammar
    def schema(self):
        enums, groups, elements = [], [], []
        names = {'enum': {}, 'group': {}, 'element': {}}
        while self.peek().kind != 'eof':
            kw = self.need('ident', 'syntax:decl-keyword')
            if kw.value not in names:
                self.stop(kw, 'syntax:decl-keyword')
            if kw.value == 'enum':
                d = self.enum(kw.line)
                dest = enums
            elif kw.value == 'group':
                d = self.group(kw.line)
                dest = groups
            else:
                d = self.element(kw.line)
                dest = elements
            if d[0] in names[kw.value]:
                self.note(kw.line, 'duplicate-' + kw.value)
            else:
                names[kw.value][d[0]] = True
                dest.append(d)
        return (tuple(enums), tuple(groups), tuple(elements))

    def enum(self, line):
        name = self.need('ident', 'syntax:enum-name').value
        ctype = None
        if self.opt(':'):
            ctype = self.need('ident', 'syntax:enum-ctype').value
        self.need('{', 'syntax:enum-open')
        items = []
        seen = set()
        while not self.opt('}'):
            k = self.peek()
            if k.kind == 'string':
                key = k.value[1:-1]
            elif k.kind == 'ident':
                key = k.value
            else:
                self.stop(k, 'syntax:enum-key')
            self.i += 1
            if key in seen:
                self.note(k.line, 'duplicate-enum-keyword')
            seen.add(key)
            self.need('=', 'syntax:enum-eq')
            v = self.peek()
            if v.kind not in ('ident', 'number'):
                self.stop(v, 'syntax:enum-value')
            self.i += 1
            items.append((key, v.value))
        if not items:
            self.note(line, 'empty-enum')
        return (name, ctype, tuple(items), self.c.get(line), line)

    def group(self, line):
        name = self.need('ident', 'syntax:group-name').value
        variant = False
        nxt = self.peek()
        if nxt.kind == 'ident' and nxt.value == 'variant':
            variant = True
            self.i += 1
        self.need('{', 'syntax:group-open')
        members = []
        while not self.opt('}'):
            members.append(self.member(False))
        if not members:
            self.note(line, 'empty-group')
        return (name, variant, tuple(members), self.c.get(line), line)

    def element(self, line):
        name = self.need('ident', 'syntax:element-name').value
        spec = None
        if self.opt(':'):
            spec = self.need('ident', 'syntax:element-spec').value
        facets = ()
        if self.opt('('):
            facets = self.facets(ELEM_FACETS)
        self.need('{', 'syntax:element-open')
        members = []
        while not self.opt('}'):
            members.append(self.member(True))
        return (name, spec, facets, tuple(members), self.c.get(line), line)

    def member(self, in_element):
        first = self.need('ident', 'syntax:member-start')
        w = first.value
        line = first.line
        if w == 'use':
            return ('use', self.need('ident', 'syntax:use-name').value, line)
        if w in VERBS and self.peek().kind == 'ident':
            bundles = []
            while self.peek().kind == 'ident' and self.peek().line == line:
                b = [self.take().value]
                while self.opt('+'):
                    b.append(self.need('ident', 'syntax:bundle-name').value)
                bundles.append(tuple(b))
            if len(bundles) < 2:
                if self.peek().kind == 'eof':
                    raise _Stop(line, 'constraint-needs-two', True)
                self.note(line, 'constraint-needs-two')
            return ('con', w, tuple(bundles), self.c.get(line), line)
        if w == 'set':
            if not in_element:
                self.note(line, 'set-in-group')
            field = self.need('ident', 'syntax:set-field').value
            self.need('=', 'syntax:set-eq')
            value = self.need('ident', 'syntax:set-value').value
            return ('set', field, value, self.c.get(line), line)
        if w == 'child':
            if not in_element:
                self.note(line, 'child-in-group')
            name = self.need('ident', 'syntax:child-name').value
            card = self.peek()
            if card.value not in CARDS or card.kind == 'string':
                self.stop(card, 'syntax:cardinality')
            self.i += 1
            return ('child', name, card.value, self.c.get(line), line)
        # attribute
        self.need(':', 'syntax:attr-colon')
        typ, target, lo, hi = self.type_()
        default = None
        if self.opt('='):
            default = self.default()
        facets = ()
        if self.opt('('):
            facets = self.facets(ATTR_FACETS)
        return ('attr', w, typ, target, lo, hi, default, facets, self.c.get(line), line)

    def type_(self):
        t = self.need('ident', 'syntax:type')
        if t.value in TARGETED:
            self.need('<', 'syntax:type-lt')
            target = self.need('ident', 'syntax:type-target').value
            self.need('>', 'syntax:type-gt')
            return t.value, target, 1, 1
        if t.value not in SCALARS:
            self.stop(t, 'syntax:unknown-type')
        lo, hi = self.arity()
        return t.value, None, lo, hi

    def int_(self, tok):
        if not _is_int_text(tok.value):
            self.stop(tok, 'syntax:arity-integer')
        v = int(tok.value)
        if v < 0:
            self.note(tok.line, 'arity-negative')
        return v

    def arity(self):
        if not self.opt('['):
            return 1, 1
        if self.opt(']'):
            return 0, None
        lo = self.int_(self.need('number', 'syntax:arity-lo'))
        if not self.opt('dotdot'):
            self.need(']', 'syntax:arity-close')
            return lo, lo
        h = self.peek()
        if h.kind == 'number':
            self.i += 1
            hi = self.int_(h)
            if hi <= lo:
                self.note(h.line, 'arity-not-increasing')
        elif h.kind == 'ident':
            self.i += 1
            hi = h.value
        else:
            self.stop(h, 'syntax:arity-hi')
        self.need(']', 'syntax:arity-close')
        return lo, hi

    def default(self):
        t = self.peek()
        if t.kind == 'number':
            self.i += 1
            return float(t.value)
        if t.kind == 'string':
            self.i += 1
            return t.value[1:-1]
        if t.kind == 'ident':
            self.i += 1
            return t.value
        if t.kind == '{':
            self.i += 1
            vals = [float(self.need('number', 'syntax:default-number').value)]
            while self.opt(','):
                vals.append(float(self.need('number', 'syntax:default-number').value))
            self.need('}', 'syntax:default-close')
            return tuple(vals)
        self.stop(t, 'syntax:default')

    def facets(self, known):
        out = []
        seen = set()
        while True:
            f = self.need('ident', 'syntax:facet-name')
            if f.value not in known:
                self.stop(f, 'syntax:unknown-facet')
            dup = f.value in seen
            if dup:
                self.note(f.line, 'duplicate-facet')
            seen.add(f.value)
            val = True
            if self.opt('='):
                v = self.peek()
                if v.kind == 'string':
                    val = v.value[1:-1]
                elif v.kind == 'ident':
                    val = v.value
                elif v.kind == 'number':
                    val = float(v.value)
                else:
                    self.stop(v, 'syntax:facet-value')
                self.i += 1
            if not dup:
                out.append((f.value, val))
            if self.opt(')'):
                return tuple(out)
            self.need(',', 'syntax:facet-sep')


# ------------------------------------------------------------------ validation

def _facet(facets, name, default=None):
    for k, v in facets:
        if k == name:
            return v
    return default


def _has(facets, name):
    return any(k == name for k, _ in facets)


def expand(groups_by_name, members):
    """Attributes of a member list with 'use' spliced in place (iterative)."""
    out = []
    stack = [iter(members)]
    while stack:
        try:
            m = next(stack[-1])
        except StopIteration:
            stack.pop()
            continue
        if m[0] == 'attr':
            out.append(m)
        elif m[0] == 'use':
            stack.append(iter(groups_by_name[m[1]][2]))
    return out


def validate(model):
    """-> list of (line-set, rule) for every broken rule."""
    enums, groups, elements = model
    bad = []
    E = {e[0]: e for e in enums}
    G = {g[0]: g for g in groups}
    EL = {e[0]: e for e in elements}

    # use graph: dangling and cyclic
    edges = {}      # group -> list of (target, line)
    dangling = False
    for members in [g[2] for g in groups] + [e[3] for e in elements]:
        for m in members:
            if m[0] == 'use' and m[1] not in G:
                bad.append(({m[2]}, 'dangling-use'))
                dangling = True
    for g in groups:
        edges[g[0]] = [(m[1], m[2]) for m in g[2] if m[0] == 'use' and m[1] in G]
    # an edge g -> t lies on a cycle iff g and t are in the same strongly connected component
    comp = _components(edges)
    cyc_lines = set()
    for g in edges:
        for t, line in edges[g]:
            if comp[t] == comp[g]:
                cyc_lines.add(line)
    if cyc_lines:
        bad.append((cyc_lines, 'use-cycle'))

    for g in groups:
        direct = set(m[1] for m in g[2] if m[0] == 'attr')
        for m in g[2]:
            if m[0] == 'con':
                for b in m[2]:
                    for nm in b:
                        if nm not in direct:
                            bad.append(({m[4]}, 'constraint-unknown-attr'))
                if m[1] == 'requires' and (len(m[2]) != 2 or any(len(b) != 1 for b in m[2])):
                    bad.append(({m[4]}, 'group-requires-arity'))
        if g[1]:
            for m in g[2]:
                if m[0] == 'use':
                    bad.append(({m[2]}, 'variant-use'))
                elif m[0] == 'attr' and _facet(m[7], 'required'):
                    bad.append(({m[9]}, 'variant-required'))

    namespaces = set()
    all_attrs = []
    for g in groups:
        all_attrs += [m for m in g[2] if m[0] == 'attr']
    for e in elements:
        all_attrs += [m for m in e[3] if m[0] == 'attr']
    for a in all_attrs:
        if a[2] == 'id':
            namespaces.add(a[3])

    expandable = not dangling and not cyc_lines
    for e in elements:
        name, spec, facets, members, doc, line = e
        for f in ('xml', 'alias'):
            if _has(facets, f) and not isinstance(_facet(facets, f), str):
                bad.append(({line}, 'element-facet-needs-name'))
        alias = _facet(facets, 'alias')
        if alias is not None and isinstance(alias, str) and alias not in EL:
            bad.append(({line}, 'dangling-alias'))
        seen_children = set()
        for m in members:
            if m[0] == 'child':
                if m[1] not in EL:
                    bad.append(({m[4]}, 'dangling-child'))
                if m[1] in seen_children:
                    bad.append(({m[4]}, 'duplicate-child'))
                seen_children.add(m[1])
        if expandable:
            attrs = expand(G, members)
            by_name = {}
            for a in attrs:
                by_name.setdefault(a[1], []).append(a[9])
            for nm, lines in by_name.items():
                if len(lines) > 1:
                    bad.append((set(lines) | {line}, 'duplicate-attr'))
            have = set(by_name)
        else:
            have = None
        for m in members:
            if m[0] == 'con':
                if have is not None:
                    for b in m[2]:
                        for nm in b:
                            if nm not in have:
                                bad.append(({m[4]}, 'constraint-unknown-attr'))
                if m[1] == 'requires' and (len(m[2]) != 2 or any(len(b) != 1 for b in m[2])):
                    bad.append(({m[4]}, 'requires-arity'))

    for a in all_attrs:
        for rule in attr_faults(a, E, namespaces):
            bad.append(({a[9]}, rule))
    return bad


def _components(edges):
    """Strongly connected components (Kosaraju, no recursion): node -> component number."""
    order = []
    seen = set()
    for root in edges:
        if root in seen:
            continue
        seen.add(root)
        stack = [(root, 0)]
        while stack:
            node, k = stack.pop()
            succ = edges[node]
            if k < len(succ):
                stack.append((node, k + 1))
                nxt = succ[k][0]
                if nxt not in seen:
                    seen.add(nxt)
                    stack.append((nxt, 0))
            else:
                order.append(node)
    back = {g: [] for g in edges}
    for g in edges:
        for t, _ in edges[g]:
            back[t].append(g)
    comp = {}
    n = 0
    for root in reversed(order):
        if root in comp:
            continue
        comp[root] = n
        todo = [root]
        while todo:
            x = todo.pop()
            for y in back[x]:
                if y not in comp:
                    comp[y] = n
                    todo.append(y)
        n += 1
    return comp


def attr_faults(a, E, namespaces):
    _, name, typ, target, lo, hi, default, facets, doc, line = a
    out = []
    if typ in ('enum', 'flags') and target not in E:
        out.append('dangling-enum')
    if typ == 'ref' and target not in namespaces:
        out.append('dangling-ref')
    scalar = (lo == 1 and hi == 1)
    if typ in ('file', 'bool') and not scalar:
        out.append('vector-file-or-bool')
    if typ == 'chars' and not (isinstance(hi, int) and not isinstance(hi, bool)):
        out.append('chars-unbounded')
    if _has(facets, 'pattern') and typ not in ('string', 'chars'):
        out.append('pattern-on-nontext')
    numeric = typ in ('double', 'float', 'int')
    for f in ('min', 'max'):
        if _has(facets, f):
            v = _facet(facets, f)
            if not numeric:
                out.append('minmax-nonnumeric-type')
            elif v is True:
                out.append('minmax-no-value')
            elif not isinstance(v, float):
                out.append('minmax-nonnumeric-value')
    if _has(facets, 'min') and _has(facets, 'max'):
        mn, mx = _facet(facets, 'min'), _facet(facets, 'max')
        if isinstance(mn, float) and isinstance(mx, float) and mn > mx and numeric:
            out.append('min-gt-max')
    if _facet(facets, 'positive') and not numeric:
        out.append('positive-nonnumeric')
    if _facet(facets, 'required') and default is not None:
        out.append('required-with-default')
    if default is None:
        return out
    if typ == 'enum':
        if not isinstance(default, str):
            out.append('enum-default-not-keyword')
        elif target in E and default not in [k for k, _ in E[target][2]]:
            out.append('enum-default-not-keyword')
        return out
    if typ in ('ref', 'id', 'chars'):
        out.append('default-not-allowed')
        return out
    if typ == 'bool':
        if default != 'true' and default != 'false':
            out.append('bool-default')
        return out
    if typ in ('string', 'file'):
        if not isinstance(default, str):
            out.append('string-default')
        return out
    if isinstance(default, str):
        out.append('numeric-default')
        return out
    n = len(default) if isinstance(default, tuple) else 1
    if isinstance(default, tuple) and scalar:
        out.append('vector-default-on-scalar')
    if n < lo:
        out.append('default-too-short')
    if isinstance(hi, int) and n > hi:
        out.append('default-too-long')
    return out


def analyse(text):
    try:
        toks, comments = lex(text)
    except LexError as e:
        return Reject({e.line}, ['lex'], False, 'lex', e.ntok)
    return analyse_tokens(toks, comments)


def analyse_tokens(toks, comments):
    p = _P(toks, comments)
    try:
        model = p.schema()
    except _Stop as s:
        return Reject({s.line} | {l for l, _ in p.found}, [s.rule] + [r for _, r in p.found],
                      s.at_eof and not p.found, 'parse', p.i)
    n = len(toks) - 1
    if p.found:
        return Reject({l for l, _ in p.found}, [r for _, r in p.found], False, 'parse', n)
    bad = validate(model)
    if bad:
        lines = set()
        for ls, _ in bad:
            lines |= ls
        return Reject(lines, [r for _, r in bad], False, 'validate', n)
    return Accept(model, n)


# ------------------------------------------------------------------ view of the implementation's Schema

def impl_model(schema):
    """The tree's Schema dataclasses as the same plain tuples (by attribute name only)."""
    def member(m):
        k = type(m).__name__
        if k == 'Attr':
            return ('attr', m.name, m.type, m.target, m.arity.lo, m.arity.hi, m.default,
                    tuple(m.facets.items()), m.doc, m.line)
        if k == 'Use':
            return ('use', m.group, m.line)
        if k == 'Child':
            return ('child', m.name, m.card, m.doc, m.line)
        if k == 'Const':
            return ('set', m.field, m.value, m.doc, m.line)
        if k == 'Constraint':
            return ('con', m.kind, tuple(tuple(b) for b in m.bundles), m.doc, m.line)
        return ('?', repr(m))
    enums = tuple((e.name, e.ctype, tuple((k, v) for k, v in e.items), e.doc, e.line)
                  for e in schema.enums.values())
    groups = tuple((g.name, bool(g.variant) if isinstance(g.variant, bool) else g.variant,
                    tuple(member(m) for m in g.members), g.doc, g.line)
                   for g in schema.groups.values())
    elements = tuple((e.name, e.spec, tuple(e.facets.items()), tuple(member(m) for m in e.members), e.doc, e.line)
                     for e in schema.elements.values())
    return (enums, groups, elements)


def typed_equal(a, b):
    """Structural equality that also distinguishes 1 / 1.0 / True and tuple / list."""
    if type(a) is not type(b):
        return False
    if isinstance(a, tuple):
        return len(a) == len(b) and all(typed_equal(x, y) for x, y in zip(a, b))
    return a == b


_MEMBER_FIELDS = {
    'attr': ('kind', 'name', 'type', 'target', 'arity.lo', 'arity.hi', 'default', 'facets', 'doc', 'line'),
    'use': ('kind', 'group', 'line'),
    'child': ('kind', 'name', 'card', 'doc', 'line'),
    'set': ('kind', 'field', 'value', 'doc', 'line'),
    'con': ('kind', 'verb', 'bundles', 'doc', 'line'),
}


def first_difference(ref, imp):
    """Name of the first field where the two models differ (names/indices dropped), or None."""
    if typed_equal(ref, imp):
        return None
    for sec, (ra, ia), fields in (('enum', (ref[0], imp[0]), ('name', 'ctype', 'items', 'doc', 'line')),
                                  ('group', (ref[1], imp[1]), ('name', 'variant', 'members', 'doc', 'line')),
                                  ('element', (ref[2], imp[2]), ('name', 'spec', 'facets', 'members', 'doc', 'line'))):
        if len(ra) != len(ia):
            return sec + '.count'
        for r, i in zip(ra, ia):
            if typed_equal(r, i):
                continue
            for fi, f in enumerate(fields):
                if typed_equal(r[fi], i[fi]):
                    continue
                if f != 'members':
                    return '%s.%s' % (sec, f)
                if len(r[fi]) != len(i[fi]):
                    return sec + '.members.count'
                for rm, im in zip(r[fi], i[fi]):
                    if typed_equal(rm, im):
                        continue
                    if rm[0] != im[0] or len(rm) != len(im):
                        return sec + '.member.kind'
                    for k, fname in enumerate(_MEMBER_FIELDS[rm[0]]):
                        if not typed_equal(rm[k], im[k]):
                            return '%s.%s.%s' % (sec, rm[0], fname)
            return sec + '.?'
    return '?'
