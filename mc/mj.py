"""ctypes binding to the *tree-built* MuJoCo library.

Struct layouts come from compiler-generated reflection (native/support.cc expands
mjxmacro.h); function prototypes come from the tree's introspect/functions.py
(mc/gen_wrappers.py).  Every call goes through a guarded wrapper so that
mju_error becomes a Python exception (MjError).
"""
from __future__ import annotations

import ctypes
import json
import os

import numpy as np

from . import build, gen_wrappers


class MjError(Exception):
    pass


class VgField(ctypes.Structure):
    _fields_ = [("name", ctypes.c_char_p), ("ctype", ctypes.c_char_p), ("ptr", ctypes.c_void_p),
                ("nrow", ctypes.c_longlong), ("ncol", ctypes.c_longlong), ("elsize", ctypes.c_int),
                ("kind", ctypes.c_int)]


_CT = {
    "int": ctypes.c_int, "uint": ctypes.c_uint, "double": ctypes.c_double, "float": ctypes.c_float,
    "uchar": ctypes.c_ubyte, "bool": ctypes.c_bool, "int64": ctypes.c_int64, "uint64": ctypes.c_uint64,
    "size_t": ctypes.c_size_t, "char": ctypes.c_char, "ptr": ctypes.c_void_p,
}

_NP = {
    "mjtNum": np.float64, "double": np.float64, "float": np.float32, "int": np.int32,
    "mjtByte": np.uint8, "mjtBool": np.uint8, "char": np.uint8, "byte": np.uint8,
    "size_t": np.uint64, "uintptr_t": np.uint64, "mjtSize": np.int64, "int64": np.int64,
    "uint64": np.uint64,
}

CMP_BUFFER, CMP_ARENA, CMP_SCALAR, CMP_VECTOR, CMP_WARNING, CMP_SOLVERSTAT, CMP_STACKPTR, CMP_SIZES = (
    1, 2, 4, 8, 16, 32, 64, 128)
CMP_ALL = 1 | 2 | 4 | 8 | 16 | 32


def _as_ptr(x):
    if x is None:
        return None
    if isinstance(x, (Model, Data, Handle)):
        return x.ptr
    if isinstance(x, np.ndarray):
        return x.ctypes.data
    if isinstance(x, bytes):
        return ctypes.cast(ctypes.c_char_p(x), ctypes.c_void_p).value
    if isinstance(x, str):
        raise TypeError("pass bytes, not str")
    if isinstance(x, int):
        return x
    if isinstance(x, ctypes.Array) or isinstance(x, ctypes.Structure):
        return ctypes.addressof(x)
    if hasattr(x, "_as_parameter_"):
        return x
    if isinstance(x, ctypes._Pointer):
        return ctypes.cast(x, ctypes.c_void_p).value
    if isinstance(x, ctypes.c_void_p):
        return x.value
    raise TypeError("cannot pass %r as pointer" % type(x))


class Handle:
    """Opaque pointer (mjSpec*, mjVFS*, ...)."""

    def __init__(self, ptr):
        self.ptr = ptr

    def __bool__(self):
        return bool(self.ptr)


class Lib:
    def __init__(self, variant: str = "rel"):
        self.variant = variant
        self.path = build.ensure(variant)
        _, js = gen_wrappers.ensure()
        with open(js) as fh:
            self.protos = json.load(fh)
        self.c = ctypes.CDLL(self.path)
        self._fn = {}
        c = self.c
        c.vg_install_handlers()
        c.vg_last_error.restype = ctypes.c_char_p
        c.vg_last_warning.restype = ctypes.c_char_p
        c.vg_warning_count.restype = ctypes.c_long
        c.vg_error_count.restype = ctypes.c_long
        c.vg_model_field.argtypes = [ctypes.c_void_p, ctypes.c_int, ctypes.POINTER(VgField)]
        c.vg_data_field.argtypes = [ctypes.c_void_p, ctypes.c_void_p, ctypes.c_int, ctypes.POINTER(VgField)]
        c.vg_data_diff.argtypes = [ctypes.c_void_p, ctypes.c_void_p, ctypes.c_void_p, ctypes.c_uint,
                                   ctypes.c_char_p, ctypes.c_int]
        c.vg_data_hash.argtypes = [ctypes.c_void_p, ctypes.c_void_p, ctypes.c_uint]
        c.vg_data_hash.restype = ctypes.c_uint64
        c.vg_model_diff.argtypes = [ctypes.c_void_p, ctypes.c_void_p, ctypes.c_char_p, ctypes.c_int]
        c.vg_alloc_install.argtypes = [ctypes.c_long, ctypes.c_long]
        for n in ("vg_alloc_count", "vg_alloc_live", "vg_alloc_badfree", "vg_alloc_failed"):
            getattr(c, n).restype = ctypes.c_long
        c.vg_sizeof.argtypes = [ctypes.c_char_p]
        self._contact_dtype = None

    # -------------------------------------------------------------- generic calls
    def __getattr__(self, name):
        if name.startswith("_"):
            raise AttributeError(name)
        fn = self._fn.get(name)
        if fn is None:
            if name not in self.protos:
                raise AttributeError("no wrapper for %s" % name)
            fn = self._make(name)
            self._fn[name] = fn
        return fn

    def _make(self, name):
        proto = self.protos[name]
        cfn = getattr(self.c, "vg_" + name)
        kinds = [k for _, k in proto["params"]]
        argtypes = [_CT[k] for k in kinds]
        ret = proto["ret"]
        if ret != "void":
            argtypes.append(ctypes.c_void_p)
        cfn.argtypes = argtypes
        cfn.restype = ctypes.c_int
        isptr = [k == "ptr" for k in kinds]
        nparam = len(kinds)
        lib = self

        if ret == "void":
            def call(*args):
                if len(args) != nparam:
                    raise TypeError("%s expects %d args" % (name, nparam))
                a = [(_as_ptr(x) if p else x) for x, p in zip(args, isptr)]
                st = cfn(*a)
                if st:
                    raise MjError(lib.c.vg_last_error().decode(errors="replace"))
            return call

        if ret.startswith("struct:"):
            def call(*args):  # caller supplies the output buffer as the last argument
                a = [(_as_ptr(x) if p else x) for x, p in zip(args[:nparam], isptr)]
                st = cfn(*a, _as_ptr(args[nparam]))
                if st:
                    raise MjError(lib.c.vg_last_error().decode(errors="replace"))
            return call

        rtype = _CT[ret]

        def call(*args):
            if len(args) != nparam:
                raise TypeError("%s expects %d args" % (name, nparam))
            a = [(_as_ptr(x) if p else x) for x, p in zip(args, isptr)]
            out = rtype()
            st = cfn(*a, ctypes.addressof(out))
            if st:
                raise MjError(lib.c.vg_last_error().decode(errors="replace"))
            return out.value
        return call

    # -------------------------------------------------------------- helpers
    def last_warning(self) -> str:
        return self.c.vg_last_warning().decode(errors="replace")

    def warning_count(self) -> int:
        return self.c.vg_warning_count()

    def cstr(self, ptr) -> str | None:
        if not ptr:
            return None
        return ctypes.string_at(ptr).decode(errors="replace")

    def contact_dtype(self):
        if self._contact_dtype is None:
            names, formats, offsets = [], [], []
            i = 0
            nm = ctypes.c_char_p()
            off = ctypes.c_int()
            cnt = ctypes.c_int()
            isint = ctypes.c_int()
            while self.c.vg_contact_layout(i, ctypes.byref(nm), ctypes.byref(off), ctypes.byref(cnt),
                                           ctypes.byref(isint)):
                names.append(nm.value.decode())
                base = "i4" if isint.value else "f8"
                formats.append(base if cnt.value == 1 else (base, (cnt.value,)))
                offsets.append(off.value)
                i += 1
            self._contact_dtype = np.dtype({"names": names, "formats": formats, "offsets": offsets,
                                            "itemsize": self.c.vg_sizeof(b"mjContact")})
        return self._contact_dtype

    def parse_xml(self, xml: str | bytes, vfs=None) -> "Handle":
        if isinstance(xml, str):
            xml = xml.encode()
        err = ctypes.create_string_buffer(2000)
        s = self.mj_parseXMLString(xml, vfs, err, 2000)
        if not s:
            raise MjError("parse: " + err.value.decode(errors="replace"))
        return Handle(s)

    def compile(self, spec: "Handle", vfs=None) -> "Model":
        m = self.mj_compile(spec, vfs)
        if not m:
            e = self.mjs_getError(spec)
            raise MjError("compile: " + (self.cstr(e) or ""))
        return Model(self, m)

    def load_xml(self, xml: str | bytes, vfs=None, keep_spec: bool = False):
        spec = self.parse_xml(xml, vfs)
        try:
            m = self.compile(spec, vfs)
        except MjError:
            self.mj_deleteSpec(spec)
            raise
        if keep_spec:
            m.spec = spec
            return m
        self.mj_deleteSpec(spec)
        return m

    def make_data(self, m: "Model") -> "Data":
        d = self.mj_makeData(m)
        if not d:
            raise MjError("mj_makeData returned NULL")
        return Data(self, m, d)

    def data_diff(self, m, a, b, mask=CMP_ALL) -> str | None:
        buf = ctypes.create_string_buffer(128)
        if self.c.vg_data_diff(m.ptr, a.ptr, b.ptr, mask, buf, 128):
            return buf.value.decode()
        return None

    def data_hash(self, m, d, mask=CMP_ALL) -> int:
        return self.c.vg_data_hash(m.ptr, d.ptr, mask)

    def model_diff(self, a, b) -> str | None:
        buf = ctypes.create_string_buffer(128)
        if self.c.vg_model_diff(a.ptr, b.ptr, buf, 128):
            return buf.value.decode()
        return None


def _view(f: VgField, lib: Lib):
    ct = f.ctype.decode()
    n = f.nrow * f.ncol
    if ct == "mjContact":
        dt = lib.contact_dtype()
        if not f.ptr or f.nrow <= 0:
            return np.zeros(0, dtype=dt)
        buf = (ctypes.c_char * (f.nrow * dt.itemsize)).from_address(f.ptr)
        return np.frombuffer(buf, dtype=dt)
    if ct in ("mjSolverStat", "mjWarningStat", "mjTimerStat"):
        sz = lib.c.vg_sizeof(ct.encode())
        if ct == "mjSolverStat":
            dt = np.dtype({"names": ["improvement", "gradient", "lineslope", "nactive", "nchange", "neval", "nupdate"],
                           "formats": ["f8", "f8", "f8", "i4", "i4", "i4", "i4"],
                           "offsets": [0, 8, 16, 24, 28, 32, 36], "itemsize": sz})
        elif ct == "mjWarningStat":
            dt = np.dtype({"names": ["lastinfo", "number"], "formats": ["i4", "i4"], "offsets": [0, 4], "itemsize": sz})
        else:
            dt = np.dtype({"names": ["duration", "number"], "formats": ["f8", "i4"], "offsets": [0, 8], "itemsize": sz})
        buf = (ctypes.c_char * (n * sz)).from_address(f.ptr)
        a = np.frombuffer(buf, dtype=dt)
        return a.reshape(f.nrow, f.ncol) if f.ncol > 1 else a
    dt = np.dtype(_NP[ct])
    if not f.ptr or n <= 0:
        a = np.zeros(max(n, 0), dtype=dt)
    else:
        buf = (ctypes.c_char * (n * dt.itemsize)).from_address(f.ptr)
        a = np.frombuffer(buf, dtype=dt)
    if f.kind in (0, 12) or (f.kind in (2, 3) and f.nrow == 1):
        return a  # scalar: 1-element view
    if f.ncol > 1:
        return a.reshape(f.nrow, f.ncol)
    return a


class _Opt:
    def __init__(self, model, prefix):
        object.__setattr__(self, "_m", model)
        object.__setattr__(self, "_p", prefix)

    def __getattr__(self, name):
        v = self._m.field(self._p + name)
        return v[0] if v.shape == (1,) else v

    def __setattr__(self, name, value):
        v = self._m.field(self._p + name)
        v[...] = value


class Model:
    def __init__(self, lib: Lib, ptr: int, own: bool = True):
        self.lib = lib
        self.ptr = ptr
        self.own = own
        self.spec = None
        self._f = {}
        f = VgField()
        i = 0
        while lib.c.vg_model_field(ptr, i, ctypes.byref(f)):
            self._f[f.name.decode()] = (i, f.kind)
            i += 1
        self._cache = {}
        self.opt = _Opt(self, "opt.")
        self.stat = _Opt(self, "stat.")

    def field(self, name):
        v = self._cache.get(name)
        if v is None:
            i, kind = self._f[name]
            f = VgField()
            self.lib.c.vg_model_field(self.ptr, i, ctypes.byref(f))
            v = _view(f, self.lib)
            self._cache[name] = v
        return v

    def fields(self):
        return list(self._f)

    def __getattr__(self, name):
        if name.startswith("_") or name in ("lib", "ptr", "own", "spec", "opt", "stat"):
            raise AttributeError(name)
        if name not in self._f:
            raise AttributeError(name)
        v = self.field(name)
        if self._f[name][1] == 0:
            return int(v[0])
        return v

    def free(self):
        if self.ptr and self.own:
            self.lib.mj_deleteModel(self.ptr)
        if self.spec:
            self.lib.mj_deleteSpec(self.spec)
            self.spec = None
        self.ptr = None

    def name(self, objtype: int, i: int):
        p = self.lib.mj_id2name(self, objtype, i)
        return self.lib.cstr(p)


class Data:
    def __init__(self, lib: Lib, model: Model, ptr: int, own: bool = True):
        self.lib = lib
        self.model = model
        self.ptr = ptr
        self.own = own
        self._f = {}
        f = VgField()
        i = 0
        while lib.c.vg_data_field(model.ptr, ptr, i, ctypes.byref(f)):
            self._f[f.name.decode()] = (i, f.kind)
            i += 1
        self._cache = {}

    def field(self, name):
        i, kind = self._f[name]
        if kind != 11:
            v = self._cache.get(name)
            if v is not None:
                return v
        f = VgField()
        self.lib.c.vg_data_field(self.model.ptr, self.ptr, i, ctypes.byref(f))
        v = _view(f, self.lib)
        if kind != 11:
            self._cache[name] = v
        return v

    def fields(self):
        return list(self._f)

    def __getattr__(self, name):
        if name.startswith("_") or name in ("lib", "ptr", "own", "model"):
            raise AttributeError(name)
        if name not in self._f:
            raise AttributeError(name)
        v = self.field(name)
        if self._f[name][1] == 12:
            return v[0].item()
        return v

    def __setattr__(self, name, value):
        f = self.__dict__.get("_f")
        if f and name in f:
            v = self.field(name)
            v[...] = value
        else:
            object.__setattr__(self, name, value)

    def free(self):
        if self.ptr and self.own:
            self.lib.mj_deleteData(self.ptr)
        self.ptr = None


_libs = {}


def load(variant: str = "rel") -> Lib:
    if variant not in _libs:
        _libs[variant] = Lib(variant)
    return _libs[variant]
