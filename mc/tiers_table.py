"""Maintenance tool: table of what the quick and thorough tiers covered in their last run (evidence/ and evidence_thorough/).

usage: python -m mc.tiers_table   (prints markdown)
"""
import glob
import json
import os

VERIF = os.path.dirname(os.path.dirname(os.path.abspath(__file__)))


def row(e):
    if not e:
        return "-", "-", "-"
    c = e["coverage"]
    n = "%.3g" % c.get("evaluations", 0)
    if e["level"] == "model_checking":
        n += " (%.3g states)" % c.get("states", 0)
    return n, "%d" % round(e.get("wall_s", 0)), "%d/%d" % (e.get("violations", 0), len(e.get("known_findings_hit", [])))


def main():
    print("| id | level | quick: evaluations | wall s | thorough: evaluations | wall s | known keys hit (thorough) |")
    print("|---|---|---|---|---|---|---|")
    for p in sorted(glob.glob(os.path.join(VERIF, "evidence", "C*.json"))):
        q = json.load(open(p))
        pid = q["property_id"]
        tp = os.path.join(VERIF, "evidence_thorough", pid + ".json")
        t = json.load(open(tp)) if os.path.exists(tp) else None
        if t and t.get("tier") != "thorough":
            t = None
        qn, qw, _ = row(q)
        tn, tw, tk = row(t)
        print("| %s | %s | %s | %s | %s | %s | %s |" % (pid, q["level"], qn, qw, tn, tw, tk.split("/")[1] if t else "-"))


if __name__ == "__main__":
    main()
