from __future__ import annotations

import json
import os

from . import registry

VERIF = os.path.dirname(os.path.dirname(os.path.abspath(__file__)))


def main():
    CHECKS = registry.collect()
    ids = []
    with open(os.path.join(VERIF, "properties.jsonl")) as fh:
        for line in fh:
            if line.strip():
                ids.append(json.loads(line)["id"])
    checks = []
    for pid in ids:
        if pid not in CHECKS:
            continue
        cat, tech, text, note, ref = CHECKS[pid]
        checks.append({
            "property_id": pid,
            "quick_cmd": "./check %s --tier quick" % pid,
            "thorough_cmd": "./check %s --tier thorough" % pid,
            "evidence_file": "/verif/evidence/%s.json" % pid,
            "replay_cmd_template": "./check %s --replay {path}" % pid,
            "engine": "mc",
            "level_claimed": {"category": cat, "text": text, "design_ref": ref},
            "level_note": note,
            "technique": tech,
        })
    na = []
    for pid in ids:
        if pid not in CHECKS:
            na.append({"property_id": pid, "reason": registry.NOT_APPLICABLE.get(pid, registry.NOT_YET)})
    man = {
        "version": 1,
        "setup_cmd": "/venv/bin/python -m mc.setup",
        "hooks": {
            "guard": "MUJOCO_VERIF",
            "enable": "no source hooks: interception is done from outside (/verif/shims, -include preludes, "
                      "mju_user_malloc / log handler, exported internal functions); checks build /repo's working tree "
                      "into /verif/.cache with clang",
            "baseline_off_cmd": "cd /repo && /venv/bin/python -m pytest -ra -q -p no:cacheprovider --timeout=900 "
                                "--continue-on-collection-errors",
            "source_commits": [],
            "add_only": True,
        },
        "engines": [{
            "name": "mc", "path": "/verif/mc",
            "serves_properties": [c["property_id"] for c in checks],
            "kind_free_text": "bounded exhaustive enumeration (lattice / history / schedule / fault explorers) over the "
                              "tree-built C library (ctypes + native drivers) and the tree's Python modules",
        }],
        "checks": checks,
        "notes": "All checks rebuild from /repo's working tree (content-addressed cache in /verif/.cache). "
                 "See DESIGN.md.",
        "not_applicable": na,
    }
    with open(os.path.join(VERIF, "MANIFEST.json"), "w") as fh:
        json.dump(man, fh, indent=1)
    print("MANIFEST.json: %d checks, %d not claimed" % (len(checks), len(na)))


if __name__ == "__main__":
    main()
