"""Load the *tree's* python/mujoco/introspect package without importing mujoco."""
from __future__ import annotations

import importlib
import importlib.util
import os
import sys
import types

from . import build

_PKG = "vt_introspect"


def load(mod: str):
    """Return module `mod` (e.g. 'functions') of /repo/python/mujoco/introspect."""
    base = os.path.join(build.REPO, "python/mujoco/introspect")
    if _PKG not in sys.modules:
        pkg = types.ModuleType(_PKG)
        pkg.__path__ = [base]
        sys.modules[_PKG] = pkg
    name = _PKG + "." + mod
    if name in sys.modules:
        return sys.modules[name]
    return importlib.import_module(name)
