"""Registry of claimed checks -> MANIFEST.json (python -m mc.manifest).

Each check module mc/checks/Cxx.py carries META = dict(category, technique, text, note, design_ref)."""
import glob
import importlib
import os

NOT_YET = "check not built yet in this session (see DESIGN.md §3 for the planned model-checking design)"
NOT_APPLICABLE = {}


def collect():
    out = {}
    here = os.path.join(os.path.dirname(os.path.abspath(__file__)), "checks")
    with open(os.path.join(os.path.dirname(os.path.abspath(__file__)), "claimed.txt")) as fh:
        claimed = {l.strip() for l in fh if l.strip() and not l.startswith("#")}
    for f in sorted(glob.glob(os.path.join(here, "C*.py"))):
        pid = os.path.basename(f)[:-3]
        if pid not in claimed:
            continue
        mod = importlib.import_module("mc.checks." + pid)
        meta = getattr(mod, "META", None)
        if not meta or getattr(mod, "DISABLED", False):
            continue
        out[pid] = (meta["category"], meta["technique"], meta["text"], meta["note"], meta.get("design_ref", "DESIGN.md §3 " + pid))
    return out
