"""Registry of claimed checks -> MANIFEST.json (python -m mc.manifest)."""

# id: (category, technique, text, note, design_ref)
CHECKS = {
    "C22": ("exploration",
            "exhaustive bounded enumeration of all small arrays (small-scope), differential vs trivial stable sort",
            "Every array of length <=12 (thorough 15) over 3 keys is pushed through the tree's mjSORT macro text "
            "instantiated with run size 2 and 3, so each merge level / odd run count / tail copy / copy-back parity is "
            "executed; production run size on complete pattern families for every length 0..200 (1000); every (array,k) "
            "for mjPARTIAL_SORT; mju_insertionSort/Int. Exhaustive within the bound, which is the right level for a pure "
            "function of a short array.",
            "Assumes the comparator is a preorder; arrays longer than the bound are covered only through the pattern "
            "families; run-size scaling re-defines _mjRUNSIZE before instantiating the unmodified macro.",
            "DESIGN.md §3 C22"),
}

NOT_YET = "check not built yet in this session (see DESIGN.md §3 for the planned model-checking design)"
NOT_APPLICABLE = {}
