CONSTANTS
  W = 2
  NBc = 2
  B1 = 3
  B2 = 2
SPECIFICATION Spec
INVARIANTS ExactlyOnce NoEarlyReturn AtMostOnce NoTaskOutOfRange RunsOnlyCurrentBatch
