----------------------------- MODULE ThreadPool -----------------------------
(* Batch protocol of src/engine/engine_thread.cc (ThreadPoolContext), one TLA+   *)
(* action per atomic operation, in program order.  Bound to the code by replaying *)
(* an edge cover of the reachable graph as forced schedules (mc/checks/_c03_conformance.py). *)
(* `last` records <<thread, kind, observed value>> of the step just taken; it is  *)
(* what the implementation's trace is compared with.                               *)
EXTENDS Integers, Sequences, FiniteSets

CONSTANTS W,        \* number of worker threads (>= 1)
          NBc, B1, B2 \* number of batches (1 or 2) and their task counts (each >= 2; smaller batches run inline)

Batches == IF NBc = 1 THEN <<B1>> ELSE <<B1, B2>>

Workers == 1..W
MaxT == 3

VARIABLES signal, next, ndone, ntask, batch,
          mpc, mtmp, mseen, wpc, wstatus, wid, mid,
          count,      \* count[b][t]: invocations of task t of batch b
          inflight,   \* invocations started and not finished
          last

vars == <<signal, next, ndone, ntask, batch, mpc, mtmp, mseen, wpc, wstatus, wid, mid, count, inflight, last>>

NB == Len(Batches)

Init ==
  /\ signal = 1 /\ next = 0 /\ ndone = 0 /\ ntask = 0 /\ batch = 1
  /\ mpc = IF NB >= 1 THEN "m1" ELSE "d1"
  /\ mtmp = 0 /\ mid = 0 /\ mseen = -1
  /\ wpc = [w \in Workers |-> "w1"]
  /\ wstatus = [w \in Workers |-> 1]
  /\ wid = [w \in Workers |-> 0]
  /\ count = [b \in 1..NB |-> [t \in 0..(MaxT-1) |-> 0]]
  /\ inflight = 0
  /\ last = <<-1, "init", 0>>

\* ------------------------------------------------------------------ main thread (tid 0)
M1 == /\ mpc = "m1"
      /\ ntask' = Batches[batch]            \* plain writes of the batch fields, then next.store(0)
      /\ next' = 0 /\ mpc' = "m2" /\ last' = <<0, "store", 0>>
      /\ UNCHANGED <<signal, ndone, batch, mtmp, wpc, wstatus, wid, mid, count, inflight, mseen>>
M2 == /\ mpc = "m2" /\ ndone' = 0 /\ mpc' = "m3" /\ last' = <<0, "store", 0>> /\ mseen' = -1
      /\ UNCHANGED <<signal, next, ntask, batch, mtmp, wpc, wstatus, wid, mid, count, inflight>>
M3 == /\ mpc = "m3" /\ mtmp' = signal /\ mpc' = "m4" /\ last' = <<0, "load", signal>>
      /\ UNCHANGED <<signal, next, ndone, ntask, batch, wpc, wstatus, wid, mid, count, inflight, mseen>>
M4 == /\ mpc = "m4" /\ signal' = -mtmp /\ mpc' = "m5" /\ last' = <<0, "store", -mtmp>>
      /\ UNCHANGED <<next, ndone, ntask, batch, mtmp, wpc, wstatus, wid, mid, count, inflight, mseen>>
M5 == /\ mpc = "m5" /\ mpc' = "m6" /\ last' = <<0, "notify", 2>>
      /\ UNCHANGED <<signal, next, ndone, ntask, batch, mtmp, wpc, wstatus, wid, mid, count, inflight, mseen>>
M6 == /\ mpc = "m6" /\ next' = next + 1 /\ mid' = next
      /\ mpc' = IF next < ntask THEN "mrun" ELSE "m7"
      /\ inflight' = IF next < ntask THEN inflight + 1 ELSE inflight
      /\ last' = <<0, "rmw", next>>
      /\ UNCHANGED <<signal, ndone, ntask, batch, mtmp, wpc, wstatus, wid, count, mseen>>
MRun == /\ mpc = "mrun"                      \* task body: internal step
        /\ count' = [count EXCEPT ![batch][mid] = @ + 1]
        /\ inflight' = inflight - 1 /\ mpc' = "m6" /\ last' = <<0, "internal", mid>>
        /\ UNCHANGED <<signal, next, ndone, ntask, batch, mtmp, wpc, wstatus, wid, mid, mseen>>
M7 == /\ mpc = "m7" /\ ndone # mseen          \* busy wait: a load that observes ndone; re-reads of an unchanged
                                             \* value are stuttering steps and are left out (the scheduler's spin rule)
      /\ mseen' = ndone
      /\ \/ /\ ndone >= W                     \* batch complete: Dispatch returns
            /\ mpc' = IF batch < NB THEN "m1" ELSE "d1"
            /\ batch' = IF batch < NB THEN batch + 1 ELSE batch
         \/ /\ ndone < W /\ mpc' = "m7" /\ batch' = batch
      /\ last' = <<0, "load", ndone>>
      /\ UNCHANGED <<signal, next, ndone, ntask, mtmp, wpc, wstatus, wid, mid, count, inflight>>
D1 == /\ mpc = "d1" /\ signal' = 0 /\ mpc' = "d2" /\ last' = <<0, "store", 0>>
      /\ UNCHANGED <<next, ndone, ntask, batch, mtmp, wpc, wstatus, wid, mid, count, inflight, mseen>>
D2 == /\ mpc = "d2" /\ mpc' = "j" /\ mtmp' = 1 /\ last' = <<0, "notify", 2>>
      /\ UNCHANGED <<signal, next, ndone, ntask, batch, wpc, wstatus, wid, mid, count, inflight, mseen>>
J  == /\ mpc = "j" /\ mtmp \in Workers /\ wpc[mtmp] = "done"     \* join worker mtmp
      /\ mtmp' = mtmp + 1 /\ mpc' = IF mtmp = W THEN "done" ELSE "j"
      /\ last' = <<0, "join", mtmp>>
      /\ UNCHANGED <<signal, next, ndone, ntask, batch, wpc, wstatus, wid, mid, count, inflight, mseen>>

\* ------------------------------------------------------------------ worker w (tid w)
W1(w) == /\ wpc[w] = "w1" /\ signal # wstatus[w]                   \* signal_.wait(status)
         /\ wpc' = [wpc EXCEPT ![w] = "w2"] /\ last' = <<w, "wait", signal>>
         /\ UNCHANGED <<signal, next, ndone, ntask, batch, mpc, mtmp, wstatus, wid, mid, count, inflight, mseen>>
W2(w) == /\ wpc[w] = "w2" /\ wstatus' = [wstatus EXCEPT ![w] = signal]
         /\ wpc' = [wpc EXCEPT ![w] = IF signal = 0 THEN "done" ELSE "w3"]
         /\ last' = <<w, "load", signal>>
         /\ UNCHANGED <<signal, next, ndone, ntask, batch, mpc, mtmp, wid, mid, count, inflight, mseen>>
W3(w) == /\ wpc[w] = "w3" /\ next' = next + 1 /\ wid' = [wid EXCEPT ![w] = next]
         /\ wpc' = [wpc EXCEPT ![w] = IF next < ntask THEN "wrun" ELSE "w4"]
         /\ inflight' = IF next < ntask THEN inflight + 1 ELSE inflight
         /\ last' = <<w, "rmw", next>>
         /\ UNCHANGED <<signal, ndone, ntask, batch, mpc, mtmp, wstatus, mid, count, mseen>>
WRun(w) == /\ wpc[w] = "wrun"
           /\ count' = [count EXCEPT ![batch][wid[w]] = @ + 1]
           /\ inflight' = inflight - 1 /\ wpc' = [wpc EXCEPT ![w] = "w3"]
           /\ last' = <<w, "internal", wid[w]>>
           /\ UNCHANGED <<signal, next, ndone, ntask, batch, mpc, mtmp, wstatus, wid, mid, mseen>>
W4(w) == /\ wpc[w] = "w4" /\ ndone' = ndone + 1 /\ wpc' = [wpc EXCEPT ![w] = "w1"]
         /\ last' = <<w, "rmw", ndone>>
         /\ UNCHANGED <<signal, next, ntask, batch, mpc, mtmp, wstatus, wid, mid, count, inflight, mseen>>

Terminated == /\ mpc = "done" /\ \A w \in Workers : wpc[w] = "done" /\ UNCHANGED vars

Next == M1 \/ M2 \/ M3 \/ M4 \/ M5 \/ M6 \/ MRun \/ M7 \/ D1 \/ D2 \/ J
        \/ (\E w \in Workers : W1(w) \/ W2(w) \/ W3(w) \/ WRun(w) \/ W4(w))
        \/ Terminated

Spec == Init /\ [][Next]_vars

\* ------------------------------------------------------------------ invariants
\* when Dispatch of batch b has returned, every task of b ran exactly once and nothing is in flight
Returned(b) == \/ batch > b
               \/ (batch = b /\ mpc \in {"d1", "d2", "j", "done"})
ExactlyOnce == \A b \in 1..NB : Returned(b) =>
                 \A t \in 0..(Batches[b]-1) : count[b][t] = 1
NoEarlyReturn == (mpc \in {"m1", "d1", "d2", "j", "done"}) => inflight = 0
AtMostOnce == \A b \in 1..NB : \A t \in 0..(MaxT-1) : count[b][t] <= 1
NoTaskOutOfRange == \A b \in 1..NB : \A t \in 0..(MaxT-1) : (t >= Batches[b]) => count[b][t] = 0
RunsOnlyCurrentBatch == \A w \in Workers : wpc[w] = "wrun" => wid[w] < ntask
=============================================================================
