CONSTANTS
  W = 2
  NBc = 1
  B1 = 2
  B2 = 2
SPECIFICATION Spec
INVARIANTS ExactlyOnce NoEarlyReturn AtMostOnce NoTaskOutOfRange RunsOnlyCurrentBatch
